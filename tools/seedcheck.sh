#!/bin/bash
# usage: seedcheck.sh <PROP> <dir-with-patch.diff-demo_test.go-meta.json> <name> [tier]
# 1. confirms in a scratch worktree: patch applies, demo fails with / passes without, full suite passes with
# 2. applies the patch to /repo, runs the property's check, reverts
# 3. stores it under /verif/seeded/<name>/ with the outcome appended to meta.json
prop=$1; src=$2; name=$3; tier=${4:-quick}
export GOFLAGS=-mod=mod GOPROXY=off
wt=/tmp/seedwt_$name
rm -rf $wt; git -C /repo worktree add -q $wt HEAD || exit 9
res() { echo "$1"; }
cd $wt
pkg=$(grep -m1 -o "^package [a-z_]*" $src/demo_test.go | sed 's/package //')
pdir=.; [ "$pkg" != "ice" ] && pdir=./internal/$pkg
cp $src/demo_test.go $pdir/zz_demo_test.go
t=$(grep -o "func Test[A-Za-z0-9_]*" $pdir/zz_demo_test.go | head -1 | sed 's/func //')
without=$(go test -vet=off -count=1 -run "^$t\$" $pdir 2>&1 | tail -1)
git apply $src/patch.diff || { echo "PATCH DOES NOT APPLY"; git -C /repo worktree remove --force $wt; exit 8; }
with=$(go test -vet=off -count=1 -run "^$t\$" $pdir 2>&1 | tail -1)
rm $pdir/zz_demo_test.go
suite=$(go test -vet=off -count=1 ./... 2>&1 | grep -E "^(ok|FAIL|---)" | grep -v "^ok" | head -5)
if [ -n "$suite" ]; then suite2=$(go test -vet=off -count=1 ./... 2>&1 | grep -E "^(FAIL|--- FAIL)" | head -5); else suite2=""; fi
echo "demo without: $without"; echo "demo with: $with"; echo "suite(with) failures: ${suite2:-none}"
# run the check against the patched scratch worktree (same effect as applying the
# patch to /repo and undoing it, without disturbing other runs that read /repo)
cd /verif
out=$(VERIF_REPO=$wt timeout 2400 /verif/bin/verif check $prop --tier $tier 2>&1); rc=$?
cd /; git -C /repo worktree remove --force $wt
echo "check $prop ($tier) rc=$rc"; echo "$out" | grep -E "VIOLATION|INCONCLUSIVE" | cut -c1-250 | head -6
mkdir -p /verif/seeded/$name; cp $src/patch.diff $src/demo_test.go /verif/seeded/$name/; [ -f $src/patch.orig.diff ] && cp $src/patch.orig.diff /verif/seeded/$name/
python3 - "$src/meta.json" "/verif/seeded/$name/meta.json" "$without" "$with" "${suite2:-none}" "$rc" "$tier" "$(echo "$out" | grep -E 'VIOLATION' | head -3)" <<'PY'
import json,sys
src,dst,without,withc,suite,rc,tier,viol=sys.argv[1:9]
try: m=json.load(open(src))
except Exception as e: m={"meta_error":str(e)}
m["confirmed"]={"demo_without_patch":without,"demo_with_patch":withc,"suite_failures_with_patch":suite}
m["check_outcome"]={"tier":tier,"exit":int(rc),"violation_lines":viol}
json.dump(m,open(dst,'w'),indent=1)
PY
