#!/usr/bin/env python3
"""Regenerates /verif/MANIFEST.json from the tables below (kept by hand, one entry per property)."""
import json, sys

TECH = "bounded symbolic execution of the real go/ssa code (own SSA->SMT-LIB encoder, bit-vector semantics) decided by z3; counterexamples replayed natively"

CLAIMED = {
 "C17": dict(
   text="Symbolic execution of the real TypePreference/LocalPreference/Priority, CandidatePair.priority and Foundation code; z3 decides each assertion for ALL values of candidate type, network type, TCP type, relay protocol, 16-bit TCP offset, component 1..256 and all 2^64 (g,d) priority pairs against independently written RFC tables/formulas. Bounded only in the foundation lemma (address length <= 2 quick / <= 4 thorough).",
   note="Trusted: the encoder (validated per run by native re-execution of solver-produced path witnesses), z3, CRC-32 as an uninterpreted collision-free function, %d rendering injective. priorityOverride/foundationOverride paths are outside.",
   ref="DESIGN.md §5 C17"),
}

CLAIMED["C14"] = dict(
   text="Symbolic execution of the real readStreamingPacket / writeStreamingPacket / tcpPacketConn.startReading / readFromContext against a fake net.Conn whose byte stream (header included) is symbolic and whose Read chunking and failure point are explored exhaustively within the bounds; z3 decides length/offset/content assertions for all stream contents. Length arithmetic at the 16-bit boundary is case-split over listed lengths.",
   note="Bounds: streams <= 7 bytes quick / <= 9 thorough, buffers <= 5 / <= 7, <= 2 packets in round trips; lengths {255..131072} listed. Trusted: encoder (validated natively per run), z3, net.Conn Read contract (1..len(p) bytes or error). Outside: activeTCPConn goroutines, OS TCP, concurrency.",
   ref="DESIGN.md §5 C14")

CLAIMED["C05"] = dict(
   text="One authenticated Binding request is pushed through the real handleInbound/handleInboundRequest/AttrControl.GetFrom/handleRoleConflict/setSelector/stun.Build path with both 64-bit tie-breakers symbolic; z3 decides the RFC 8445 §7.3.1.1 decision table (keep+487 vs switch+silence), the shape of the 487 reply, the absence of any check side effect on conflict, and the pairwise exactly-one-switches lemma for all 2^128 tie-breaker pairs.",
   note="Bounds: 1 local + 1 remote UDP host candidate, full agent, attribute kinds none/controlling/controlled/both. Trusted: encoder (validated natively per run), z3, MESSAGE-INTEGRITY as an injective-in-key contract, CRC uninterpreted. Outside: interleavings between two live agents, 'after which C01 holds'.",
   ref="DESIGN.md §5 C05")
CLAIMED["C02"] = dict(
   text="Single-step frame lemmas: one STUN message of any class/12-bit method with symbolic USERNAME bytes, integrity key kind, transaction id, priority and source address is run through the real Agent.handleInbound from a partly symbolic agent pre-state (pair states/flags, selection, 0..2 outstanding transactions with symbolic id/age/destination/transport); z3 proves on every path that unauthenticated or mismatched messages change no observable (datagrams, candidates, pairs, selection, state, role, timestamps, callbacks, transactions), that a signed response changes pair state only for an outstanding same-transport same-address transaction and only on its own pair, and that indications only refresh a known remote. A second harness runs the real Restart and replays old-generation messages.",
   note="Bounds: quick 1+1 candidates, thorough 2+2 and lite; UDP host candidates; authenticated-request sources are concrete (prflx creation formats the address). Trusted: encoder (validated natively per run), z3, integrity contract (tag injective in key), taskloop.Run contract (C10 assumed), clock readings within a step <= 1 ms apart. Outside: bytes->Decode (pion/stun), TCP candidates, IPv6 zones.",
   ref="DESIGN.md §5 C02")

NOT_APPLICABLE = {
 "C01": "needs two live agents, a symbolic network scheduler and a fairness (liveness) argument; a sequential encoder of single functions cannot express it (its safety half is covered by the C02/C03 lemmas)",
 "C08": "termination / unblocking of blocked goroutines and a goroutine census: no scheduler or channel model in a sequential SSA encoder",
 "C10": "mutual exclusion and exactly-once execution over goroutine interleavings on channels/select/sync.Once: needs a concurrency model checker, outside this technique here",
 "C11": "ordering/non-overlap of the three drainer goroutines: concurrency only",
}

NOT_BUILT = {
 "C03": "check not built yet in this round (planned in DESIGN.md §5); not claimed",
 "C04": "check not built yet in this round (planned in DESIGN.md §5); not claimed",
 "C06": "check not built yet in this round (planned in DESIGN.md §5); not claimed",
 "C07": "check not built yet in this round (planned in DESIGN.md §5); not claimed",
 "C09": "check not built yet in this round (planned in DESIGN.md §5); not claimed",
 "C12": "check not built yet in this round (planned in DESIGN.md §5); not claimed",
 "C13": "check not built yet in this round (planned in DESIGN.md §5); not claimed",
 "C15": "check not built yet in this round (planned in DESIGN.md §5); not claimed",
 "C16": "check not built yet in this round (planned in DESIGN.md §5); not claimed",
 "C18": "check not built yet in this round (planned in DESIGN.md §5); not claimed",
 "C19": "check not built yet in this round (planned in DESIGN.md §5); not claimed",
 "C20": "check not built yet in this round (planned in DESIGN.md §5); not claimed",
}

def main():
    checks=[]
    for pid in sorted(CLAIMED):
        c=CLAIMED[pid]
        checks.append({
          "property_id": pid,
          "quick_cmd": f"/verif/bin/verif check {pid} --tier quick",
          "thorough_cmd": f"/verif/bin/verif check {pid} --tier thorough",
          "evidence_file": f"/verif/evidence/{pid}.json",
          "replay_cmd_template": "/verif/bin/verif replay {path}",
          "engine": "verif-symex",
          "level_claimed": {"category":"model_checking","text":c["text"],"design_ref":c["ref"]},
          "level_note": c["note"],
          "technique": TECH,
        })
    na=[{"property_id":k,"reason":v} for k,v in sorted({**NOT_APPLICABLE, **NOT_BUILT}.items()) if k not in CLAIMED]
    m={
     "version":1,
     "setup_cmd":"cd /verif/engine && GOFLAGS=-mod=mod GOPROXY=off go build -o /verif/bin/verif .",
     "hooks":{"guard":"verif","enable":"no hooks are compiled into /repo: harness files under /verif/harness are injected as virtual files /repo/zz_verif_*.go through go/packages Overlay (encoding) and go test -overlay (native replay)",
              "baseline_off_cmd":"/verif/tools/baseline.sh","source_commits":[],"add_only":True},
     "engines":[{"name":"verif-symex","path":"/verif/engine","serves_properties":sorted(CLAIMED),
                 "kind_free_text":"path-forking symbolic interpreter over go/ssa of /repo's working tree (re-encoded on every run) -> SMT-LIB2 bit-vector queries -> z3 -in; counterexample replay and translator validation through go test -overlay"}],
     "checks":checks,
     "not_applicable":na,
     "notes":"Exit codes: 0 all obligations unsat and reach witnesses hit; 1 + VIOLATION line for a natively replayed counterexample; 2 inconclusive (engine limit, solver unknown, replay mismatch). Known findings: /verif/known_findings.json.",
    }
    json.dump(m,open('/verif/MANIFEST.json','w'),indent=1)
    print("claimed",len(checks),"n/a",len(na))
main()
