#!/usr/bin/env python3
"""Regenerates /verif/MANIFEST.json from the tables below (kept by hand, one entry per property)."""
import json, sys

TECH_SCHED = "symbolic execution of the real go/ssa code (own SSA->SMT-LIB encoder) with exhaustive context-bounded enumeration of thread schedules at synchronisation points (CHESS-style); data branches and assertions over symbolic values decided by z3; schedule counterexamples confirmed by re-executing the recorded decision vector on the SSA of the current tree"
TECH = "bounded symbolic execution of the real go/ssa code (own SSA->SMT-LIB encoder, bit-vector semantics) decided by z3; counterexamples replayed natively"

CLAIMED = {
 "C17": dict(
   text="Symbolic execution of the real TypePreference/LocalPreference/Priority, CandidatePair.priority and Foundation code; z3 decides each assertion for ALL values of candidate type, network type, TCP type, relay protocol, 16-bit TCP offset, component 1..256 and all 2^64 (g,d) priority pairs against independently written RFC tables/formulas. Bounded only in the foundation lemma (address length <= 2 quick / <= 4 thorough).",
   note="Trusted: the encoder (validated per run by native re-execution of solver-produced path witnesses), z3, CRC-32 as an uninterpreted collision-free function, %d rendering injective. priorityOverride/foundationOverride paths are outside.",
   ref="DESIGN.md §5 C17"),
}

CLAIMED["C14"] = dict(
   text="Symbolic execution of the real readStreamingPacket / writeStreamingPacket / tcpPacketConn.startReading / readFromContext against a fake net.Conn whose byte stream (header included) is symbolic and whose Read chunking and failure point are explored exhaustively within the bounds; z3 decides length/offset/content assertions for all stream contents. Length arithmetic at the 16-bit boundary is case-split over listed lengths.",
   note="Bounds: streams <= 7 bytes quick / <= 9 thorough, buffers <= 5 / <= 7, <= 2 packets in round trips; lengths {255..131072} listed. Trusted: encoder (validated natively per run), z3, net.Conn Read contract (1..len(p) bytes or error). Outside: activeTCPConn goroutines, OS TCP, concurrency.",
   ref="DESIGN.md §5 C14")

CLAIMED["C05"] = dict(
   text="One authenticated Binding request is pushed through the real handleInbound/handleInboundRequest/AttrControl.GetFrom/handleRoleConflict/setSelector/stun.Build path with both 64-bit tie-breakers symbolic; z3 decides the RFC 8445 §7.3.1.1 decision table (keep+487 vs switch+silence), the shape of the 487 reply, the absence of any check side effect on conflict, and the pairwise exactly-one-switches lemma for all 2^128 tie-breaker pairs.",
   note="Bounds: 1 local + 1 remote UDP host candidate, full agent, attribute kinds none/controlling/controlled/both. Trusted: encoder (validated natively per run), z3, MESSAGE-INTEGRITY as an injective-in-key contract, CRC uninterpreted. Outside: interleavings between two live agents, 'after which C01 holds'.",
   ref="DESIGN.md §5 C05")
CLAIMED["C02"] = dict(
   text="Single-step frame lemmas: one STUN message of any class/12-bit method with symbolic USERNAME bytes, integrity key kind, transaction id, priority and source address is run through the real Agent.handleInbound from a partly symbolic agent pre-state (pair states/flags, selection, 0..2 outstanding transactions with symbolic id/age/destination/transport); z3 proves on every path that unauthenticated or mismatched messages change no observable (datagrams, candidates, pairs, selection, state, role, timestamps, callbacks, transactions), that a signed response changes pair state only for an outstanding same-transport same-address transaction and only on its own pair, and that indications only refresh a known remote. A second harness runs the real Restart and replays old-generation messages.",
   note="Bounds: quick 1+1 candidates, thorough 2 locals + 1 remote and lite; UDP host candidates; authenticated-request sources are concrete (prflx creation formats the address). Trusted: encoder (validated natively per run), z3, integrity contract (tag injective in key), taskloop.Run contract (C10 assumed), clock readings within a step <= 1 ms apart. Outside: bytes->Decode (pion/stun), TCP candidates, IPv6 zones.",
   ref="DESIGN.md §5 C02")

CLAIMED["C03"] = dict(
   text="Single-step selection lemmas over the real handleInbound (both selectors, lite wrapper) and one real ContactCandidates tick, from a symbolic pre-state satisfying the selection invariant: the invariant (selected => listed, Succeeded, nominated) is inductive; pairs become Succeeded only through their own matched response (lite controlled: authenticated nomination); controlling selects only on a matched response whose recorded request carried USE-CANDIDATE; controlled selects only on a nominating request on that very pair or on the response of a pair nominated earlier; controlled never emits USE-CANDIDATE; lite controlled never emits requests; plain USE-CANDIDATE never lowers the selected priority. Emitted datagrams are real stun.Build output decoded by the real Decode.",
   note="Bounds: 2 local + 1 remote UDP candidates, candidate priorities 1..256, 0..1 outstanding transactions quick (0..2 thorough). Ghost field: sending local candidate of each transaction; the cross-local response case is a listed known finding (C03-response-on-other-local). Trusted: encoder, z3, integrity contract, clock model. Outside: application binding-request handler, TCP, automatic renomination.",
   ref="DESIGN.md §5 C03")
CLAIMED["C04"] = dict(
   text="(a) the timing decision connectionStateForDisconnection and initialCheckingTimeout are proved equal to independently written oracles for all durations in [0,2^62); (b) validateSelectedPair, 1..2 ticks through the real connectivityChecks loop (timer and force channel scripted), updateConnectionState and Restart are executed from the lifecycle's start states with symbolic silence/timeouts: every notified transition is a lifecycle edge without repeats, Connected/Disconnected only with a selection, Failed only after release and (from Connected) only with the disconnected timeout disabled, a tick while Failed changes nothing, one notification per change, the Failed notification runs after the release.",
   note="Bounds: durations < 2^62; tick harness: timeouts {default,0,1 ns}, silence 1 ms..1 min, <= 2 ticks; thresholds asserted outside a 100 ms band (the handler reads the clock after the harness). Trusted: encoder, z3, clock model (monotone, <= 1 ms per reading inside a step), scripted timers, taskloop.Run contract. Outside: notifier delivery order (C11), nothing-after-Closed (C10).",
   ref="DESIGN.md §5 C04")
CLAIMED["C20"] = dict(
   text="Renomination lemmas on the real controlledSelector/controllingSelector/RenominateCandidate/NominationAttribute code: acceptance of any sequence of 3-4 valued/plain nominations equals 'greater than every accepted value'; an accepted nomination on a valid pair selects it for all priorities, a stale one changes nothing and is still answered; the two-step deferred path (nomination before validity, then the matched response) selects the pair for all priorities; controlling switches on every matched valued response; only a controlling agent with the feature can renominate; 24-bit values survive the codec.",
   note="Bounds: 2 local + 1 remote candidates, 24-bit nomination values, 0..2 outstanding transactions. The deferred-path defect found by this check was repaired (fix commit 1c6a613, recorded as fixed). Trusted: encoder, z3, integrity contract. Outside: two-agent convergence on the mirror pair.",
   ref="DESIGN.md §5 C20")

CLAIMED["C06"] = dict(
   text="The bookkeeping invariant I1-I5 is asserted after every mutator executed as real code from a bounded pre-state that satisfies it: public AddRemoteCandidate with six candidate kinds (incl. a signalled candidate superseding a peer-reflexive one: pairs keep id/state/flags/priority/selection), authenticated requests from unknown and from already-signalled sources (peer-reflexive discoveries go through the remote IP filter), local candidate arrival (new/duplicate), Restart and the Failed transition (no residue, ids not reused). Pair states/flags, the filter's rejected octet, tie-breakers and priorities are symbolic.",
   note="Bounds: <= 2 local, <= 2 remote, <= 4 pairs; one step from the pre-state per harness (inductive over the invariant). Trusted: encoder, z3, integrity contract, taskloop.Run contract, AddRemoteCandidate's goroutine run synchronously. Outside: passive-TCP remotes, mDNS resolution.",
   ref="DESIGN.md §5 C06")
CLAIMED["C07"] = dict(
   text="Write path and read path step lemmas on the real Conn.Write/WriteToPair/Read, CandidatePair.Write, candidateBase.writeTo/handleInboundPacket/validateSTUNTrafficCache, Agent.validateNonSTUNTraffic and the real packetio.Buffer, against recording fake sockets with nondeterministic outcomes: exactly one byte-identical datagram leaves through the selected (else a best valid) pair's socket to its remote; STUN-looking payloads, closed agents and missing valid pairs send nothing; counters advance by exactly (1,n); inbound non-STUN reaches the reader once and unmodified iff its source is a known remote of the same transport, else nothing changes; STUN-looking input never reaches the reader.",
   note="Bounds: payload lengths {0,1,19,20,24} with every byte symbolic, 2 pairs, symbolic pair states and priorities 1..256, any IPv4 source. Trusted: encoder, z3, fake sockets, sync.Map sequential model, taskloop.Run contract. Outside: delivery at the peer, re-selection races.",
   ref="DESIGN.md §5 C07")

CLAIMED["C19"] = dict(
   text="Differential check: the real evaluateRewriteRules/ruleMappingForLookup/catchAllSpecificity run on symbolic compiled rule lists next to a short reference implementation of the documented precedence (first explicit Local match, else most specific catch-all, declaration order on ties, interface/CIDR/family must match); z3 proves rule, mode and family equal on every path. The four appliers are checked against the replace/append/empty-list table, and construction-time validation against a concrete pool of valid/invalid rule pairs.",
   note="verifC19Compile: end-to-end differential over 2592 concrete rule sets through the real newAddressRewriteMapper + findExternalIPs (families, Networks, empty rules, Local pins). Bounds: 2 rules quick / 3 thorough (+4 catch-all-only), interface names any 2 bytes, CIDR any /8, flags and modes symbolic. One deviation is a listed known finding (CIDR-only vs global when the lookup has an interface name; pinned by the repo's own test). Trusted: encoder, z3, net.IPNet.Contains/IP.String as real code. Outside: text validation beyond the pool.",
   ref="DESIGN.md §5 C19")

CLAIMED["C16"] = dict(
   text="(a) every ICE STUN attribute codec (PRIORITY, ICE-CONTROLLING/CONTROLLED, AttrControl, USE-CANDIDATE, nomination, DTLS-in-STUN and ACK) is proved to round-trip for all values through the real stun.Message.Add/Get and to accept exactly the documented sizes for every attribute length 0..20; (b) Equal/DeepEqual reflexivity, symmetry and DeepEqual=>Equal over pairs of candidates built by the real constructors with symbolic port/component/priority/TCP type/extensions; (c) the five tokenizers on every byte string up to the bound (full UTF-8 decoding modelled symbolically) from every offset; extension marshal/unmarshal round trip; (d) Marshal->UnmarshalCandidate round trip with numeric fields represented by their decimal digits so that %d is exact; arbitrary tails after valid prefixes never panic and accepted text re-marshals to an Equal candidate.",
   note="verifC16ExtensionEquality: DeepEqual on extension lists = multiset equality (repeated extension names included). Bounds: strings <= 4 bytes quick / 6 thorough; extensions of 1..2 bytes; address pool of 5 (IPv4, IPv6, IPv4-mapped, mDNS); one numeric field at a time over its digit counts. Two defects found by this check were repaired (related address with port 0 dropped by Marshal; DeepEqual irreflexive with a TCP type). Trusted: encoder, z3, fmt model for %s/%d/%v, CRC uninterpreted. Outside: longer strings, netip.ParseAddr on fully symbolic text.",
   ref="DESIGN.md §5 C16")

CLAIMED["C12"] = dict(
   text="Sequential operation sequences (GetConn, write through a handle, inbound datagram dispatched by the real connWorker, RemoveConnByUfrag, handle Close, mux Close) are executed on the real UDPMuxDefault/udpMuxedConn/sharedPacketConn over a fake socket and compared, after every step, with a reference routing table written in the harness: destination = last writer of the canonical source address, else (first-contact STUN) the connection registered for the USERNAME prefix and the source's family, else drop; byte-identical payload, true source, per-connection FIFO, canonical keys, address map and per-connection lists agree, closed/removed connections receive nothing. USERNAME bytes and payloads are symbolic.",
   note="verifC12DualStack: a mux on the unspecified address serving one ufrag on both IP families retires BOTH connections on RemoveConnByUfrag / handle close / mux close. Bounds: one GetConn + 3 operations quick / 4 thorough, 2 ufrags, 3-4 addresses incl. the IPv4-mapped form. Concurrency is OUTSIDE: goroutines take turns at operation boundaries (one legal schedule per path). Known finding listed (write after RemoveConnByUfrag re-binds the address). Leftover table entries of a closed mux are not counted (nothing is dispatched). Trusted: encoder, z3, fake socket, sync.Pool free-list model.",
   ref="DESIGN.md §5 C12")
CLAIMED["C13"] = dict(
   text="(a) reference counting: 2..3 handles from the real GetConn over one udpMuxedConn under every sequence of 4-6 Close/WriteTo/ReadFrom operations: the underlying connection is closed exactly when the last handle closes, repeated Close is idempotent, a closed handle's I/O fails with ErrClosedPipe, siblings stay usable; (b) the write-abort protocol (startWriteContext/finishWrite/abortWrite on the lock-free state word) at method-atomic granularity under every sequence of 4-6 calls with SetWriteDeadline succeeding or failing: no-op abort without writers, deadline cleared by the last writer, flags cleared on failed arming, exact in-flight count, no entry while an abort is pending, socket usable afterwards.",
   note="(a') verifC13PendingRead (schedule exploration): closing a handle fails that handle's own PENDING read, with or without a read deadline armed, and leaves the sibling's pending read alone. (c) verifC13AbortInterleaved explores the fine-grained interleavings the property's rationale stresses: a context-bound write blocked in the socket, a concurrent plain write and the cancellation, with every atomic operation on the state word a scheduling point, all schedules with <= 2 preemptions (264k schedules): everybody returns, state word 0, deadline cleared, later writes succeed. Still outside: more than two writers, context bounds above 2/3, the TCP mux flavour. Trusted: encoder, scheduler model (switches at synchronisation operations), context package as real code, fake socket whose expired deadline fails current and future writes.",
   ref="DESIGN.md §5 C13")

CLAIMED["C18"] = dict(
   text="(a) isSupportedIPv6Partial and shouldFilterLocationTrackedIP are proved equal to independent bit-pattern predicates for all 2^128 addresses; (b) localInterfaces on a fake transport.Net returns exactly the eligible addresses (soundness and completeness) for symbolic flags/address bytes/filters and every network-type list incl. empty; (c) listenUDPInPortRange: bound port in range and free, never outside the range, ErrPort only after every port was tried once, defaults and min>max; (d) the UDP host path of gatherCandidatesLocal publishes a host candidate for an address iff it is eligible and not link-local, with ports in range and the mDNS name in gather mode, and adopts or closes every socket; (e) cycle control: GatherCandidates refused unless New, setGatheringState of a cancelled cycle is a no-op, exactly one nil candidate on the edge into Complete, Restart returns to New.",
   note="Bounds: 1-2 interfaces with one IPv4 and one IPv6 address each, port ranges of width <= 4, address pools where the code formats addresses as text. The defect found here (empty NetworkTypes gathered nothing) was repaired (fix e6334ca). Trusted: encoder, z3, fake transport.Net, randutil as arbitrary-in-range, context as real code. Outside: srflx/relay contents, TCP/UDP mux host paths, continual gathering, cycle overlap under real concurrency.",
   ref="DESIGN.md §5 C18")

CLAIMED["C09"] = dict(
   text="Sequential fault-path accounting on the real gatherer goroutine bodies: gatherCandidatesSrflx (listen, STUN exchange through the real GetXORMappedAddr, candidate creation, addCandidate), gatherCandidatesRelay over UDP (listen, TURN client factory, Listen, Allocate, location filter) and addRelayCandidates/createRelayCandidate, each run against recording fakes under every combination of injected failures incl. cancellation or agent close while the exchange is in flight: every resource acquired is closed or adopted by a started candidate, nothing is released twice, and candidate removal releases adopted resources exactly once. The host gatherer's accounting is part of C18(d), duplicate-candidate closing of C06.",
   note="Relay teardown is also run with the allocation's Close reporting an error. SEQUENTIAL fault paths only (claimed as such): goroutine bodies run to completion when spawned, helpers are scheduled cooperatively. Two leaks found here were repaired (fix 94392a5, 9897c5d); one finding stays listed (append-mode relay candidates share one allocation). Outside: timing of Restart/Close against in-flight exchanges under real concurrency, DTLS/TLS/TCP TURN branches, the open-socket tally after Close.",
   ref="DESIGN.md §5 C09")

CLAIMED["C15"] = dict(
   text="Admission and routing of one accepted TCP connection through the real TCPMuxDefault.handleConn / readStreamingPacket / stun.Message.Decode / getConn / createConn / tcpPacketConn.AddConn / startReading / readFromContext / WriteTo over fake listener and connection: closed iff the first frame is missing, truncated, oversized, undecodable, not Binding or USERNAME-less (incl. an arbitrary symbolic 20-byte header); otherwise attached to exactly the packet conn of (ufrag, peer family, local IP), provisional with expiry armed for unknown ufrags; first message and later packets delivered in order with the peer address; replies go back over the same connection framed; provisional conns expire; Close closes listener and connections.",
   note="verifC15TwoPeers: two connections for one unregistered ufrag share a provisional conn whose expiry stays armed unless the agent claims the ufrag (time.AfterFunc Stop/Reset are modelled). SEQUENTIAL part only: accept loop, readers and close watchers run as cooperative coroutines (one legal schedule); AfterFunc fires only when the harness fires it; segmentations with <= 2 partial reads. Outside: expiry timing, concurrent accepts/removals, Close waiting for goroutines, goroutine census.",
   ref="DESIGN.md §5 C15")

CLAIMED["C10"] = dict(
   text="First half of the property (the task loop): schedule exploration over the REAL internal/taskloop code (no stub). The harness spawns concurrent submitters (one with a cancellable context), a canceller and a closer next to the loop goroutine; the scheduler switches threads only at synchronisation operations (channel send/receive/select with rendezvous semantics, close, mutex, Once, WaitGroup, atomics) and explores EVERY schedule with at most 2 preemptive context switches (free switches when a thread blocks). On every schedule: tasks never overlap, Run returns nil exactly when its task ran once to completion before the return and an error exactly when it never ran, no task starts after Close returned, the close callback runs once before Close returns, later submissions fail; a state where no thread can run is reported as deadlock.",
   note="Bounds: quick 1 submitter, thorough 2; context bound 2; switches at synchronisation granularity (sound for data-race-free code). NOT claimed: the second half (every public Agent/Conn method is race-free under concurrency) — that needs a memory-access-level race detector. Schedule-dependent counterexamples are replayed by re-executing the recorded decision vector on the real code's SSA (a native run cannot force a schedule); the harness also runs natively as a sanity check.",
   ref="DESIGN.md §5 C10", tech="sched")

CLAIMED["C11"] = dict(
   text="Schedule exploration over the REAL handlerNotifier including the drainer goroutines it spawns (two producers, a handler that yields inside, all three callback streams, context bound 2): the handler never runs concurrently with itself, every event is delivered exactly once, a producer's events keep their order, GracefulClose returns only when no handler is running and nothing is invoked afterwards. A second harness explores GatherCandidates racing with Restart over the real task loop, gather goroutine and notifier: at most one nil candidate per cycle, exactly one for a completed cycle, none for a refused or cancelled one; a third harness issues Restart after GatherCandidates returned at any explored moment of the running cycle: afterwards the state is New (a superseded cycle cannot overwrite it) and a fresh cycle completes with exactly one more nil candidate.",
   note="Bounds: 3 events, context bound 2 (3 thorough); gather-vs-restart: context bound 1 (2), first 5 (7) non-preemptive switch points nondeterministic. Switches at synchronisation operations only (sound for data-race-free code). Outside: handlers that re-enter the API, close the agent or block forever; longer bursts. Counterexamples are replayed by re-executing the schedule on the real code's SSA.",
   ref="DESIGN.md §5 C11", tech="sched")

CLAIMED["C01"] = dict(
   text="Bounded two-agent model checking on the real code: a controlling and a controlled agent (bare Agent structs, real selectors, real stun.Build/Decode, real handleInbound and ContactCandidates) are joined by a harness network in which every emitted datagram stays in flight until the explorer delivers, drops or duplicates it. After an adversarial prefix of 3 (thorough 2 or 4, see bounds) explorer-chosen steps from {tick A, tick B, deliver, drop, duplicate/reorder in either direction} a fair loss-free suffix of 6 rounds runs. For every prefix and reachability matrix: the selection invariant holds on both sides at every step, Connected is reported exactly while a pair is selected, an unreachable (or one-way) path never yields Connected or a selection, and with a path reachable both ways both agents end Connected on mirror-image pairs. Orderings beyond the prefix bound are covered one step at a time by lemmas from a symbolic agent state: a controlling agent nominates one pair at a time and USE-CANDIDATE only goes out on it; a controlled agent's deferred nomination stays armed until its pair is selected; a tick retransmits an outstanding nomination, nominates the best valid pair, and re-checks every pair within its retry budget.",
   note="Bounds: quick 1 candidate per side with a 3-step prefix; thorough 2 per side (4 pairs) with a 2-step prefix and 1 per side with a 4-step prefix; suffix 6 rounds ('eventually' = within the suffix); ticks call ContactCandidates directly (timer goroutine outside); transaction ids pairwise distinct; clock steps <= ~1 ms; integrity contract. Outside: srflx/NAT topologies, longer loss prefixes, Restart mid-session, real timers/sockets.",
   ref="DESIGN.md §5 C01")

CLAIMED["C08"] = dict(
   text="Bounded schedule exploration of Close/GracefulClose on an agent built by the REAL newAgentWithConfig (real task loop, on-close teardown closure, notifiers, Restart): Close is injected at explored moments of one concurrently running operation per scenario — five API calls, a reader parked in Conn.Read, a Dial parked in AwaitConnect with the candidate's receive loop parked in a socket read, a connectivity check whose socket write blocks for ever, an inbound Binding request, a gathering cycle, Close from inside the state callback, three concurrent closers. On every explored schedule: no deadlock (everything returns), blocked calls fail, racing calls return nil or a refusal, repeated Close/GracefulClose return nil, later API calls report the closed error without effect, the last notified state is Closed (once), candidates are dropped and their sockets closed, nothing is opened after Close returned, and when no thread can run any more every goroutine the agent started has ended.",
   note="Bounds: Close after 0..3 (thorough 0..7) fair hand-overs plus all schedules with <= 1 (2) preemptions at synchronisation points, first 3 (6) free switches fully explored; one host candidate on a blocking fake socket, one remote, one interface; timers never fire. 'Bounded time' is not measured: termination = no explored schedule leaves a thread that can never run. Switches at synchronisation granularity (sound for data-race-free code). Outside: mDNS, TCP/srflx/relay candidates and muxes at Close, GracefulClose inside a callback (documented unsafe), several concurrent operations, deeper bounds. Counterexamples are replayed by re-executing the schedule on the real code's SSA; the goroutine census is engine-only.",
   ref="DESIGN.md §5 C08", tech="sched")

NOT_APPLICABLE = {
}

NOT_BUILT = {
}

def main():
    checks=[]
    for pid in sorted(CLAIMED):
        c=CLAIMED[pid]
        checks.append({
          "property_id": pid,
          "quick_cmd": f"/verif/bin/verif check {pid} --tier quick",
          "thorough_cmd": f"/verif/bin/verif check {pid} --tier thorough",
          "evidence_file": f"/verif/evidence/{pid}.json",
          "replay_cmd_template": "/verif/bin/verif replay {path}",
          "engine": "verif-symex",
          "level_claimed": {"category":"model_checking","text":c["text"],"design_ref":c["ref"]},
          "level_note": c["note"],
          "technique": TECH_SCHED if c.get("tech")=="sched" else TECH,
        })
    na=[{"property_id":k,"reason":v} for k,v in sorted({**NOT_APPLICABLE, **NOT_BUILT}.items()) if k not in CLAIMED]
    m={
     "version":1,
     "setup_cmd":"cd /verif/engine && GOFLAGS=-mod=mod GOPROXY=off go build -o /verif/bin/verif .",
     "hooks":{"guard":"verif","enable":"no hooks are compiled into /repo: harness files under /verif/harness are injected as virtual files /repo/zz_verif_*.go through go/packages Overlay (encoding) and go test -overlay (native replay)",
              "baseline_off_cmd":"/verif/tools/baseline.sh","source_commits":[],"add_only":True},
     "engines":[{"name":"verif-symex","path":"/verif/engine","serves_properties":sorted(CLAIMED),
                 "kind_free_text":"path-forking symbolic interpreter over go/ssa of /repo's working tree (re-encoded on every run) -> SMT-LIB2 bit-vector queries -> z3 -in; counterexample replay and translator validation through go test -overlay"}],
     "checks":checks,
     "not_applicable":na,
     "notes":"Exit codes: 0 all obligations unsat and reach witnesses hit; 1 + VIOLATION line for a natively replayed counterexample; 2 inconclusive (engine limit, solver unknown, replay mismatch). Known findings: /verif/known_findings.json.",
    }
    json.dump(m,open('/verif/MANIFEST.json','w'),indent=1)
    print("claimed",len(checks),"n/a",len(na))
main()
