#!/bin/bash
# runs every claimed check (quick by default) and prints exit code and time
tier=${1:-quick}
for id in $(python3 -c "import json;print(' '.join(c['property_id'] for c in json.load(open('/verif/MANIFEST.json'))['checks']))"); do
  s=$(date +%s)
  out=$(timeout 3000 /verif/bin/verif check $id --tier $tier 2>&1); rc=$?
  e=$(date +%s)
  echo "$id rc=$rc $((e-s))s $(echo "$out" | grep -c KNOWN-FINDING) known; $(echo "$out" | grep -E 'VIOLATION|INCONCLUSIVE' | head -3)"
done
