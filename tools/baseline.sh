#!/bin/bash
# Runs the repository's own test suite (no build tags: the machinery in /verif
# adds no hooks to /repo) and compares the passing set with BASELINE.json's
# stable_pass list. Exit 0 iff every stable test passes.
export GOFLAGS=-mod=mod GOPROXY=off
out=$(mktemp)
(cd /repo && go test -json -vet=off -count=1 -timeout 25m ./... ) > "$out" 2>&1
python3 - "$out" <<'PY'
import json,sys
base=json.load(open('/root/.vp/BASELINE.json'))
stable=set(base['stable_pass'])
passed=set(); failed=set()
for l in open(sys.argv[1]):
    try: e=json.loads(l)
    except Exception: continue
    if e.get('Test') and e.get('Action') in ('pass','fail'):
        k=e['Package']+'::'+e['Test']
        (passed if e['Action']=='pass' else failed).add(k)
missing=sorted(stable-passed)
print(f"stable={len(stable)} passed={len(passed)} failed={len(failed)} stable_not_passed={len(missing)}")
for m in missing[:30]: print("  NOT PASSED:",m)
sys.exit(1 if missing else 0)
PY
rc=$?
rm -f "$out"
exit $rc
