#!/bin/bash
# usage: mut.sh <check-id> <file> <python-regex-old> <new>   (applies to /repo, runs the check, reverts)
id=$1; f=$2; old=$3; new=$4; shift 4
python3 - "$f" "$old" "$new" <<'PY'
import sys,re
f,old,new=sys.argv[1:4]
s=open('/repo/'+f).read()
n=s.count(old)
if n!=1: print("MUTATION: pattern count",n); sys.exit(3)
open('/repo/'+f,'w').write(s.replace(old,new))
PY
[ $? -eq 0 ] || exit 3
(cd /repo && go build ./... ) || { echo "MUTANT DOES NOT BUILD"; git -C /repo checkout -- .; exit 4; }
timeout 900 /verif/bin/verif check $id "$@" 2>&1 | grep -v "^\[" | head -12
echo "exit=${PIPESTATUS[0]}"
git -C /repo checkout -- .
