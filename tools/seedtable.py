#!/usr/bin/env python3
"""Prints the seeded-changes table for DESIGN.md §8 from /verif/seeded/*/meta.json."""
import json, glob, os, re
HIST = {
 "C03-1": "missed at first (pre-state had no nomination in progress) -> nominatedPair added to the pre-state",
 "C03-2": "missed at first -> deferred-plain-nomination lemmas + verifC03DeferredPlain",
 "C04-1": "missed at first (lite / explicit-timeout flags were constants) -> made symbolic",
 "C04-2": "inconclusive at first (engine counterexample did not replay: the drainer ran late natively) -> slow fake mux makes the window observable natively",
 "C14-1": "inconclusive at first (native replay hung) -> non-blocking reader harness + per-job native timeout",
 "C12-2": "missed at first (IPv4 mux only) -> verifC12DualStack",
 "C13-1": "missed at first (reads always had a packet queued) -> verifC13PendingRead",
 "C15-2": "missed at first (Timer.Stop was a no-op in the engine; one peer only) -> AfterFunc Stop/Reset model + verifC15TwoPeers",
 "C16-1": "missed at first (<= 1 extension in quick) -> verifC16ExtensionEquality",
 "C19-2": "missed at first (compiled rule structs were built by hand) -> verifC19Compile end to end",
 "C09-1": "missed at first (fake Close never failed) -> relay teardown with a failing Close",
 "C01-1": "missed by the bounded two-agent run (needs ~9 specific deliveries/losses) -> step lemma N2 (verifC01NominationLemmas)",
 "C01-2": "missed by the bounded two-agent run (needs 2 remote candidates and a specific reordering) -> step lemma N1",
 "C11-2": "first: every check inconclusive (the seed changes the signature of setGatheringState, which C18's harness calls) -> per-check harness closure; then missed (outcome indistinguishable in the concurrent harness) -> verifC11RestartDuringCycle",
 "C08-1": "missed at first (finality was only checked at the end of the run) -> closedNow at every Close return",
 "C08-2": "missed at first -> gracefulNow at every GracefulClose return",
}
HIST.update({
 "C02-3":"caught on the first run","C02-4":"caught on the first run",
 "C03-3":"caught on the first run (patch re-written against the tree after the C20 fixes)",
 "C03-4":"missed at first (ticks only from Connected with a fresh peer) -> tick pre-state also Disconnected with symbolic silence",
 "C04-3":"missed at first (no harness kept the connectivityChecks loop alive across a Restart; the clock never jumped) -> verifC04DeadlineRearm with verifAdvanceClock",
 "C05-3":"missed at first (conflicting requests only came from known remotes) -> unknown-source choice",
 "C06-4":"missed at first (candidates were never started; sockets never failed to close) -> started candidates, failing Close",
 "C07-3":"missed at first (pair nomination flags were constants) -> all pair bookkeeping symbolic",
 "C09-3":"caught on the first run",
 "C09-4":"missed by C09 at first (caught by C06 once candidates outside the configured network types existed) -> relay body also with NetworkTypes=[udp6]",
 "C12-3":"missed at first (3-4 operations cannot reach A-B-A) -> verifC12LastWriter",
 "C12-4":"missed at first (reads always had room) -> verifC12ShortBuffer",
 "C13-4":"missed at first (fake socket had no AddrPort methods) -> AddrPort-capable socket, handles of both flavours",
 "C14-4":"strengthened before the run (oversized frame followed by frame-like bytes)",
 "C15-3":"strengthened before the run (IPv4 in 16-byte form)",
 "C15-4":"strengthened before the run; first version blocked for ever (exit 2) -> queue occupancy asserted before reading",
 "C16-4":"strengthened before the run (resolved mDNS host candidates)",
 "C17-4":"missed at first (only the foundation's own inputs were symbolic) -> every other field symbolic",
 "C18-3":"missed at first (no srflx harness in C18) -> verifC18SrflxBase",
 "C19-3":"missed at first (externals never equal to the local address) -> identity entry",
 "C19-4":"missed at first (legacy NAT1To1IPs validator not covered) -> verifC19Legacy",
 "C11-3":"missed by the first notifier harness (single graceful Close) -> verifC11Reselect closes plainly, then gracefully",
 "C11-4":"missed at first (events were pairwise distinct) -> verifC11Reselect (A, B, A)",
 "C01-3":"missed at first -> lemma (T): a request on any not-yet-valid pair triggers a check",
 "C01-4":"missed at first -> verifC01LateResponse",
 "C08-3":"outside C08's topology (no TCP candidates); caught by C15's verifC15CloseWithFullQueue (meta records the C15 run)",
 "C08-4":"missed at first (no scenario had a selected pair, so Write took the slow path) -> connected-agent scenario",
 "C01-1":"missed by the bounded two-agent run (needs ~9 specific deliveries/losses) -> step lemma N2 (verifC01NominationLemmas); patch re-written against the tree after the C20 fixes",
 "C20-2":"caught on the first run (patch re-written against the tree after the C20 fixes)",
 "C03-2":"missed at first -> deferred-plain-nomination lemmas + verifC03DeferredPlain; applies to /repo 9897c5d only (see meta.json)",
})
HIST.update({
 "C01-5":"missed by C01 at first (C06's supersession lemma caught it) -> the lemma is part of C01 as step lemma (R)",
 "C01-6":"missed by C01 at first (C04's verifC04DeadlineRearm caught it) -> part of C01 as step lemma (S)",
 "C04-5":"missed at first (thresholds were set on the agent directly) -> verifC04ConfigTimeouts through initWithDefaults",
 "C04-6":"missed at first (nothing said what ends the silence) -> every delivered datagram refreshes LastReceived (verifC07Inbound, also run by C04)",
 "C08-5":"caught on the first run",
 "C08-6":"missed at first (a cancelled cycle always finished before Close) -> gated socket opening + verifC08CloseAfterRestart",
 "C12-5":"missed at first (no harness for the universal mux's wrapper) -> verifC12Universal",
 "C12-6":"missed by C12 at first (C13's refcount harness caught it) -> verifC12ClosedHandle",
 "C02-5":"missed at first (messages entered at handleInbound, behind the socket-level cache) -> verifC07InboundSTUN at handleInboundPacket with a cached source, run by C02 too",
 "C02-6":"caught on the first run",
 "C03-5":"missed at first (candidate priorities 1..256 in C03) -> pair-priority lemmas (P) for all 32-bit priorities are part of C03",
 "C03-6":"missed by C03 at first (C06 caught it) -> lemma (A): signalling selects nothing",
 "C05-5":"missed at first (no error responses with ERROR-CODE) -> verifC05Late487",
 "C05-6":"caught on the first run",
 "C06-5":"missed at first -> mDNS candidate resolved in plain/IPv4-mapped form x source in either form",
 "C06-6":"missed at first (no continual-gathering harness; tickers not modelled) -> time.NewTicker model + verifC06ContinualGathering",
 "C07-5":"caught on the first run",
 "C07-6":"missed at first (the loop always ran the validation task) -> loop closed / candidate being torn down",
 "C09-5":"missed at first (no UDP-mux host gatherer harness) -> verifC09HostUDPMux",
 "C09-6":"missed by C09 at first (C08 caught it) -> verifC09CloseVsGather",
 "C10-5":"missed at first (the Agent-level half of C10 was not claimed) -> verifC10InboundNeedsLoop",
 "C10-6":"missed at first (same) -> verifC10RestartIsOneTask",
 "C13-5":"missed at first (the fake socket let ordinary writes through an armed deadline, and the sibling's result was not looked at) -> fake corrected, verifC13AbortInterleavedAP; the first version of the assertion demanded more than the property (a sibling write already in flight may time out) and was corrected",
 "C13-6":"missed at first (one pending read at a time) -> verifC13TwoPendingReads",
 "C15-5":"caught on the first run","C15-6":"caught on the first run",
 "C11-5":"missed at first -> events that occurred before Restart are still delivered (verifC11RestartDuringCycleWithCandidate)",
 "C11-6":"missed at first (no slow gatherer, no timers) -> verifC11NilIsLast (gated gatherer, timer ticks)",
 "C14-5":"caught on the first run",
 "C14-6":"NOT caught: activeTCPConn's reader/writer goroutines sit behind net.Dialer.DialContext, which the engine does not model (stated under 'outside', §7)",
 "C16-5":"caught on the first run",
 "C16-6":"missed at first (decoders always got fresh receivers) -> used receivers",
 "C17-5":"caught on the first run",
 "C17-6":"missed at first (priority never read across a role switch; equal candidate priorities) -> verifC05RoleConflict with symbolic priorities, run by C17 too",
 "C18-5":"missed at first -> verifC06ContinualGathering is part of C18",
 "C18-6":"missed at first (ports never ran out on one address only) -> busy-address fault in verifC18GatherHost",
 "C19-5":"caught on the first run",
 "C19-6":"missed at first (no CIDR x Networks combination) -> verifC19CIDRNetworks",
 "C20-5":"missed by C20 at first (C06 caught it) -> verifC06AddRemote is part of C20",
 "C20-6":"caught on the first run",
})
HIST.update({
 "C03-7":"round 5; caught on the first run (same slip as C03-1, found independently)",
 "C14-7":"round 5; caught on the first run",
 "C16-7":"round 5; missed at first (foundations were always the computed decimal CRC) -> verifC16FoundationRoundTrip with symbolic ice-char foundations",
 "C17-7":"round 5; caught on the first run",
 "C19-7":"round 5; caught on the first run",
 "C20-7":"round 5; missed at first (a pair was never nominated twice while its nomination was deferred) -> verifC20DeferredRearmed",
})

rows=[]
for d in sorted(glob.glob('/verif/seeded/*/meta.json')):
    name=os.path.basename(os.path.dirname(d))
    m=json.load(open(d))
    what=(m.get('what') or '').strip().split('. ')[0][:150]
    co=m.get('check_outcome',{})
    rc=co.get('exit')
    labels=re.findall(r'replay=/verif/replays/\w+?_(verif\w+?)_', co.get('violation_lines','') or '')
    caught = 'caught by '+', '.join(sorted(set(labels))) if rc==1 else ('INCONCLUSIVE (exit 2)' if rc==2 else 'MISSED (exit 0)')
    rows.append((name, what, caught, HIST.get(name,'caught on the first run')))
print("| seed | change (first sentence of its description) | quick check on the patched tree | history |")
print("|---|---|---|---|")
for r in rows:
    print("| %s | %s | %s | %s |"%r)
