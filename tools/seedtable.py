#!/usr/bin/env python3
"""Prints the seeded-changes table for DESIGN.md §8 from /verif/seeded/*/meta.json."""
import json, glob, os, re
HIST = {
 "C03-1": "missed at first (pre-state had no nomination in progress) -> nominatedPair added to the pre-state",
 "C03-2": "missed at first -> deferred-plain-nomination lemmas + verifC03DeferredPlain",
 "C04-1": "missed at first (lite / explicit-timeout flags were constants) -> made symbolic",
 "C04-2": "inconclusive at first (engine counterexample did not replay: the drainer ran late natively) -> slow fake mux makes the window observable natively",
 "C14-1": "inconclusive at first (native replay hung) -> non-blocking reader harness + per-job native timeout",
 "C12-2": "missed at first (IPv4 mux only) -> verifC12DualStack",
 "C13-1": "missed at first (reads always had a packet queued) -> verifC13PendingRead",
 "C15-2": "missed at first (Timer.Stop was a no-op in the engine; one peer only) -> AfterFunc Stop/Reset model + verifC15TwoPeers",
 "C16-1": "missed at first (<= 1 extension in quick) -> verifC16ExtensionEquality",
 "C19-2": "missed at first (compiled rule structs were built by hand) -> verifC19Compile end to end",
 "C09-1": "missed at first (fake Close never failed) -> relay teardown with a failing Close",
 "C01-1": "missed by the bounded two-agent run (needs ~9 specific deliveries/losses) -> step lemma N2 (verifC01NominationLemmas)",
 "C01-2": "missed by the bounded two-agent run (needs 2 remote candidates and a specific reordering) -> step lemma N1",
 "C11-2": "first: every check inconclusive (the seed changes the signature of setGatheringState, which C18's harness calls) -> per-check harness closure; then missed (outcome indistinguishable in the concurrent harness) -> verifC11RestartDuringCycle",
 "C08-1": "missed at first (finality was only checked at the end of the run) -> closedNow at every Close return",
 "C08-2": "missed at first -> gracefulNow at every GracefulClose return",
}
rows=[]
for d in sorted(glob.glob('/verif/seeded/*/meta.json')):
    name=os.path.basename(os.path.dirname(d))
    m=json.load(open(d))
    what=(m.get('what') or '').strip().split('. ')[0][:150]
    co=m.get('check_outcome',{})
    rc=co.get('exit')
    labels=re.findall(r'replay=/verif/replays/\w+?_(verif\w+?)_', co.get('violation_lines','') or '')
    caught = 'caught by '+', '.join(sorted(set(labels))) if rc==1 else ('INCONCLUSIVE (exit 2)' if rc==2 else 'MISSED (exit 0)')
    rows.append((name, what, caught, HIST.get(name,'caught on the first run')))
print("| seed | change (first sentence of its description) | quick check on the patched tree | history |")
print("|---|---|---|---|")
for r in rows:
    print("| %s | %s | %s | %s |"%r)
