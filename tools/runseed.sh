#!/bin/bash
# usage: runseed.sh PROP seeddir [tier] -- just runs the check against a patched scratch worktree
prop=$1; src=$2; tier=${3:-quick}
wt=/tmp/rs_$$; git -C /repo worktree add -q $wt HEAD || exit 9
git -C $wt apply $src/patch.diff || { echo "PATCH FAIL"; git -C /repo worktree remove --force $wt; exit 8; }
cd /verif; VERIF_REPO=$wt timeout 2400 ${VERIF_BIN:-./bin/verif} check $prop --tier $tier ${4:+--only $4} 2>&1 | grep -E "VIOLATION|INCONCLUSIVE|^OK|KNOWN" | cut -c1-220 | head -8
echo "rc=${PIPESTATUS[0]}"
git -C /repo worktree remove --force $wt
