#!/bin/bash
# usage: mut2.sh <check-id> <file> <old> <new> [check args]  — mutates a scratch worktree (not /repo) and runs the check on it
id=$1; f=$2; old=$3; new=$4; shift 4
wt=/tmp/mutwt_$$; git -C /repo worktree add -q $wt HEAD || exit 9
python3 - "$wt/$f" "$old" "$new" <<'PY'
import sys
f,old,new=sys.argv[1:4]
s=open(f).read()
n=s.count(old)
if n!=1: print("MUTATION: pattern count",n); sys.exit(3)
open(f,'w').write(s.replace(old,new))
PY
rc0=$?
if [ $rc0 -eq 0 ]; then
 (cd $wt && GOFLAGS=-mod=mod GOPROXY=off go build ./... ) || { echo "MUTANT DOES NOT BUILD"; rc0=4; }
fi
if [ $rc0 -eq 0 ]; then
 cd /verif; VERIF_REPO=$wt timeout 1200 ${VERIF_BIN:-/verif/bin/verif} check $id "$@" 2>&1 | grep -v "^\[" | cut -c1-300 | head -8
 echo "exit=${PIPESTATUS[0]}"
fi
cd /; git -C /repo worktree remove --force $wt
