#!/bin/bash
# usage: regress.sh <PROP>... -- re-runs the quick check of each property against every
# stored seed of that property (patched scratch worktree, VERIF_REPO) and prints
# one line per seed: caught (exit 1 with a VIOLATION line) / MISSED / other.
export GOFLAGS=-mod=mod GOPROXY=off
for prop in "$@"; do
  for d in /verif/seeded/$prop-*/; do
    n=$(basename $d)
    wt=/tmp/rg_$n; rm -rf $wt; git -C /repo worktree add -q $wt HEAD || { echo "$n WORKTREE-FAIL"; continue; }
    if ! git -C $wt apply $d/patch.diff 2>/dev/null; then echo "$n NOAPPLY"; git -C /repo worktree remove --force $wt; continue; fi
    out=$(cd /verif && VERIF_REPO=$wt timeout 2400 /verif/bin/verif check $prop --tier quick 2>&1); rc=$?
    git -C /repo worktree remove --force $wt
    v=$(echo "$out" | grep -c '^VIOLATION')
    echo "$n rc=$rc violations=$v $(echo "$out" | grep -E '^VIOLATION' | head -1 | sed 's#.*replays/##' | cut -c1-90)"
  done
done
