package main

// Runtime values of the symbolic interpreter. Pointer structure is concrete,
// scalar content is symbolic.

import (
	"fmt"
	"go/types"
	"strconv"

	"golang.org/x/tools/go/ssa"
)

type Value interface{}

// Scalars are *Node (BV of the machine width, or Bool).

// Loc is an addressable memory location: either a leaf holding a Value, or an
// aggregate (struct fields / array elements) of sub-locations.
type Loc struct {
	typ  types.Type
	v    Value
	sub  []*Loc
	agg  bool
	name string // for globals / debugging
}

// PtrVal: pointer to a location; for an element of an array selected by a
// symbolic index: (arr, idx).
type PtrVal struct {
	loc *Loc
	arr *Loc  // symbolic element pointer: the array location
	idx *Node // symbolic index (64-bit)
}

func (p PtrVal) IsNil() bool { return p.loc == nil && p.arr == nil }

type StructVal []Value
type ArrayVal []Value
type TupleVal []Value

// SliceVal: view [off, off+len) of an array location, capacity cap.
type SliceVal struct {
	arr           *Loc // nil = nil slice
	off, len, cap int
	elem          types.Type
}

// StringVal: immutable byte sequence of concrete length.
type StringVal struct {
	b   []*Node // 8-bit terms
	opq bool    // unmodelled text: comparisons on it are UNSUPPORTED
	tok *Node   // opq text that is an injective rendering of tok (comparable with another tok string)
}

type IfaceVal struct {
	t types.Type // nil = nil interface
	v Value
}

type FuncVal struct {
	fn      *ssa.Function
	env     []Value
	builtin *ssa.Builtin
	native  string // name of an engine-provided function value
}

type mapEntry struct {
	k, v    Value
	deleted bool
}

type MapObj struct {
	entries []*mapEntry
	kt, vt  types.Type
}

type MapVal struct{ m *MapObj } // m nil = nil map

type ChanObj struct {
	buf    []Value
	cap    int
	closed bool
	et     types.Type
	timer  bool // time.Timer channel: readiness is scripted
}
type ChanVal struct{ c *ChanObj }

// Opaque: a value the engine does not model (floats, results of stubbed
// formatting). Using it in a decision makes the path UNSUPPORTED.
type Opaque struct{ tag string }

// ---------- type helpers ----------

func intWidth(t types.Type) (w int, signed bool, ok bool) {
	b, isB := t.Underlying().(*types.Basic)
	if !isB {
		return 0, false, false
	}
	switch b.Kind() {
	case types.Bool, types.UntypedBool:
		return 0, false, true
	case types.Int8:
		return 8, true, true
	case types.Int16:
		return 16, true, true
	case types.Int32, types.UntypedRune:
		return 32, true, true
	case types.Int64, types.Int, types.UntypedInt:
		return 64, true, true
	case types.Uint8:
		return 8, false, true
	case types.Uint16:
		return 16, false, true
	case types.Uint32:
		return 32, false, true
	case types.Uint64, types.Uint, types.Uintptr:
		return 64, false, true
	}
	return 0, false, false
}

func isFloat(t types.Type) bool {
	b, ok := t.Underlying().(*types.Basic)
	return ok && b.Info()&(types.IsFloat|types.IsComplex) != 0
}

func isString(t types.Type) bool {
	b, ok := t.Underlying().(*types.Basic)
	return ok && b.Info()&types.IsString != 0
}

func (e *Exec) zero(t types.Type) Value {
	switch u := t.Underlying().(type) {
	case *types.Basic:
		if w, _, ok := intWidth(t); ok {
			if w == 0 {
				return e.tb.False()
			}
			return e.tb.Const(w, 0)
		}
		if isString(t) {
			return StringVal{}
		}
		if isFloat(t) {
			return Opaque{"float0"}
		}
		if u.Kind() == types.UnsafePointer {
			return PtrVal{}
		}
		if u.Kind() == types.UntypedNil {
			return PtrVal{}
		}
		panic(e.unsupported("zero of basic " + t.String()))
	case *types.Pointer:
		return PtrVal{}
	case *types.Slice:
		return SliceVal{elem: u.Elem()}
	case *types.Map:
		return MapVal{}
	case *types.Chan:
		return ChanVal{}
	case *types.Interface:
		return IfaceVal{}
	case *types.Signature:
		return FuncVal{}
	case *types.Struct:
		s := make(StructVal, u.NumFields())
		for i := range s {
			s[i] = e.zero(u.Field(i).Type())
		}
		return s
	case *types.Array:
		a := make(ArrayVal, int(u.Len()))
		if len(a) > 0 {
			z := e.zero(u.Elem())
			for i := range a {
				a[i] = z // immutable values can be shared
			}
		}
		return a
	case *types.Tuple:
		t := make(TupleVal, u.Len())
		for i := range t {
			t[i] = e.zero(u.At(i).Type())
		}
		return t
	}
	panic(e.unsupported("zero of " + t.String()))
}

func isAggregate(t types.Type) bool {
	switch t.Underlying().(type) {
	case *types.Struct, *types.Array:
		return true
	}
	return false
}

// newLoc builds a zeroed location tree for type t.
func (e *Exec) newLoc(t types.Type) *Loc {
	l := &Loc{typ: t}
	switch u := t.Underlying().(type) {
	case *types.Struct:
		l.agg = true
		l.sub = make([]*Loc, u.NumFields())
		for i := range l.sub {
			l.sub[i] = e.newLoc(u.Field(i).Type())
		}
	case *types.Array:
		l.agg = true
		n := int(u.Len())
		l.sub = make([]*Loc, n)
		if isAggregate(u.Elem()) {
			for i := range l.sub {
				l.sub[i] = e.newLoc(u.Elem())
			}
		} else if n > 0 {
			z := e.zero(u.Elem())
			locs := make([]Loc, n)
			for i := range l.sub {
				locs[i] = Loc{typ: u.Elem(), v: z}
				l.sub[i] = &locs[i]
			}
		}
	default:
		l.v = e.zero(t)
	}
	return l
}

// newArrayLoc: array of n elements of type et (backing store of a slice).
func (e *Exec) newArrayLoc(et types.Type, n int) *Loc {
	l := &Loc{typ: types.NewArray(et, int64(n)), agg: true}
	l.sub = make([]*Loc, n)
	if isAggregate(et) {
		for i := range l.sub {
			l.sub[i] = e.newLoc(et)
		}
	} else {
		z := e.zero(et)
		locs := make([]Loc, n)
		for i := range l.sub {
			locs[i] = Loc{typ: et, v: z}
			l.sub[i] = &locs[i]
		}
	}
	return l
}

func (e *Exec) loadLoc(l *Loc) Value {
	if !l.agg {
		return l.v
	}
	if _, ok := l.typ.Underlying().(*types.Struct); ok {
		s := make(StructVal, len(l.sub))
		for i, f := range l.sub {
			s[i] = e.loadLoc(f)
		}
		return s
	}
	a := make(ArrayVal, len(l.sub))
	for i, f := range l.sub {
		a[i] = e.loadLoc(f)
	}
	return a
}

func (e *Exec) storeLoc(l *Loc, v Value) {
	if !l.agg {
		l.v = v
		return
	}
	switch x := v.(type) {
	case StructVal:
		if len(x) != len(l.sub) {
			panic(e.unsupported(fmt.Sprintf("store struct arity %d into %d (%s)", len(x), len(l.sub), l.typ)))
		}
		for i, f := range l.sub {
			e.storeLoc(f, x[i])
		}
	case ArrayVal:
		if len(x) != len(l.sub) {
			panic(e.unsupported("store array arity"))
		}
		for i, f := range l.sub {
			e.storeLoc(f, x[i])
		}
	default:
		panic(e.unsupported(fmt.Sprintf("store %T into aggregate %s", v, l.typ)))
	}
}

// ---------- strings ----------

func (e *Exec) strConst(s string) StringVal {
	b := make([]*Node, len(s))
	for i := 0; i < len(s); i++ {
		b[i] = e.tb.Const(8, uint64(s[i]))
	}
	return StringVal{b: b}
}

func (s StringVal) Concrete() (string, bool) {
	if s.opq {
		return "", false
	}
	buf := make([]byte, len(s.b))
	for i, n := range s.b {
		if !n.IsConst() {
			return "", false
		}
		buf[i] = byte(n.val)
	}
	return string(buf), true
}

func (e *Exec) strEq(a, b StringVal) *Node {
	if a.opq || b.opq {
		if a.tok != nil && b.tok != nil && a.tok.w == b.tok.w {
			return e.tb.Eq(a.tok, b.tok)
		}
		// injective decimal rendering against a concrete canonical decimal
		for _, pr := range [][2]StringVal{{a, b}, {b, a}} {
			if pr[0].tok != nil && !pr[1].opq {
				if c, ok := pr[1].Concrete(); ok {
					v, err := strconv.ParseUint(c, 10, 64)
					if err != nil || strconv.FormatUint(v, 10) != c || (pr[0].tok.w < 64 && v>>uint(pr[0].tok.w) != 0) {
						return e.tb.False()
					}
					return e.tb.Eq(pr[0].tok, e.tb.Const(pr[0].tok.w, v))
				}
			}
		}
		panic(e.unsupported("comparison of unmodelled (formatted) text"))
	}
	if len(a.b) != len(b.b) {
		return e.tb.False()
	}
	r := e.tb.True()
	for i := range a.b {
		r = e.tb.BAnd(r, e.tb.Eq(a.b[i], b.b[i]))
		if r.IsFalse() {
			return r
		}
	}
	return r
}

// strLess: lexicographic a < b.
func (e *Exec) strLess(a, b StringVal) *Node {
	n := len(a.b)
	if len(b.b) < n {
		n = len(b.b)
	}
	// from the end: less_i = a[i]<b[i] || (a[i]==b[i] && less_{i+1}); base: len(a)<len(b)
	r := e.tb.Bool(len(a.b) < len(b.b))
	for i := n - 1; i >= 0; i-- {
		r = e.tb.BOr(e.tb.Cmp(OUlt, a.b[i], b.b[i]), e.tb.BAnd(e.tb.Eq(a.b[i], b.b[i]), r))
	}
	return r
}

// sliceElems returns the element locations viewed by a slice.
func (s SliceVal) locs() []*Loc {
	if s.arr == nil {
		return nil
	}
	return s.arr.sub[s.off : s.off+s.len]
}

func (e *Exec) bytesOfSlice(s SliceVal) []*Node {
	ls := s.locs()
	out := make([]*Node, len(ls))
	for i, l := range ls {
		n, ok := l.v.(*Node)
		if !ok {
			panic(e.unsupported("non-scalar byte"))
		}
		out[i] = n
	}
	return out
}

func (e *Exec) sliceFromBytes(b []*Node) SliceVal {
	bt := types.Typ[types.Uint8]
	arr := e.newArrayLoc(bt, len(b))
	for i, n := range b {
		arr.sub[i].v = n
	}
	return SliceVal{arr: arr, off: 0, len: len(b), cap: len(b), elem: bt}
}

func (e *Exec) concreteBytes(s SliceVal) ([]byte, bool) {
	ls := s.locs()
	out := make([]byte, len(ls))
	for i, l := range ls {
		n, ok := l.v.(*Node)
		if !ok || !n.IsConst() {
			return nil, false
		}
		out[i] = byte(n.val)
	}
	return out, true
}
