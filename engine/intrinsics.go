package main

// Intercepted functions: the harness vocabulary (verif*) and the environment
// stubs (sync, atomic, time, fmt, logging, ...). Every stub is part of the
// trusted base and is listed in the evidence.

import (
	"fmt"
	"go/types"
	"strings"
	"sync/atomic"
	"time"

	"golang.org/x/tools/go/ssa"
)

func (e *Exec) nextPin() (uint64, bool) {
	if e.pin == nil {
		return 0, false
	}
	i := len(e.nondet)
	var v uint64
	if i < len(e.pin) {
		v = e.pin[i]
	}
	return v, true
}

func (e *Exec) nondetScalar(kind string, w int) *Node {
	if e.inInit {
		// package initialisers run before the harness: their nondeterminism
		// (timeRef = time.Now()) is not part of the replay vector
		e.nvar++
		return e.tb.Var(fmt.Sprintf("init!%d_%s", e.nvar, kind), w)
	}
	if v, ok := e.nextPin(); ok {
		var c *Node
		if w == 0 {
			c = e.tb.Bool(v&1 == 1)
		} else {
			c = e.tb.Const(w, v)
		}
		e.nondet = append(e.nondet, NondetEntry{Name: fmt.Sprintf("n%d_%s", len(e.nondet), kind), Kind: kind, W: w, term: c, Val: c.val})
		return c
	}
	return e.fresh(kind, w)
}

// hiddenFresh: engine-only nondeterminism (clock readings, random transaction
// ids) that the native run draws from the real environment; it is not part of
// the replay vector. When pinned (translator validation) it is 0-based
// deterministic filler.
func (e *Exec) hiddenFresh(kind string, w int) *Node {
	e.nvar++
	return e.tb.Var(fmt.Sprintf("env!%d_%s", e.nvar, kind), w)
}

func (e *Exec) nondetChoice(n int) int {
	if v, ok := e.nextPin(); ok {
		k := 0
		if n > 0 {
			k = int(v % uint64(n))
		}
		c := e.tb.Const(64, uint64(k))
		e.nondet = append(e.nondet, NondetEntry{Name: fmt.Sprintf("n%d_choice", len(e.nondet)), Kind: "choice", W: 64, term: c, Val: uint64(k)})
		return k
	}
	k := e.choice(n)
	c := e.tb.Const(64, uint64(k))
	e.nondet = append(e.nondet, NondetEntry{Name: fmt.Sprintf("n%d_choice", len(e.nondet)), Kind: "choice", W: 64, term: c, Val: uint64(k)})
	return k
}

func (e *Exec) constString(v Value) string {
	s, ok := v.(StringVal)
	if !ok {
		panic(e.unsupported("expected string"))
	}
	c, ok := s.Concrete()
	if !ok {
		panic(e.unsupported("label must be a concrete string"))
	}
	return c
}

// doAssert records the obligation path ∧ ¬c. Obligations of one path are
// discharged together at the end of the path (flushAsserts): one query
// OR_i (pc_i ∧ ¬c_i); only if that is sat are they decided one by one. With a
// listed known-finding id the failure is split into "inside the region"
// (reported as KNOWN-FINDING) and "outside".
func (e *Exec) doAssert(c *Node, label, knownID string, region *Node) {
	if c.IsTrue() {
		e.nAssertOK++
		return
	}
	listed := knownID != "" && e.eng.known.Listed(knownID)
	if listed {
		in := e.tb.BAnd(region, e.tb.BNot(c))
		var v Verdict
		if in.IsTrue() {
			v = Sat // the path itself is feasible: no query needed for a concrete failure inside the region
		} else {
			v, _, _, _ = e.queryAt(len(e.pc), nil, in, false)
		}
		if v == Sat {
			e.knowns = append(e.knowns, knownID)
		} else if v == Unknown {
			e.asserts = append(e.asserts, AssertOutcome{Label: label, Verdict: Unknown, Inconcl: "known-finding region query unknown"})
		}
		c = e.tb.BOr(c, region)
		if c.IsTrue() {
			e.nAssertOK++
			return
		}
	}
	e.pending = append(e.pending, pendingAssert{c: c, label: label, pcLen: len(e.pc), nObs: len(e.obsTerms), nNondet: len(e.nondet)})
}

type pendingAssert struct {
	c       *Node
	label   string
	pcLen   int
	nObs    int
	nNondet int
}

func (e *Exec) flushAsserts() {
	if len(e.pending) == 0 {
		return
	}
	pend := e.pending
	e.pending = nil
	t := e.tb
	// batch: OR_i (pc[:k_i] ∧ ¬c_i); pcs are nested prefixes
	if len(pend) >= 1 {
		// shared prefix conjunctions P_k = pc[0] ∧ ... ∧ pc[k-1] (one DAG)
		prefix := make([]*Node, len(e.pc)+1)
		prefix[0] = t.True()
		for i, a := range e.pc {
			prefix[i+1] = t.BAnd(prefix[i], a)
		}
		disj := t.False()
		for _, p := range pend {
			disj = t.BOr(disj, t.BAnd(prefix[p.pcLen], t.BNot(p.c)))
		}
		e.nQueries++
		qtext := t.Query([]*Node{disj})
		v, _, _ := e.solver.Check(qtext, e.cfg.AssertTimeoutMs, nil)
		if v == Unsat {
			// thorough tier: z3 5.x and cvc5 must agree that the batch is unsat
			for _, cs := range e.solver.cross {
				cv, _, why := cs.Check(qtext, e.cfg.AssertTimeoutMs, nil)
				if cv == Unsat {
					atomic.AddInt64(&e.eng.crossAgree, 1)
				} else {
					atomic.AddInt64(&e.eng.crossDisagree, 1)
					e.asserts = append(e.asserts, AssertOutcome{Label: "solver-cross-check(" + cs.kind.Name + ")", Verdict: Unknown,
						Inconcl: fmt.Sprintf("z3 4.8.12 says unsat, %s says %s %s", cs.kind.Name, cv, why)})
				}
			}
			e.nAssertOK += len(pend)
			return
		}
	}
	var held []*Node // earlier assertions are assumed when deciding later ones
	for _, p := range pend {
		t0 := time.Now()
		v, vec, obs, why := e.queryAt(p.pcLen, held, t.BNot(p.c), true)
		out := AssertOutcome{Label: p.label, Verdict: v, Inconcl: why, QueryTime: time.Since(t0).Seconds()}
		switch v {
		case Unsat:
			e.nAssertOK++
		case Sat:
			out.Vector = vec
			if len(obs) > p.nObs {
				obs = obs[:p.nObs]
			}
			out.Observes = obs
			e.asserts = append(e.asserts, out)
		default:
			e.asserts = append(e.asserts, out)
		}
		held = append(held, p.c)
	}
}

func (e *Exec) query(extra *Node, wantModel bool) (Verdict, []NondetEntry, []string, string) {
	return e.queryAt(len(e.pc), nil, extra, wantModel)
}

// query checks pc ∧ extra and, on sat, returns the nondet vector and observes.
func (e *Exec) queryAt(pcLen int, held []*Node, extra *Node, wantModel bool) (Verdict, []NondetEntry, []string, string) {
	if extra.IsFalse() {
		return Unsat, nil, nil, ""
	}
	roots := append(append(append([]*Node{}, e.pc[:pcLen]...), held...), extra)
	// bind every nondet variable and observe term so get-value can name them
	var names []string
	var binds []*Node
	if wantModel {
		for _, nd := range e.nondet {
			if nd.term.op == OVar {
				names = append(names, nd.term.name)
			}
		}
		for i, o := range e.obsTerms {
			if o.IsConst() {
				continue
			}
			nv := e.tb.Var(fmt.Sprintf("ob!%d_%d", i, e.nvar), o.w)
			e.nvar++
			binds = append(binds, e.tb.Eq(nv, o))
			names = append(names, nv.name)
		}
	}
	// note: Eq(x,x) folds to true, so declare used names explicitly
	q := e.tb.Query(append(roots, binds...))
	var sb strings.Builder
	for _, n := range names {
		if !strings.Contains(q, "(declare-const "+n+" ") {
			sb.WriteString(e.tb.decls[n])
			sb.WriteByte('\n')
		}
	}
	q = sb.String() + q
	e.nQueries++
	v, vals, why := e.solver.Check(q, e.cfg.AssertTimeoutMs, names)
	if v != Sat || !wantModel {
		return v, nil, nil, why
	}
	vec := make([]NondetEntry, len(e.nondet))
	vi := 0
	for i, nd := range e.nondet {
		vec[i] = nd
		if nd.term.op == OVar {
			vec[i].Val = vals[vi]
			vi++
		} else {
			vec[i].Val = nd.term.val
		}
	}
	var obs []string
	for i, o := range e.obsTerms {
		var val uint64
		if o.IsConst() {
			val = o.val
		} else {
			val = vals[vi]
			vi++
		}
		obs = append(obs, fmt.Sprintf("%s=%d", e.obsNames[i], val))
	}
	return v, vec, obs, ""
}

func (e *Exec) sample(kind EndKind) *ValidationSample {
	var vec []NondetEntry
	var obs []string
	if e.pin != nil {
		vec = e.nondet
		for i, o := range e.obsTerms {
			if !o.IsConst() {
				return nil
			}
			obs = append(obs, fmt.Sprintf("%s=%d", e.obsNames[i], o.val))
		}
	} else {
		v, vv, oo, _ := e.query(e.tb.True(), true)
		if v != Sat {
			return nil
		}
		vec, obs = vv, oo
	}
	s := &ValidationSample{Observes: obs, End: kind.String()}
	for _, nd := range vec {
		s.Vector = append(s.Vector, nd.Val)
	}
	return s
}

func b2n(e *Exec, b bool) *Node { return e.tb.Bool(b) }

func registerIntercepts(g *Engine) {
	ic := map[string]interceptFn{}
	g.intercepts = ic
	g.natives = map[string]func(e *Exec, args []Value) Value{}

	// ----- harness vocabulary -----
	ic["verif:verifU8"] = func(e *Exec, fn *ssa.Function, a []Value) Value { return e.nondetScalar("u8", 8) }
	ic["verif:verifU16"] = func(e *Exec, fn *ssa.Function, a []Value) Value { return e.nondetScalar("u16", 16) }
	ic["verif:verifU32"] = func(e *Exec, fn *ssa.Function, a []Value) Value { return e.nondetScalar("u32", 32) }
	ic["verif:verifU64"] = func(e *Exec, fn *ssa.Function, a []Value) Value { return e.nondetScalar("u64", 64) }
	ic["verif:verifI64"] = func(e *Exec, fn *ssa.Function, a []Value) Value { return e.nondetScalar("u64", 64) }
	ic["verif:verifBool"] = func(e *Exec, fn *ssa.Function, a []Value) Value { return e.nondetScalar("bool", 0) }
	ic["verif:verifInt"] = func(e *Exec, fn *ssa.Function, a []Value) Value {
		lo, hi := e.scalar(a[0]), e.scalar(a[1])
		x := e.nondetScalar("u64", 64)
		c := e.tb.BAnd(e.tb.Cmp(OSle, lo, x), e.tb.Cmp(OSle, x, hi))
		if c.IsFalse() || (e.pin != nil && !c.IsTrue()) {
			panic(pathEnd{EndInfeasible, "verifInt range"})
		}
		e.assume(c)
		return x
	}
	ic["verif:verifChoice"] = func(e *Exec, fn *ssa.Function, a []Value) Value {
		n := e.concreteInt(a[0])
		return e.tb.Const(64, uint64(e.nondetChoice(n)))
	}
	ic["verif:verifBytes"] = func(e *Exec, fn *ssa.Function, a []Value) Value {
		n := e.concreteInt(a[0])
		b := make([]*Node, n)
		for i := range b {
			b[i] = e.nondetScalar("u8", 8)
		}
		return e.sliceFromBytes(b)
	}
	ic["verif:verifString"] = func(e *Exec, fn *ssa.Function, a []Value) Value {
		n := e.concreteInt(a[0])
		b := make([]*Node, n)
		for i := range b {
			b[i] = e.nondetScalar("u8", 8)
		}
		return StringVal{b: b}
	}
	ic["verif:verifAssume"] = func(e *Exec, fn *ssa.Function, a []Value) Value {
		c := e.scalar(a[0])
		if c.IsFalse() {
			panic(pathEnd{EndInfeasible, "assume(false)"})
		}
		if c.IsTrue() {
			return nil
		}
		if e.feasible(c) == Unsat {
			panic(pathEnd{EndInfeasible, "assumption infeasible"})
		}
		e.assume(c)
		return nil
	}
	ic["verif:verifAssert"] = func(e *Exec, fn *ssa.Function, a []Value) Value {
		e.doAssert(e.scalar(a[0]), e.constString(a[1]), "", nil)
		return nil
	}
	ic["verif:verifAssertKnown"] = func(e *Exec, fn *ssa.Function, a []Value) Value {
		// verifAssertKnown(cond, label, knownID, region)
		e.doAssert(e.scalar(a[0]), e.constString(a[1]), e.constString(a[2]), e.scalar(a[3]))
		return nil
	}
	ic["verif:verifReach"] = func(e *Exec, fn *ssa.Function, a []Value) Value {
		e.reached[e.constString(a[0])] = true
		return nil
	}
	ic["verif:verifObserve"] = func(e *Exec, fn *ssa.Function, a []Value) Value {
		e.obsNames = append(e.obsNames, e.constString(a[0]))
		n := e.scalar(a[1])
		e.obsTerms = append(e.obsTerms, n)
		return nil
	}
	ic["verif:verifHalt"] = func(e *Exec, fn *ssa.Function, a []Value) Value {
		panic(pathEnd{EndHalt, ""})
	}
	ic["verif:verifAnd"] = func(e *Exec, fn *ssa.Function, a []Value) Value { return e.tb.BAnd(e.scalar(a[0]), e.scalar(a[1])) }
	ic["verif:verifOr"] = func(e *Exec, fn *ssa.Function, a []Value) Value { return e.tb.BOr(e.scalar(a[0]), e.scalar(a[1])) }
	ic["verif:verifNot"] = func(e *Exec, fn *ssa.Function, a []Value) Value { return e.tb.BNot(e.scalar(a[0])) }
	ic["verif:verifImplies"] = func(e *Exec, fn *ssa.Function, a []Value) Value {
		return e.tb.Implies(e.scalar(a[0]), e.scalar(a[1]))
	}
	ic["verif:verifIteU64"] = func(e *Exec, fn *ssa.Function, a []Value) Value {
		return e.tb.Ite(e.scalar(a[0]), e.scalar(a[1]), e.scalar(a[2]))
	}
	ic["verif:verifIteU32"] = ic["verif:verifIteU64"]
	ic["verif:verifIteInt"] = ic["verif:verifIteU64"]
	ic["verif:verifIteBool"] = ic["verif:verifIteU64"]
	ic["verif:verifConcrete"] = func(e *Exec, fn *ssa.Function, a []Value) Value {
		n := e.scalar(a[0])
		return e.tb.Const(n.w, e.concretize(n))
	}
	ic["verif:verifSymbolic"] = func(e *Exec, fn *ssa.Function, a []Value) Value { return e.tb.Bool(e.pin == nil) }
	ic["verif:verifStrEq"] = func(e *Exec, fn *ssa.Function, a []Value) Value {
		return e.strEq(a[0].(StringVal), a[1].(StringVal))
	}
	ic["verif:verifBytesEq"] = func(e *Exec, fn *ssa.Function, a []Value) Value {
		x, y := a[0].(SliceVal), a[1].(SliceVal)
		return e.strEq(StringVal{b: e.bytesOfSlice(x)}, StringVal{b: e.bytesOfSlice(y)})
	}
	ic["verif:verifTier"] = func(e *Exec, fn *ssa.Function, a []Value) Value { return e.tb.Const(64, uint64(e.eng.tier)) }
	// verifDecimal(maxDigits, max): a symbolic number given by its decimal
	// digits (digit count case-split); %d prints exactly these digits, so
	// formatting needs no division and parsing back is Horner arithmetic.
	ic["verif:verifDecimal"] = func(e *Exec, fn *ssa.Function, a []Value) Value {
		t := e.tb
		minDigits := e.concreteInt(a[0])
		maxDigits := e.concreteInt(a[1])
		maxVal := e.scalar(a[2])
		n := minDigits + e.nondetChoice(maxDigits-minDigits+1)
		digs := make([]*Node, n)
		val := t.Const(64, 0)
		for i := 0; i < n; i++ {
			d := e.nondetScalar("u8", 8)
			c := t.Cmp(OUle, d, t.Const(8, 9))
			if i == 0 && n > 1 {
				c = t.BAnd(c, t.Cmp(OUle, t.Const(8, 1), d))
			}
			if c.IsFalse() {
				panic(pathEnd{EndInfeasible, "verifDecimal digit"})
			}
			e.assume(c)
			digs[i] = t.Bin(OAdd, d, t.Const(8, '0'))
			// the same operation sequence a Horner digit parser performs on the
			// rendered character (val*10 + int(rune-'0')), so that the parsed
			// value is the identical term and no adder-reassociation proof is needed
			dv := t.SExt(t.Bin(OSub, t.ZExt(digs[i], 32), t.Const(32, '0')), 64)
			val = t.Bin(OAdd, t.Bin(OMul, val, t.Const(64, 10)), dv)
		}
		c := t.Cmp(OUle, val, maxVal)
		if c.IsFalse() {
			panic(pathEnd{EndInfeasible, "verifDecimal range"})
		}
		e.assume(c)
		if e.decimals == nil {
			e.decimals = map[*Node][]*Node{}
		}
		if !val.IsConst() {
			e.decimals[val] = digs
			e.decimals[t.Extract(val, 31, 0)] = digs
			e.decimals[t.Extract(val, 15, 0)] = digs
		}
		return val
	}
	ic["verif:verifYield"] = func(e *Exec, fn *ssa.Function, a []Value) Value {
		e.syncPoint("verifYield")
		return nil
	}
	// verifStepBegin: the harness has finished building its pre-state; the
	// state-field audit (audit.go) forgets what the set-up code touched.
	ic["verif:verifStepBegin"] = func(e *Exec, fn *ssa.Function, a []Value) Value {
		e.fieldUses = nil
		return nil
	}
	// verifKnownDeadlock(id): from here on, a deadlock of this path is the listed
	// known finding id (if it is listed as open) instead of a new violation.
	ic["verif:verifKnownDeadlock"] = func(e *Exec, fn *ssa.Function, a []Value) Value {
		e.knownDeadlockID = e.constString(a[0])
		return nil
	}
	ic["verif:verifSettle"] = func(e *Exec, fn *ssa.Function, a []Value) Value { return nil }
	// verifQuiesce: (explore mode) the calling thread waits until no other
	// thread can run any more; returns how many other threads have not
	// finished (blocked for ever = leaked). The goroutine census of C08.
	// verifLetOthersRun: like verifQuiesce without the census (no observation):
	// the caller waits until no other thread can run any more.
	ic["verif:verifLetOthersRun"] = func(e *Exec, fn *ssa.Function, a []Value) Value {
		if !e.exploring() || e.curThread == nil {
			if e.curCoro == nil {
				e.schedule()
			}
			return nil
		}
		me := e.curThread
		e.blockUntil(func() bool {
			for _, t := range e.threads {
				if t == me {
					continue
				}
				// a thread that itself waits for everybody else (the census of
				// the main thread, another late event) does not keep this one
				// waiting: the late event goes first, the census after it
				if t.status == tBlocked && (t.what == "verifQuiesce" || t.what == "verifLetOthersRun") {
					continue
				}
				if t.status == tRunnable || (t.status == tBlocked && t.ready != nil && t.ready()) {
					return false
				}
			}
			return true
		}, "verifLetOthersRun")
		return nil
	}
	ic["verif:verifQuiesce"] = func(e *Exec, fn *ssa.Function, a []Value) Value {
		if !e.exploring() || e.curThread == nil {
			return e.tb.Const(64, 0)
		}
		me := e.curThread
		quiet := func() bool {
			late := false
			for _, t := range e.threads {
				if t == me {
					continue
				}
				if t.status == tBlocked && t.what == "verifLetOthersRun" {
					// a late event of the harness: it happens once the rest is
					// quiet, and before the census
					late = true
					continue
				}
				if t.status == tRunnable || (t.status == tBlocked && t.ready != nil && t.ready()) {
					return false
				}
			}
			return !late
		}
		e.blockUntil(quiet, "verifQuiesce")
		n := 0
		for _, t := range e.threads {
			if t != me && t.status != tDone {
				n++
				e.obsNames = append(e.obsNames, "leaked "+t.name+" blocked at "+t.what)
				e.obsTerms = append(e.obsTerms, e.tb.Const(64, 1))
			}
		}
		return e.tb.Const(64, uint64(n))
	}
	// verifRunGoroutines: let the spawned coroutines run until all of them are
	// parked or finished (see coro.go).
	ic["verif:verifRunGoroutines"] = func(e *Exec, fn *ssa.Function, a []Value) Value {
		if e.curCoro == nil {
			e.schedule()
		}
		return nil
	}

	// ----- sync -----
	nop := func(e *Exec, fn *ssa.Function, a []Value) Value { return nil }
	for _, n := range []string{
		"(*sync.Cond).Broadcast", "(*sync.Cond).Signal", "runtime.KeepAlive", "runtime.SetFinalizer",
		"internal/race.Acquire", "internal/race.Release", "internal/race.ReleaseMerge", "internal/race.Disable", "internal/race.Enable",
		"internal/race.Read", "internal/race.Write", "internal/race.ReadRange", "internal/race.WriteRange"} {
		ic[n] = nop
	}
	// a spin-wait (Gosched in a retry loop) waits for another goroutine: in the
	// sequential model that is a blocked operation
	ic["runtime.Gosched"] = func(e *Exec, fn *ssa.Function, a []Value) Value {
		if e.exploring() && e.curThread != nil {
			e.threadYield(yieldGosched, nil, "Gosched")
			return nil
		}
		if e.yield() {
			return nil // somebody else ran: the caller's retry loop re-checks
		}
		panic(pathEnd{EndDeadlock, "spin-wait (runtime.Gosched)" + e.where()})
	}
	// mutexes: no-ops in the sequential modes; real blocking semantics when
	// schedules are explored
	lock := func(e *Exec, fn *ssa.Function, a []Value) Value {
		if !e.exploring() || e.curThread == nil {
			return nil
		}
		e.syncPoint("Lock")
		m := e.mutexOf(a[0])
		e.blockUntil(func() bool { return !m.held && m.readers == 0 }, "Mutex.Lock")
		m.held = true
		return nil
	}
	unlock := func(e *Exec, fn *ssa.Function, a []Value) Value {
		if !e.exploring() || e.curThread == nil {
			return nil
		}
		m := e.mutexOf(a[0])
		if !m.held {
			panic(e.panicEnd("sync: unlock of unlocked mutex"))
		}
		m.held = false
		e.syncPoint("after Unlock")
		return nil
	}
	ic["(*sync.Mutex).Lock"], ic["(*sync.RWMutex).Lock"] = lock, lock
	ic["(*sync.Mutex).Unlock"], ic["(*sync.RWMutex).Unlock"] = unlock, unlock
	ic["(*sync.RWMutex).RLock"] = func(e *Exec, fn *ssa.Function, a []Value) Value {
		if !e.exploring() || e.curThread == nil {
			return nil
		}
		e.syncPoint("RLock")
		m := e.mutexOf(a[0])
		e.blockUntil(func() bool { return !m.held }, "RWMutex.RLock")
		m.readers++
		return nil
	}
	ic["(*sync.RWMutex).RUnlock"] = func(e *Exec, fn *ssa.Function, a []Value) Value {
		if !e.exploring() || e.curThread == nil {
			return nil
		}
		m := e.mutexOf(a[0])
		m.readers--
		return nil
	}
	ic["(*sync.Mutex).TryLock"] = func(e *Exec, fn *ssa.Function, a []Value) Value {
		if !e.exploring() || e.curThread == nil {
			return e.tb.True()
		}
		e.syncPoint("TryLock")
		m := e.mutexOf(a[0])
		if m.held || m.readers > 0 {
			return e.tb.False()
		}
		m.held = true
		return e.tb.True()
	}
	// WaitGroup: a counter; Wait blocks (yields) until it is zero. Under the
	// "skip" goroutine policy the counted goroutines never run, so Wait returns.
	wgCount := func(e *Exec, p Value) (*Loc, int) {
		l := e.derefLoc(p.(PtrVal))
		n, _ := e.hidden[l].(int)
		return l, n
	}
	ic["(*sync.WaitGroup).Add"] = func(e *Exec, fn *ssa.Function, a []Value) Value {
		l, n := wgCount(e, a[0])
		e.hidden[l] = n + e.concreteInt(a[1])
		return nil
	}
	ic["(*sync.WaitGroup).Done"] = func(e *Exec, fn *ssa.Function, a []Value) Value {
		l, n := wgCount(e, a[0])
		e.hidden[l] = n - 1
		return nil
	}
	ic["(*sync.WaitGroup).Wait"] = func(e *Exec, fn *ssa.Function, a []Value) Value {
		if e.exploring() && e.curThread != nil {
			e.syncPoint("WaitGroup.Wait")
			l, _ := wgCount(e, a[0])
			e.blockUntil(func() bool { n, _ := e.hidden[l].(int); return n <= 0 }, "WaitGroup.Wait")
			return nil
		}
		if e.cfg.GoPolicy != "queue" {
			return nil
		}
		for {
			_, n := wgCount(e, a[0])
			if n <= 0 {
				return nil
			}
			if !e.yield() {
				panic(pathEnd{EndDeadlock, "WaitGroup.Wait would block" + e.where()})
			}
		}
	}
	ic["(*sync.WaitGroup).Go"] = func(e *Exec, fn *ssa.Function, a []Value) Value {
		return e.callFuncVal(a[1].(FuncVal), nil, nil)
	}
	ic["(*sync.Once).Do"] = func(e *Exec, fn *ssa.Function, a []Value) Value {
		l := e.derefLoc(a[0].(PtrVal))
		e.syncPoint("Once.Do")
		if st, seen := e.hidden[l]; seen {
			if e.exploring() && e.curThread != nil {
				// another thread is inside f: Do returns only when f has returned
				e.blockUntil(func() bool { return e.hidden[l] == "done" }, "Once.Do")
			}
			_ = st
			return nil
		}
		e.hidden[l] = "running"
		e.callFuncVal(a[1].(FuncVal), nil, e.curFrame)
		e.hidden[l] = "done"
		return nil
	}
	// sync.Pool: a free list (Put stores, Get returns a stored object or New())
	ic["(*sync.Pool).Get"] = func(e *Exec, fn *ssa.Function, a []Value) Value {
		l := e.derefLoc(a[0].(PtrVal))
		if fl, ok := e.hidden[l].(TupleVal); ok && len(fl) > 0 {
			v := fl[len(fl)-1]
			e.hidden[l] = fl[:len(fl)-1]
			return v
		}
		st := l.typ.Underlying().(*types.Struct)
		for i := 0; i < st.NumFields(); i++ {
			if st.Field(i).Name() == "New" {
				fv := l.sub[i].v.(FuncVal)
				if fv.fn == nil {
					return IfaceVal{}
				}
				return e.callFuncVal(fv, nil, nil)
			}
		}
		return IfaceVal{}
	}
	ic["(*sync.Pool).Put"] = func(e *Exec, fn *ssa.Function, a []Value) Value {
		l := e.derefLoc(a[0].(PtrVal))
		fl, _ := e.hidden[l].(TupleVal)
		e.hidden[l] = append(fl, a[1])
		return nil
	}

	// sync.Map: sequential map model (hidden entry list per object)
	smap := func(e *Exec, p Value) *MapObj {
		l := e.derefLoc(p.(PtrVal))
		if m, ok := e.hidden[l]; ok {
			return m.(MapVal).m
		}
		m := &MapObj{}
		e.hidden[l] = MapVal{m}
		return m
	}
	ic["(*sync.Map).Load"] = func(e *Exec, fn *ssa.Function, a []Value) Value {
		if en := e.mapFind(smap(e, a[0]), a[1]); en != nil {
			return TupleVal{en.v, e.tb.True()}
		}
		return TupleVal{IfaceVal{}, e.tb.False()}
	}
	ic["(*sync.Map).Store"] = func(e *Exec, fn *ssa.Function, a []Value) Value {
		e.mapUpdate(MapVal{smap(e, a[0])}, a[1], a[2])
		return nil
	}
	ic["(*sync.Map).LoadOrStore"] = func(e *Exec, fn *ssa.Function, a []Value) Value {
		m := smap(e, a[0])
		if en := e.mapFind(m, a[1]); en != nil {
			return TupleVal{en.v, e.tb.True()}
		}
		m.entries = append(m.entries, &mapEntry{k: a[1], v: a[2]})
		return TupleVal{a[2], e.tb.False()}
	}
	ic["(*sync.Map).LoadAndDelete"] = func(e *Exec, fn *ssa.Function, a []Value) Value {
		if en := e.mapFind(smap(e, a[0]), a[1]); en != nil {
			en.deleted = true
			return TupleVal{en.v, e.tb.True()}
		}
		return TupleVal{IfaceVal{}, e.tb.False()}
	}
	ic["(*sync.Map).Delete"] = func(e *Exec, fn *ssa.Function, a []Value) Value {
		e.mapDelete(MapVal{smap(e, a[0])}, a[1])
		return nil
	}
	ic["(*sync.Map).Range"] = func(e *Exec, fn *ssa.Function, a []Value) Value {
		m := smap(e, a[0])
		for _, en := range append([]*mapEntry{}, m.entries...) {
			if en.deleted {
				continue
			}
			r := e.callFuncVal(a[1].(FuncVal), []Value{en.k, en.v}, e.curFrame)
			if !e.branch(e.scalar(r)) {
				break
			}
		}
		return nil
	}
	ic["(*sync.Map).Clear"] = func(e *Exec, fn *ssa.Function, a []Value) Value {
		smap(e, a[0]).entries = nil
		return nil
	}

	// ----- sync/atomic -----
	atomicLoad := func(e *Exec, fn *ssa.Function, a []Value) Value {
		e.syncPoint("atomic load")
		return e.load(a[0].(PtrVal))
	}
	atomicStore := func(e *Exec, fn *ssa.Function, a []Value) Value {
		e.syncPoint("atomic store")
		e.store(a[0].(PtrVal), a[1])
		return nil
	}
	atomicAdd := func(e *Exec, fn *ssa.Function, a []Value) Value {
		e.syncPoint("atomic add")
		p := a[0].(PtrVal)
		n := e.tb.Bin(OAdd, e.scalar(e.load(p)), e.scalar(a[1]))
		e.store(p, n)
		return n
	}
	atomicSwap := func(e *Exec, fn *ssa.Function, a []Value) Value {
		e.syncPoint("atomic swap")
		p := a[0].(PtrVal)
		old := e.load(p)
		e.store(p, a[1])
		return old
	}
	atomicCAS := func(e *Exec, fn *ssa.Function, a []Value) Value {
		e.syncPoint("atomic cas")
		p := a[0].(PtrVal)
		old := e.load(p)
		if e.branch(e.valueEq(old, a[1])) {
			e.store(p, a[2])
			return e.tb.True()
		}
		return e.tb.False()
	}
	atomicAndOr := func(or bool) interceptFn {
		return func(e *Exec, fn *ssa.Function, a []Value) Value {
			p := a[0].(PtrVal)
			old := e.scalar(e.load(p))
			if or {
				e.store(p, e.tb.Bin(OOr, old, e.scalar(a[1])))
			} else {
				e.store(p, e.tb.Bin(OAnd, old, e.scalar(a[1])))
			}
			return old
		}
	}
	for _, t := range []string{"Int32", "Int64", "Uint32", "Uint64", "Uintptr", "Pointer"} {
		ic["sync/atomic.Load"+t] = atomicLoad
		ic["sync/atomic.Store"+t] = atomicStore
		ic["sync/atomic.Swap"+t] = atomicSwap
		ic["sync/atomic.CompareAndSwap"+t] = atomicCAS
		if t != "Pointer" {
			ic["sync/atomic.Add"+t] = atomicAdd
			ic["sync/atomic.And"+t] = atomicAndOr(false)
			ic["sync/atomic.Or"+t] = atomicAndOr(true)
		}
	}
	ic["(*sync/atomic.Value).Load"] = func(e *Exec, fn *ssa.Function, a []Value) Value {
		l := e.derefLoc(a[0].(PtrVal))
		if v, ok := e.hidden[l]; ok {
			return v
		}
		return IfaceVal{}
	}
	ic["(*sync/atomic.Value).Store"] = func(e *Exec, fn *ssa.Function, a []Value) Value {
		l := e.derefLoc(a[0].(PtrVal))
		if a[1].(IfaceVal).t == nil {
			panic(e.panicEnd("sync/atomic: store of nil value into Value"))
		}
		e.hidden[l] = a[1]
		return nil
	}
	ic["(*sync/atomic.Value).Swap"] = func(e *Exec, fn *ssa.Function, a []Value) Value {
		l := e.derefLoc(a[0].(PtrVal))
		old, ok := e.hidden[l]
		e.hidden[l] = a[1]
		if !ok {
			return IfaceVal{}
		}
		return old
	}
	ic["(*sync/atomic.Value).CompareAndSwap"] = func(e *Exec, fn *ssa.Function, a []Value) Value {
		l := e.derefLoc(a[0].(PtrVal))
		old, ok := e.hidden[l]
		if !ok {
			old = IfaceVal{}
		}
		if e.branch(e.valueEq(old, a[1])) {
			e.hidden[l] = a[2]
			return e.tb.True()
		}
		return e.tb.False()
	}

	// ----- time -----
	ic["time.Now"] = func(e *Exec, fn *ssa.Function, a []Value) Value {
		// Time{wall: hasMonotonic, ext: monotonic reading, loc: nil}; the real
		// Time methods run on it. Readings are non-decreasing along a path.
		t := e.tb
		var ext *Node
		if e.inInit {
			// package initialisation (timeRef): only differences of readings
			// matter, so the origin of the monotonic clock is fixed; readings
			// taken by lazily run initialisers do not disturb the harness clock
			return StructVal{t.Const(64, 1<<63), t.Const(64, 1<<40), PtrVal{}}
		}
		if e.lastNow != nil {
			// successive readings within one step: previous + d, 0 <= d < 2^20 ns
			// (about 1 ms); keeping the reading a sum makes differences of
			// readings small sums that interval reasoning decides
			d := e.hiddenFresh("dt", 20)
			ext = t.mk(Node{op: OAdd, w: 64, args: []*Node{e.lastNow, t.ZExt(d, 64)}})
		} else {
			ext = e.hiddenFresh("now", 64)
			// the process has been running for at least 1 ns and at most ~36 years
			e.assume(t.BAnd(t.Cmp(OUle, t.Const(64, 1<<40+1), ext), t.Cmp(OUle, ext, t.Const(64, 1<<60))))
		}
		e.lastNow = ext
		return StructVal{t.Const(64, 1<<63), ext, PtrVal{}}
	}
	// verifAdvanceClock(d): time passes between two harness steps; the next
	// reading is at least d (a concrete duration) later than the last one.
	ic["verif:verifAdvanceClock"] = func(e *Exec, fn *ssa.Function, a []Value) Value {
		d := e.scalar(a[0])
		if !d.IsConst() {
			panic(e.unsupported("verifAdvanceClock needs a concrete duration"))
		}
		if e.lastNow == nil {
			ic["time.Now"](e, fn, nil)
		}
		t := e.tb
		e.lastNow = t.mk(Node{op: OAdd, w: 64, args: []*Node{e.lastNow, t.Const(64, d.val)}})
		return nil
	}
	ic["time.runtimeNano"] = func(e *Exec, fn *ssa.Function, a []Value) Value {
		tv := ic["time.Now"](e, fn, nil).(StructVal)
		return tv[1]
	}
	// Monotonic-clock arithmetic without the saturation branches: readings lie
	// in [2^40, 2^61 + small], so differences and sums cannot overflow. The
	// wall-clock half of Time is not modelled (wall = hasMonotonic only).
	ic["time.subMono"] = func(e *Exec, fn *ssa.Function, a []Value) Value {
		return e.tb.Bin(OSub, e.scalar(a[0]), e.scalar(a[1]))
	}
	isMono := func(e *Exec, tv StructVal) bool {
		w := e.scalar(tv[0])
		return w.IsConst() && w.val == 1<<63
	}
	isZeroTime := func(e *Exec, tv StructVal) bool {
		w, x := e.scalar(tv[0]), e.scalar(tv[1])
		return w.IsConst() && x.IsConst() && w.val == 0 && x.val == 0
	}
	ic["(time.Time).Add"] = func(e *Exec, fn *ssa.Function, a []Value) Value {
		tv := a[0].(StructVal)
		if isMono(e, tv) {
			return StructVal{tv[0], e.tb.Bin(OAdd, e.scalar(tv[1]), e.scalar(a[1])), tv[2]}
		}
		return e.passthrough(fn, a)
	}
	// time.Since on the zero Time (never received): saturates to maxDuration
	// exactly as Time.Sub does for year-1 instants; avoids a 64-bit x 10^9.
	ic["time.Since"] = func(e *Exec, fn *ssa.Function, a []Value) Value {
		tv := a[0].(StructVal)
		if isZeroTime(e, tv) {
			return e.tb.Const(64, uint64(1<<63-1))
		}
		if isMono(e, tv) {
			now := ic["time.Now"](e, fn, nil).(StructVal)
			return e.tb.Bin(OSub, e.scalar(now[1]), e.scalar(tv[1]))
		}
		return e.passthrough(fn, a)
	}
	// time.Until(t) = t - now on monotonic readings (the real fast path subtracts
	// runtimeNano()-startNano, which does not match the readings stored by the
	// time.Now model: without this intercept Until was off by the clock origin)
	ic["time.Until"] = func(e *Exec, fn *ssa.Function, a []Value) Value {
		tv := a[0].(StructVal)
		if isZeroTime(e, tv) {
			return e.tb.Const(64, uint64(1)<<63) // minDuration
		}
		if isMono(e, tv) {
			now := ic["time.Now"](e, fn, nil).(StructVal)
			return e.tb.Bin(OSub, e.scalar(tv[1]), e.scalar(now[1]))
		}
		return e.passthrough(fn, a)
	}
	ic["(time.Time).Sub"] = func(e *Exec, fn *ssa.Function, a []Value) Value {
		t1, t2 := a[0].(StructVal), a[1].(StructVal)
		if isMono(e, t1) && isMono(e, t2) {
			return e.tb.Bin(OSub, e.scalar(t1[1]), e.scalar(t2[1]))
		}
		if isMono(e, t1) && isZeroTime(e, t2) {
			return e.tb.Const(64, uint64(1<<63-1))
		}
		return e.passthrough(fn, a)
	}

	// timers: a timer channel is "ready" for the next select a scripted number
	// of times (verifTimerTicks); AfterFunc callbacks never fire on their own.
	newTimer := func(e *Exec, fn *ssa.Function) (Value, *Loc) {
		tt := fn.Signature.Results().At(0).Type().(*types.Pointer).Elem()
		l := e.newLoc(tt)
		ch := &ChanObj{cap: 1, et: e.namedType("time", "Time"), timer: true}
		l.sub[0].v = ChanVal{ch}
		return PtrVal{loc: l}, l
	}
	ic["time.NewTimer"] = func(e *Exec, fn *ssa.Function, a []Value) Value {
		v, _ := newTimer(e, fn)
		return v
	}
	// a ticker is a timer channel that can be ready repeatedly (the same
	// scripted budget of ticks); Stop/Reset have no observable effect here
	ic["time.NewTicker"] = func(e *Exec, fn *ssa.Function, a []Value) Value {
		v, _ := newTimer(e, fn)
		return v
	}
	ic["(*time.Ticker).Stop"] = func(e *Exec, fn *ssa.Function, a []Value) Value { return nil }
	ic["(*time.Ticker).Reset"] = func(e *Exec, fn *ssa.Function, a []Value) Value { return nil }
	ic["time.AfterFunc"] = func(e *Exec, fn *ssa.Function, a []Value) Value {
		v, l := newTimer(e, fn)
		e.afterFuncs = append(e.afterFuncs, afterFunc{l, a[1].(FuncVal), true})
		return v
	}
	// Stop/Reset of an AfterFunc timer disarm/re-arm its callback (and report
	// whether it was armed, as the real ones do); channel timers keep the
	// simple model (Stop reports "not yet fired").
	afterOf := func(e *Exec, p Value) *afterFunc {
		pv, ok := p.(PtrVal)
		if !ok || pv.loc == nil {
			return nil
		}
		for i := range e.afterFuncs {
			if e.afterFuncs[i].timer == pv.loc {
				return &e.afterFuncs[i]
			}
		}
		return nil
	}
	ic["(*time.Timer).Stop"] = func(e *Exec, fn *ssa.Function, a []Value) Value {
		if af := afterOf(e, a[0]); af != nil {
			was := af.active
			af.active = false
			return e.tb.Bool(was)
		}
		return e.tb.True()
	}
	ic["(*time.Timer).Reset"] = func(e *Exec, fn *ssa.Function, a []Value) Value {
		if af := afterOf(e, a[0]); af != nil {
			was := af.active
			af.active = true
			return e.tb.Bool(was)
		}
		return e.tb.True()
	}
	ic["verif:verifTimerTicks"] = func(e *Exec, fn *ssa.Function, a []Value) Value {
		e.timerTicks = e.concreteInt(a[0])
		return nil
	}
	// verifRunUntilBlocked(f): run f; a blocking operation with nothing ready
	// returns control to the harness (the goroutine would park there).
	ic["verif:verifRunUntilBlocked"] = func(e *Exec, fn *ssa.Function, a []Value) (ret Value) {
		saved, depth := e.curFrame, e.depth
		defer func() {
			if r := recover(); r != nil {
				if pe, ok := r.(pathEnd); ok && pe.kind == EndDeadlock {
					e.curFrame, e.depth = saved, depth
					ret = nil
					return
				}
				panic(r)
			}
		}()
		e.callFuncVal(a[0].(FuncVal), nil, e.curFrame)
		return nil
	}
	// verifFireAfterFuncs: run the callbacks registered with time.AfterFunc (expiry).
	ic["verif:verifFireAfterFuncs"] = func(e *Exec, fn *ssa.Function, a []Value) Value {
		n := 0
		for i := 0; i < len(e.afterFuncs); i++ { // callbacks may register further timers
			if !e.afterFuncs[i].active {
				continue
			}
			e.afterFuncs[i].active = false
			f := e.afterFuncs[i].fn
			e.callFuncVal(f, nil, e.curFrame)
			n++
		}
		return e.tb.Const(64, uint64(n))
	}

	// ----- pion/stun crypto: contracts instead of HMAC-SHA1 / random ids -----
	ic["github.com/pion/stun/v3.newHMAC"] = func(e *Exec, fn *ssa.Function, a []Value) Value {
		// MAC contract: the tag is an injective function of the key (so
		// valid(k1) and valid(k2) imply k1 = k2); message content is not bound.
		key := e.bytesOfSlice(a[0].(SliceVal))
		out := make([]*Node, 20)
		for i := range out {
			out[i] = e.tb.Const(8, 0)
		}
		if len(key) <= 19 {
			out[0] = e.tb.Const(8, uint64(len(key)))
			copy(out[1:], key)
		} else {
			kb, ok := e.concreteBytes(a[0].(SliceVal))
			if !ok {
				panic(e.unsupported("MAC key longer than 19 bytes must be concrete"))
			}
			h := sha1sum(kb)
			out[0] = e.tb.Const(8, 0xFE)
			for i := 0; i < 19; i++ {
				out[1+i] = e.tb.Const(8, uint64(h[i]))
			}
		}
		return e.sliceFromBytes(out)
	}
	txid := func(e *Exec, l *Loc) {
		// one 96-bit variable per id; 96-bit random ids: freshly drawn ids are
		// pairwise distinct (one disequality each)
		id := e.hiddenFresh("txid", 96)
		for i := 0; i < 12; i++ {
			l.sub[i].v = e.tb.Extract(id, 8*(11-i)+7, 8*(11-i))
		}
		for _, prev := range e.txids {
			e.assume(e.tb.BNot(e.tb.Eq(id, prev)))
		}
		e.txids = append(e.txids, id)
	}
	ic["(*github.com/pion/stun/v3.Message).NewTransactionID"] = func(e *Exec, fn *ssa.Function, a []Value) Value {
		m := e.derefLoc(a[0].(PtrVal))
		st := m.typ.Underlying().(*types.Struct)
		for i := 0; i < st.NumFields(); i++ {
			if st.Field(i).Name() == "TransactionID" {
				txid(e, m.sub[i])
			}
		}
		w := e.eng.prog.LookupMethod(types.NewPointer(m.typ), nil, "WriteTransactionID")
		e.call(w, []Value{a[0]}, nil, e.curFrame)
		return IfaceVal{}
	}
	ic["github.com/pion/stun/v3.NewTransactionID"] = func(e *Exec, fn *ssa.Function, a []Value) Value {
		l := e.newLoc(fn.Signature.Results().At(0).Type())
		txid(e, l)
		return e.loadLoc(l)
	}

	// † taskloop.Run: C10's contract, assumed: ErrClosed when the loop is
	// closed, ctx.Err() when the context is done, else the task runs
	// synchronously to completion.
	ic["(*github.com/pion/ice/v4/internal/taskloop.Loop).Run"] = func(e *Exec, fn *ssa.Function, a []Value) Value {
		if e.exploring() {
			return e.passthrough(fn, a) // schedules are explored on the real loop
		}
		l := e.derefLoc(a[0].(PtrVal))
		st := l.typ.Underlying().(*types.Struct)
		var done ChanVal
		for i := 0; i < st.NumFields(); i++ {
			if st.Field(i).Name() == "done" {
				done = l.sub[i].v.(ChanVal)
			}
		}
		errClosed := func() Value {
			g := e.eng.pkgs["github.com/pion/ice/v4/internal/taskloop"].Members["ErrClosed"].(*ssa.Global)
			return e.loadLoc(e.globalLoc(g))
		}
		if done.c != nil && done.c.closed {
			return errClosed()
		}
		ctx := a[1].(IfaceVal)
		if ctx.t == nil {
			panic(e.panicEnd("nil context"))
		}
		dm := e.eng.prog.LookupMethod(ctx.t, nil, "Done")
		if dch, ok := e.call(dm, []Value{ctx.v}, nil, e.curFrame).(ChanVal); ok && dch.c != nil && dch.c.closed {
			em := e.eng.prog.LookupMethod(ctx.t, nil, "Err")
			return e.call(em, []Value{ctx.v}, nil, e.curFrame)
		}
		e.callFuncVal(a[2].(FuncVal), []Value{IfaceVal{t: types.NewPointer(l.typ), v: a[0]}}, e.curFrame)
		return IfaceVal{}
	}

	ic["(*github.com/pion/ice/v4/internal/taskloop.Loop).CloseWithPreStop"] = func(e *Exec, fn *ssa.Function, a []Value) Value {
		if e.exploring() {
			return e.passthrough(fn, a)
		}
		// close(done); preStop(); the wait for the loop goroutine (and its
		// on-close callback) is outside the sequential model
		l := e.derefLoc(a[0].(PtrVal))
		st := l.typ.Underlying().(*types.Struct)
		for i := 0; i < st.NumFields(); i++ {
			if st.Field(i).Name() == "done" {
				if ch := l.sub[i].v.(ChanVal); ch.c != nil && !ch.c.closed {
					ch.c.closed = true
					if fv := a[1].(FuncVal); fv.fn != nil {
						e.callFuncVal(fv, nil, e.curFrame)
					}
				}
			}
		}
		return nil
	}

	// pion/randutil math generator: arbitrary values in range
	ic["github.com/pion/randutil.NewMathRandomGenerator"] = func(e *Exec, fn *ssa.Function, a []Value) Value {
		t := e.namedType("github.com/pion/randutil", "mathRandomGenerator")
		return IfaceVal{t: types.NewPointer(t), v: PtrVal{loc: e.newLoc(t)}}
	}
	ic["(*github.com/pion/randutil.mathRandomGenerator).Intn"] = func(e *Exec, fn *ssa.Function, a []Value) Value {
		n := e.scalar(a[1])
		x := e.hiddenFresh("rnd", 64)
		e.assume(e.tb.BAnd(e.tb.Cmp(OSle, e.tb.Const(64, 0), x), e.tb.Cmp(OSlt, x, n)))
		return x
	}
	ic["(*github.com/pion/randutil.mathRandomGenerator).Uint64"] = func(e *Exec, fn *ssa.Function, a []Value) Value {
		return e.hiddenFresh("rnd", 64)
	}
	ic["(*github.com/pion/randutil.mathRandomGenerator).Uint32"] = func(e *Exec, fn *ssa.Function, a []Value) Value {
		return e.hiddenFresh("rnd", 32)
	}

	// random identifiers
	ic["(*github.com/pion/ice/v4.candidateIDGenerator).Generate"] = func(e *Exec, fn *ssa.Function, a []Value) Value {
		e.idCounter++
		return e.strConst(fmt.Sprintf("candidate:verif%027d", e.idCounter))
	}
	ic["github.com/pion/randutil.GenerateCryptoRandomString"] = func(e *Exec, fn *ssa.Function, a []Value) Value {
		n := e.concreteInt(a[0])
		b := make([]*Node, n)
		for i := range b {
			b[i] = e.hiddenFresh("rnd", 8)
		}
		return TupleVal{StringVal{b: b}, IfaceVal{}}
	}

	// unique.Make: canonical object per concrete value
	ic["unique.Make"] = func(e *Exec, fn *ssa.Function, a []Value) Value {
		key := fn.String() + "|" + e.concreteKey(a[0])
		l, ok := e.uniq[key]
		if !ok {
			l = e.newLoc(fn.Signature.Params().At(0).Type())
			e.storeLoc(l, a[0])
			e.uniq[key] = l
		}
		return StructVal{PtrVal{loc: l}}
	}

	// ----- fmt / logging -----
	ic["fmt.Sprintf"] = func(e *Exec, fn *ssa.Function, a []Value) Value {
		return e.miniFormat(a[0].(StringVal), a[1].(SliceVal))
	}
	ic["fmt.Sprint"] = func(e *Exec, fn *ssa.Function, a []Value) Value { return StringVal{b: nil, opq: true} }
	ic["fmt.Sprintln"] = ic["fmt.Sprint"]
	ic["fmt.Errorf"] = func(e *Exec, fn *ssa.Function, a []Value) Value { return e.errorf(a[0].(StringVal), a[1].(SliceVal)) }
	ic["fmt.Println"] = func(e *Exec, fn *ssa.Function, a []Value) Value {
		return TupleVal{e.tb.Const(64, 0), IfaceVal{}}
	}
	ic["fmt.Printf"] = ic["fmt.Println"]
	ic["fmt.Fprintf"] = ic["fmt.Println"]
	logNop := func(e *Exec, fn *ssa.Function, a []Value) Value {
		if fn.Signature.Results().Len() == 0 {
			return nil
		}
		panic(e.unsupported("logger method with results: " + fn.String()))
	}
	ic["recv:*github.com/pion/logging.DefaultLeveledLogger"] = logNop

	// hash/crc32: uninterpreted, functionally consistent, assumed injective on
	// the inputs compared within one path ("up to CRC-32 collisions")
	ic["hash/crc32.ChecksumIEEE"] = func(e *Exec, fn *ssa.Function, a []Value) Value {
		in := StringVal{b: e.bytesOfSlice(a[0].(SliceVal))}
		if c, ok := in.Concrete(); ok {
			out := e.tb.Const(32, uint64(crc32IEEE([]byte(c))))
			if e.cfg.CRCInjective {
				for _, r := range e.crcSeen {
					e.assume(e.tb.Eq(e.tb.Eq(out, r.out), e.strEq(in, r.in)))
				}
				e.crcSeen = append(e.crcSeen, crcRec{in, out})
			}
			return out
		}
		// same input terms => same value (functional consistency for free)
		for _, r := range e.crcSeen {
			if len(r.in.b) == len(in.b) {
				same := true
				for i := range in.b {
					if r.in.b[i] != in.b[i] {
						same = false
						break
					}
				}
				if same {
					return r.out
				}
			}
		}
		out := e.tb.Var(fmt.Sprintf("crc!%d", len(e.crcSeen)), 32)
		if e.cfg.CRCInjective {
			// "up to CRC-32 collisions": equal values exactly for equal inputs
			for _, r := range e.crcSeen {
				e.assume(e.tb.Eq(e.tb.Eq(out, r.out), e.strEq(in, r.in)))
			}
		}
		e.crcSeen = append(e.crcSeen, crcRec{in, out})
		return out
	}

	registerStdlib(g)
}

// concreteKey renders a value built of concrete scalars/strings/structs.
func (e *Exec) concreteKey(v Value) string {
	switch x := v.(type) {
	case *Node:
		if !x.IsConst() {
			panic(e.unsupported("unique.Make of symbolic value"))
		}
		return fmt.Sprintf("%d:%d", x.w, x.val)
	case StringVal:
		c, ok := x.Concrete()
		if !ok {
			panic(e.unsupported("unique.Make of symbolic string"))
		}
		return fmt.Sprintf("%q", c)
	case StructVal:
		s := "{"
		for _, f := range x {
			s += e.concreteKey(f) + ","
		}
		return s + "}"
	}
	panic(e.unsupported(fmt.Sprintf("unique.Make of %T", v)))
}

type afterFunc struct {
	timer  *Loc
	fn     FuncVal
	active bool
}

type crcRec struct {
	in  StringVal
	out *Node
}

// miniFormat implements %s %v %d %q(no) for the argument kinds the targeted code
// uses; anything else yields an opaque string (comparisons on it are
// UNSUPPORTED, so a wrong text can never decide a property).
func (e *Exec) miniFormat(format StringVal, args SliceVal) Value {
	f, ok := format.Concrete()
	if !ok {
		return StringVal{opq: true}
	}
	var out []*Node
	argLocs := args.locs()
	ai := 0
	lit := func(s string) {
		for i := 0; i < len(s); i++ {
			out = append(out, e.tb.Const(8, uint64(s[i])))
		}
	}
	for i := 0; i < len(f); i++ {
		if f[i] != '%' {
			lit(f[i : i+1])
			continue
		}
		i++
		if i >= len(f) {
			return StringVal{opq: true}
		}
		if f[i] == '%' {
			lit("%")
			continue
		}
		if ai >= len(argLocs) {
			return StringVal{opq: true}
		}
		av := argLocs[ai].v
		ai++
		iv, _ := av.(IfaceVal)
		if (f[i] == 's' || f[i] == 'v') && iv.t != nil {
			// fmt calls Error()/String() on operands that have them
			for _, mname := range []string{"Error", "String"} {
				if _, isStr := iv.v.(StringVal); isStr {
					break
				}
				if m := e.findMethod(iv.t, nil, mname); m != nil && m.Signature.Params().Len() == 0 && m.Signature.Results().Len() == 1 {
					if r, ok := e.call(m, []Value{iv.v}, nil, e.curFrame).(StringVal); ok {
						iv = IfaceVal{t: types.Typ[types.String], v: r}
					}
					break
				}
			}
		}
		switch f[i] {
		case 's', 'v':
			switch x := iv.v.(type) {
			case StringVal:
				if x.opq {
					return StringVal{opq: true}
				}
				out = append(out, x.b...)
			case *Node:
				if f[i] == 'v' && x.IsConst() && x.w > 0 {
					if _, signed, ok := intWidth(iv.t); ok && signed {
						lit(fmt.Sprint(sext64(x.val, x.w)))
					} else {
						lit(fmt.Sprint(x.val))
					}
				} else {
					return StringVal{opq: true}
				}
			default:
				return StringVal{opq: true}
			}
		case 'd':
			x, ok := iv.v.(*Node)
			if ok && !x.IsConst() && x.w > 0 && f == "%d" {
				return StringVal{opq: true, tok: x}
			}
			if ok && !x.IsConst() && x.w > 0 && x.w <= 64 {
				digs, dok := e.symDecimal(x, iv.t)
				if !dok {
					return StringVal{opq: true}
				}
				out = append(out, digs...)
				continue
			}
			if !ok || !x.IsConst() || x.w == 0 {
				return StringVal{opq: true}
			}
			if _, signed, ok := intWidth(iv.t); ok && signed {
				lit(fmt.Sprint(sext64(x.val, x.w)))
			} else {
				lit(fmt.Sprint(x.val))
			}
		default:
			return StringVal{opq: true}
		}
	}
	return StringVal{b: out}
}

// symDecimal renders a symbolic non-negative integer in decimal: the number of
// digits is decided by range branches (at most 10 forks for 32 bits), each
// digit is (x / 10^k) % 10 as a term.
func (e *Exec) symDecimal(x *Node, typ types.Type) ([]*Node, bool) {
	t := e.tb
	if d, ok := e.decimals[x]; ok {
		return d, true
	}
	if _, signed, ok := intWidth(typ); ok && signed {
		if !e.branch(t.Cmp(OSle, t.Const(x.w, 0), x)) {
			return nil, false // negative: not needed by the targeted code
		}
	}
	w := x.w
	maxDigits := 20
	switch {
	case w <= 8:
		maxDigits = 3
	case w <= 16:
		maxDigits = 5
	case w <= 32:
		maxDigits = 10
	}
	n := 1
	pow := uint64(10)
	for n < maxDigits {
		if w < 64 && pow > mask(w) {
			break
		}
		if e.branch(t.Cmp(OUlt, x, t.Const(w, pow))) {
			break
		}
		n++
		pow *= 10
	}
	digs := make([]*Node, n)
	div := uint64(1)
	for k := 0; k < n; k++ {
		q := x
		if div > 1 {
			q = t.Bin(OUDiv, x, t.Const(w, div))
		}
		d := t.Bin(OURem, q, t.Const(w, 10))
		digs[n-1-k] = t.Bin(OAdd, t.Extract(d, 7, 0), t.Const(8, '0'))
		div *= 10
	}
	return digs, true
}

func (e *Exec) namedType(pkg, name string) types.Type {
	p := e.eng.pkgs[pkg]
	if p == nil {
		panic(e.unsupported("package " + pkg + " not loaded"))
	}
	m := p.Members[name]
	if m == nil {
		panic(e.unsupported("type " + pkg + "." + name + " not found"))
	}
	return m.Type()
}

func (e *Exec) newError(msg StringVal) IfaceVal {
	t := e.namedType("errors", "errorString")
	l := e.newLoc(t)
	l.sub[0].v = msg
	return IfaceVal{t: types.NewPointer(t), v: PtrVal{loc: l}}
}

func (e *Exec) errorf(format StringVal, args SliceVal) Value {
	msg := e.miniFormat(format, args).(StringVal)
	f, _ := format.Concrete()
	if strings.Contains(f, "%w") || msg.opq {
		// wrap the first error argument when %w is present
		if strings.Contains(f, "%w") {
			for _, l := range args.locs() {
				iv, ok := l.v.(IfaceVal)
				if !ok || iv.t == nil {
					continue
				}
				if types.Implements(iv.t, e.errorIface()) {
					t := e.namedType("fmt", "wrapError")
					wl := e.newLoc(t)
					wl.sub[0].v = StringVal{opq: true}
					wl.sub[1].v = iv
					return IfaceVal{t: types.NewPointer(t), v: PtrVal{loc: wl}}
				}
			}
		}
	}
	return e.newError(msg)
}

func (e *Exec) errorIface() *types.Interface {
	return types.Universe.Lookup("error").Type().Underlying().(*types.Interface)
}
