package main

// Registry of checks: which harness functions decide which property, with the
// bounds and assumptions that are part of each claim.

type HarnessSpec struct {
	Fn           string
	Lemma        string
	Bounds       string
	MustReach    []string
	ThoroughOnly bool
	Cfg          func(c *HarnessCfg, tier int)
}

type CheckSpec struct {
	ID          string
	Harnesses   []HarnessSpec
	Assumptions []string
	Outside     string
}

var commonAssumptions = []string{
	"engine: own go/ssa symbolic interpreter (integers as bit-vectors of machine width; pointer structure concrete, scalar content symbolic; slice/string lengths concrete per path, case-split where the harness makes them vary)",
	"solver: z3 4.8.12 decides every feasibility and assertion query; unknown/timeout/(error => inconclusive (exit 2), never success",
	"append growth policy not modelled (fresh capacity = needed length)",
	"map iteration order = insertion order unless the harness enables order forking",
	"counterexamples are reported only after native replay against the compiled code (go test -overlay)",
}

const c08Common = "the agent is built by the REAL newAgentWithConfig (real task loop, real on-close teardown closure, real notifiers, real initial Restart) around a struct literal mirroring createAgentBase; Close or GracefulClose is injected after 0..3 (thorough 0..7) fair hand-overs to the other goroutines, plus every schedule with at most 1 preemption at synchronisation points and the first 2–3 (thorough 4–5) free switches explored over all enabled threads"
const c08CommonFixed = "the agent is built by the REAL newAgentWithConfig (real task loop, real on-close teardown closure, real notifiers, real initial Restart) around a struct literal mirroring createAgentBase; Close or GracefulClose is injected after 0..3 fair hand-overs (both tiers) to the other goroutines, plus every schedule with at most 1 preemption at synchronisation points and the first 3 non-preemptive switch points explored nondeterministically (both tiers)"

func allChecks() []CheckSpec {
	return []CheckSpec{
		{
			ID: "C01",
			Harnesses: []HarnessSpec{
				{Fn: "verifC01TwoAgents", Lemma: "two real agents (controlling / controlled, each holding the other's credentials and candidates) joined by a harness network in which every emitted datagram is in flight until delivered, dropped or duplicated: an adversarial prefix of explorer-chosen steps from {tick A, tick B, deliver oldest to B, deliver oldest to A, drop, drop, duplicate/reorder}, then a fair loss-free suffix of 6 rounds. At every step: the selection invariant holds on both sides and Connected is reported exactly while a pair is selected; if the path is not reachable in both directions neither side ever selects or connects; if it is, after the suffix both are Connected and the selected pairs are mirror images",
					Bounds: "quick: 1 candidate per side (1 pair), 3 adversarial steps; thorough: 2 candidates per side (4 pairs) with 2 steps and 1 per side with 4 steps (2 per side with 4 steps exhausted a 45 min budget and is not claimed); reachability matrix per direction; real stun.Build/Decode on every datagram; transaction ids and clock symbolic", MustReach: []string{"reachable", "unreachable", "done"}},
				{Fn: "verifC01NominationLemmas", Lemma: "step lemmas for convergence, one authenticated message (request or matched response) into the real handleInbound from a symbolic agent state: (N1) a controlling agent with a nomination outstanding never replaces it and USE-CANDIDATE only ever goes out on the one pair being nominated; a pair nominated on an inbound request is valid; (N2) a controlled agent's deferred nomination (accepted for a not-yet-valid pair) stays armed through every inbound message until that pair is selected",
					Bounds: "2 local + 1 remote candidates (2 pairs), symbolic pair states/flags, selection nil or any, nominatedPair nil or any valid pair, 0..1 outstanding transactions, candidate priorities 1..256", MustReach: []string{"controlling", "controlled", "nomination-outstanding", "USE-CANDIDATE-sent", "deferred-nomination-armed", "request-on-a-not-yet-valid-pair", "done"}},
				{Fn: "verifC01TickProgress", Lemma: "progress of one real ContactCandidates tick while nothing is selected, from a symbolic agent state: an outstanding nomination is retransmitted (exactly one USE-CANDIDATE request on that pair, the pair is kept); with a valid pair and no nomination outstanding the best valid pair gets nominated and the nomination goes out on it; otherwise every Waiting/In-Progress pair within its retry budget is checked again (one request, count+1) and a pair beyond the budget fails; the controlled side never sends USE-CANDIDATE",
					Bounds: "2 pairs, symbolic states, retry counts 0..9 against the budget of 7, 32-bit candidate priorities, both roles (full agents)", MustReach: []string{"retransmit", "nominate", "check", "rechecked", "budget-exhausted", "done"}},
				{Fn: "verifC06AddRemote", Lemma: "step lemma (R) for convergence across the trickle of a candidate the agent already knows as peer-reflexive: when the signalled candidate replaces it, every pair keeps its place in the protocol — id, state, nominated flag, the nomination deferred on it (plain or valued) and the selection — so a USE-CANDIDATE accepted on the not-yet-valid prflx pair is still honoured when its check succeeds",
					Bounds: "2 local + 1 host + 1 prflx remote, symbolic pair states/flags, selection nil/any, 6 candidate kinds", MustReach: []string{"supersedes-prflx", "done"},
					Cfg: func(c *HarnessCfg, tier int) { c.GoRunMatch = "AddRemoteCandidate$1" }},
				{Fn: "verifC04DeadlineRearm", Lemma: "step lemma (S) for restarted sessions: the Restart that re-enters Checking re-arms the initial checking deadline — through the real connectivityChecks loop, the ticks after a Restart leave the agent Checking (and checking) until a full deadline has elapsed again, however old the session is",
					Bounds: "deadline 100 ms + 100 ms, clock advanced by 300 / 120 / 150 ms between harness-driven ticks, one Restart", MustReach: []string{"failed-on-deadline", "done"},
					Cfg: func(c *HarnessCfg, tier int) { c.GoPolicy = "queue" }},
				{Fn: "verifC01LateResponse", Lemma: "a retransmission does not cancel the transaction it repeats: after 2..3 ticks on a not-yet-valid pair every check sent is still outstanding, and the authenticated response to ANY of them — the first included, i.e. a round trip longer than the check interval — validates the pair",
					Bounds: "1 pair, 2..3 ticks, both roles, 96-bit transaction ids symbolic, clock steps within one transaction lifetime", MustReach: []string{"late-response", "done"}},
			},
			Assumptions: append([]string{
				"bounded: the adversarial prefix has 3 (thorough 2 or 4, see bounds) steps and the suffix 6 rounds; 'eventually' is checked only as 'within the suffix'",
				"ticks call the selector's ContactCandidates directly (the timer goroutine is outside); integrity contract; freshly drawn transaction ids pairwise distinct; clock steps <= 1 ms",
			}, commonAssumptions...),
			Outside: "more candidates/topologies (srflx, NAT mappings), longer loss prefixes, Restart during the session, real timers and sockets",
		},
		{
			ID: "C11",
			Harnesses: []HarnessSpec{
				{Fn: "verifC11Notifier", Lemma: "schedule exploration over the REAL handlerNotifier (Enqueue*, the drainer goroutines it spawns, Close): two concurrent producers (A: two events, B: one) on any of the three streams with a slow handler that yields inside: the handler never runs concurrently with itself, every event is delivered exactly once, A's events in their order, GracefulClose returns only when no handler is running, and nothing is invoked after it returned",
					Bounds: "3 events, 2 producers + drainer goroutines + harness, all schedules with at most 2 (thorough 3) preemptive context switches at synchronisation-point granularity", MustReach: []string{"done"},
					Cfg: func(c *HarnessCfg, tier int) {
						c.GoPolicy = "explore"
						c.ContextBound = 2 + tier
						c.MaxPaths = 4000000
						c.MaxWallS = 1200
					}},
				{Fn: "verifC11NilIsLast", Lemma: "the nil candidate is the last event of its cycle: on the real loop, gather goroutines and notifier, a host gatherer whose socket opening is held back until nothing else can move still announces its candidate before the cycle completes, with timers of the gathering path allowed to fire: the handler sees one candidate, then one nil",
					Bounds: "one IPv4 interface, host candidates only, gate released as late as possible, 2 timer ticks available; schedules with <= 1 preemption and the first 3 free switches; a select with several ready cases is a choice point", MustReach: []string{"done"},
					Cfg: func(c *HarnessCfg, tier int) {
						c.GoPolicy = "explore"
						c.ContextBound = 1
						c.FreeChoiceBound = 3 + tier
						c.MaxPaths = 2000000
						c.MaxWallS = 1200
					}},
				{Fn: "verifC11Reselect", Lemma: "schedule exploration over the real notifier: one producer enqueues A, B, A (a value notified again after another one: a pair re-selected after a switch, a state re-entered) with a handler that yields inside: all three are delivered, in order; then a plain Close followed by a GracefulClose: the graceful one still waits for the running handler",
					Bounds: "3 events on the state or the selected-pair stream, producer + drainer + harness, at most 2 (thorough 3) preemptions", MustReach: []string{"done"},
					Cfg: func(c *HarnessCfg, tier int) {
						c.GoPolicy = "explore"
						c.ContextBound = 2 + tier
						c.MaxPaths = 2000000
						c.MaxWallS = 900
					}},
				{Fn: "verifC11GatherVsRestart", Lemma: "GatherCandidates racing with Restart on the real task loop, the real gatherCandidates goroutine and the real notifier: at most one nil candidate per cycle, exactly one when the cycle completed, none from a refused or cancelled cycle, final gathering state New or Complete",
					Bounds: "one gather call and one Restart, fake net without interfaces, Restart after 0..8 (thorough 0..12) fair hand-overs, context bound 1, the first 5 (thorough 7) non-preemptive switch points explored over all enabled threads, later ones least-recently-run", MustReach: []string{"completed", "cancelled-by-restart", "done"},
					Cfg: func(c *HarnessCfg, tier int) {
						c.GoPolicy = "explore"
						c.ContextBound = 1
						c.FreeChoiceBound = 5 + 2*tier
						c.MaxPaths = 8000000
						c.MaxWallS = 1500
					}},
				{Fn: "verifC11RestartDuringCycle", Lemma: "Restart issued after GatherCandidates returned, at any explored moment of the running cycle (incl. the instant before it reports completion): once Restart has returned and the old cycle wound down the gathering state is New (a superseded cycle cannot overwrite it), the old cycle emitted its nil candidate at most once, and a fresh cycle is accepted, completes and emits exactly one more",
					Bounds: "Restart after 0..8 (thorough 0..12) fair hand-overs, context bound 1, first 4 (thorough 6) free switches explored, fake net without interfaces", MustReach: []string{"completed-before-restart", "cancelled-by-restart", "done"},
					Cfg: func(c *HarnessCfg, tier int) {
						c.GoPolicy = "explore"
						c.ContextBound = 1
						c.FreeChoiceBound = 4 + 2*tier
						c.MaxPaths = 8000000
						c.MaxWallS = 1500
					}},
				{Fn: "verifC11RestartDuringCycleWithCandidate", Lemma: "the same with one interface (the cycle opens a socket and publishes a host candidate through the real addCandidate): once Restart has returned and the superseded cycle wound down, no candidate of it is on record in the new generation, every announced candidate carries its own cycle's ufrag, and the socket it opened is closed",
					Bounds: "one IPv4 interface, host candidates, Restart after 0..8 (thorough 0..12) fair hand-overs, context bound 1, first 4 (thorough 6) free switches explored; a select with several ready cases is a choice point", MustReach: []string{"announced-before-restart", "cancelled-before-announcing", "completed-before-restart", "done"},
					Cfg: func(c *HarnessCfg, tier int) {
						c.GoPolicy = "explore"
						c.ContextBound = 1
						c.FreeChoiceBound = 4 + 2*tier
						c.MaxPaths = 8000000
						c.MaxWallS = 1500
					}},
			},
			Assumptions: append([]string{
				"threads switch only at synchronisation operations (sound for data-race-free code); schedule-dependent counterexamples are replayed by re-executing the recorded schedule on the SSA of the real code",
			}, commonAssumptions...),
			Outside: "handlers that re-enter the API or close the agent, event bursts longer than 3, handlers blocking forever, context bounds above 3",
		},
		{
			ID: "C08",
			Harnesses: []HarnessSpec{
				{Fn: "verifC08CloseVsAPI", Lemma: "Close/GracefulClose at any explored moment of one concurrently running API call (Restart, SetRemoteCredentials+GetRemoteUserCredentials, AddRemoteCandidate, GetLocalCandidates, StartDial): no explored schedule deadlocks (Close and the call both return), the racing call returns nil or a refusal and a refused SetRemoteCredentials has no effect; afterwards: repeated Close and GracefulClose return nil, GetLocalCandidates/GetRemoteCandidates/GatherCandidates/Restart/SetRemoteCredentials/AwaitConnect/Conn.Read/Conn.Write report the closed error without effect, Dial fails, the last notified state is Closed and it is notified once, candidates are dropped, every started socket was closed, and once no thread can run any more every goroutine the agent started has ended (goroutine census)",
					Bounds: "5 operations x {Close, GracefulClose}; " + c08Common, MustReach: []string{"closed", "done"},
					Cfg: func(c *HarnessCfg, tier int) {
						c.GoPolicy = "explore"
						c.ContextBound = 1
						c.FreeChoiceBound = 2 + 2*tier
						c.MaxPaths = 6000000
						c.MaxWallS = 2400
					}},
				{Fn: "verifC08CloseVsBlockedIO", Lemma: "the same with blocked I/O: a reader parked in Conn.Read, a Dial parked in AwaitConnect while the candidate's recvLoop is parked in a socket read, the same with the connectivity check's socket write blocking for ever inside a loop task (only a deadline or Close aborts it), and an inbound Binding request arriving at any moment: all of them return, blocked Read/Dial with an error",
					Bounds: "4 kinds x {Close, GracefulClose}; one local host candidate on a blocking fake socket, one remote; " + c08Common, MustReach: []string{"closed", "connected", "socket-read-was-pending-at-close", "socket-write-was-blocked-at-close", "Conn.Write-was-blocked-in-the-socket", "done"},
					Cfg: func(c *HarnessCfg, tier int) {
						c.GoPolicy = "explore"
						c.ContextBound = 1
						c.FreeChoiceBound = 2 + 2*tier
						c.MaxPaths = 6000000
						c.MaxWallS = 2400
					}},
				{Fn: "verifC08CloseVsGather", Lemma: "Close at any explored moment of a gathering cycle (one interface, blocking sockets): GatherCandidates returns nil or closed, every socket the cycle opened is closed, same finality clauses",
					Bounds: "one IPv4 interface, host candidates only; " + c08Common, MustReach: []string{"closed", "socket-opened-before-close", "done"},
					Cfg: func(c *HarnessCfg, tier int) {
						c.GoPolicy = "explore"
						c.ContextBound = 1
						c.FreeChoiceBound = 3 + 2*tier
						c.MaxPaths = 6000000
						c.MaxWallS = 2400
					}},
				{Fn: "verifC08CloseAfterRestart", Lemma: "Close after a Restart that cancelled a gathering cycle at any explored moment of it: Restart returns nil, Close still waits for the cancelled cycle — once it has returned that cycle opens no socket, every socket it opened is closed and no goroutine of it is left; same finality clauses",
					Bounds: "one IPv4 interface, host candidates only, socket opening gated (released by a helper goroutine as late as possible — when nothing else can move — or after 0..1 hand-overs); GatherCandidates; 0..1 hand-overs; Restart; 0..3 hand-overs; Close or GracefulClose; the same bounds in both tiers (a larger thorough variant did not finish inside 30 minutes: not claimed); " + c08CommonFixed, MustReach: []string{"closed", "slow-network", "socket-opened-before-close", "done"},
					Cfg: func(c *HarnessCfg, tier int) {
						c.GoPolicy = "explore"
						c.ContextBound = 1
						c.FreeChoiceBound = 3
						c.MaxPaths = 6000000
						c.MaxWallS = 2400
					}},
				{Fn: "verifC08CloseAfterRegather", Lemma: "Close while two gathering cycles are alive (GatherCandidates; Restart cancels it while it is busy in the network; GatherCandidates again; Close): the teardown waits for both — once Close has returned neither cycle opens a socket, every opened socket is closed, no goroutine is left; same finality clauses",
					Bounds: "one IPv4 interface, host candidates only, the first socket opening gated (released by a helper goroutine as late as possible — when nothing else can move — or at once); 1 hand-over before Restart; 0..3 before Close or GracefulClose; the same bounds in both tiers; " + c08CommonFixed, MustReach: []string{"closed", "done"},
					Cfg: func(c *HarnessCfg, tier int) {
						c.GoPolicy = "explore"
						c.ContextBound = 1
						c.FreeChoiceBound = 3
						c.MaxPaths = 6000000
						c.MaxWallS = 2400
					}},
				{Fn: "verifC08CloseInCallback", Lemma: "Close called from inside the connection-state callback (on Checking) returns; same finality clauses",
					Bounds: "StartDial triggers Checking; " + c08Common, MustReach: []string{"closed", "done"},
					Cfg: func(c *HarnessCfg, tier int) {
						c.GoPolicy = "explore"
						c.ContextBound = 1
						c.FreeChoiceBound = 3 + 2*tier
						c.MaxPaths = 6000000
						c.MaxWallS = 2400
					}},
				{Fn: "verifC08CloseConcurrent", Lemma: "Close, GracefulClose and a third close call racing from three goroutines all return nil; same finality clauses",
					Bounds: "3 closers, one started candidate; " + c08Common, MustReach: []string{"closed", "done"},
					Cfg: func(c *HarnessCfg, tier int) {
						c.GoPolicy = "explore"
						c.ContextBound = 1
						c.FreeChoiceBound = 2 + 2*tier
						c.MaxPaths = 6000000
						c.MaxWallS = 2400
					}},
				{Fn: "verifC08CloseInBindingHandler", Lemma: "Close called from inside the application's binding-request handler (a callback the agent runs on its task loop, on an authenticated inbound request) returns and leaves the agent closed with all finality clauses",
					Bounds: "one inbound request, handler calls Close once; context bound 1 (the native replay skips the call: it would hang the process)", MustReach: []string{"handler-invoked"},
					Cfg: func(c *HarnessCfg, tier int) {
						c.GoPolicy = "explore"
						c.ContextBound = 1
						c.FreeChoiceBound = 3
						c.MaxPaths = 2000000
						c.MaxWallS = 900
					}},
			},
			Assumptions: append([]string{
				"threads switch only at synchronisation operations (sound for data-race-free code; data races themselves are outside); termination = no explored schedule reaches a state in which a thread can never run again; 'bounded time' is not measured",
				"sockets are fakes: ReadFrom blocks until a datagram, a deadline or Close; WriteTo optionally blocks until a deadline or Close; time.Timer channels never fire (0 scripted ticks), so the connectivity-check goroutine only reacts to the force channel and to loop.Done",
				"schedule-dependent counterexamples are replayed by re-executing the recorded schedule on the SSA of the real code; the harness is additionally run natively under the Go scheduler (the census is engine-only)",
			}, commonAssumptions...),
			Outside: "mDNS, TCP/relay/srflx candidates and muxes during Close, GracefulClose from inside a callback (documented as unsafe), Close returning an error from a socket, more than one concurrent operation, deeper context bounds, wall-clock bounds",
		},
		{
			ID: "C10",
			Harnesses: []HarnessSpec{
				{Fn: "verifC10Loop", Lemma: "schedule exploration over the REAL internal/taskloop (New/runLoop/Run/Close/Err, no stub): two concurrent submitters (one with a cancellable context), an optional canceller and an optional closer, the loop goroutine: tasks never overlap, a submission returns nil exactly when its task ran once to completion before the return and an error exactly when it never ran, no task starts after Close returned, the close callback runs once and before Close returns, submissions after Close fail without running",
					Bounds: "1 submitter (cancellable context) + optional canceller + optional closer + loop goroutine + harness; every schedule with at most 2 preemptive context switches at synchronisation-point granularity (channel ops, select, mutex, Once, WaitGroup, atomics), free switches when a thread blocks", MustReach: []string{"submitted", "refused", "closed", "done"},
					Cfg: func(c *HarnessCfg, tier int) {
						c.GoPolicy = "explore"
						c.ContextBound = 2
						c.MaxPaths = 4000000
						c.MaxWallS = 1200
					}},
				{Fn: "verifC10LoopTwoSubmitters", ThoroughOnly: true, Lemma: "schedule exploration over the REAL internal/taskloop (New/runLoop/Run/Close/Err, no stub): two concurrent submitters (one with a cancellable context), an optional canceller and an optional closer, the loop goroutine: tasks never overlap, a submission returns nil exactly when its task ran once to completion before the return and an error exactly when it never ran, no task starts after Close returned, the close callback runs once and before Close returns, submissions after Close fail without running",
					Bounds: "2 submitters (one with a cancellable context) + optional canceller + optional closer + loop goroutine + harness; every schedule with at most 1 preemptive context switch at synchronisation-point granularity (channel ops, select, mutex, Once, WaitGroup, atomics), free switches when a thread blocks", MustReach: []string{"submitted", "refused", "closed", "done"},
					Cfg: func(c *HarnessCfg, tier int) {
						c.GoPolicy = "explore"
						c.ContextBound = 1 // two submitters with two preemptions exhausted a 4M-schedule budget: not claimed
						c.MaxPaths = 4000000
						c.MaxWallS = 1200
					}},
				{Fn: "verifC10InboundNeedsLoop", Lemma: "agent state is touched by loop tasks only: with the loop closed (no task can run) a packet arriving at a candidate's socket — a STUN header of any class/method from a known remote or any address, or data from an uncached source — changes nothing (nothing sent, no liveness instant moved, no pair/selection/transaction change) and delivers nothing",
					Bounds: "1+1 candidates, both roles, 20-byte STUN header with symbolic type and transaction id or 3 symbolic data bytes, source = the known remote or any IPv4 address", MustReach: []string{"stun", "data", "done"}},
				{Fn: "verifC10RestartIsOneTask", Lemma: "a public operation is one task: on the real loop, a concurrent observer task sees the agent either wholly before Restart (old local and remote credentials, its candidate) or wholly after it (new local credentials, no remote credentials, no candidate), under every explored schedule",
					Bounds: "1 local candidate, remote credentials set; observer vs Restart (delayed by 0..2 hand-overs); schedules with <= 2 preemptions", MustReach: []string{"observer-first", "restart-first", "done"},
					Cfg: func(c *HarnessCfg, tier int) {
						c.GoPolicy = "explore"
						c.ContextBound = 2
						c.FreeChoiceBound = 3 + tier
						c.MaxPaths = 3000000
						c.MaxWallS = 1200
					}},
				{Fn: "verifC10CloseTwice", Lemma: "two concurrent Close calls and a submission: both Close calls return after the single callback; the submission succeeds iff its task ran",
					Bounds: "5 threads, context bound 1 (quick) / 2 (thorough)", MustReach: []string{"done"},
					Cfg: func(c *HarnessCfg, tier int) { c.GoPolicy = "explore"; c.ContextBound = 1 + tier; c.MaxPaths = 4000000 }},
			},
			Assumptions: append([]string{
				"threads switch only at synchronisation operations (sound for data-race-free code; data races themselves are outside); channels have rendezvous/buffer semantics, mutexes block, sync.Once.Do returns after f; context package executed as real code",
				"schedule-dependent counterexamples are replayed by re-executing the recorded schedule on the SSA of the real code (a native run cannot force a schedule); the harness is additionally run natively under the Go scheduler as a sanity check",
			}, commonAssumptions...),
			Outside: "race freedom of every public Agent/Conn method as such (needs a memory-access-level race detector, not a schedule explorer at synchronisation granularity; two consequences of the second half are checked: state changes need a loop task, Restart is one task); more than 5 threads; context bounds above 3",
		},
		{
			ID: "C15",
			Harnesses: []HarnessSpec{
				{Fn: "verifC15HandleConn", Lemma: "one accepted TCP connection through the real handleConn/readStreamingPacket/stun.Message.Decode/getConn/createConn/AddConn/startReading: closed iff the first frame is missing, truncated, oversized (>512), undecodable, not Binding or lacks USERNAME; otherwise attached to exactly the packet conn of (ufrag before ':', family of the peer, local IP) — created with the expiry timer armed when the ufrag is unknown, the agent's own when it had asked for it; the first message and later packets are delivered there in order with the peer's address; a reply written to that address goes back over the same connection with RFC 4571 framing; provisional conns expire; Close closes listener and connections and hands out nothing afterwards",
					Bounds: "8 first-frame kinds (two well-formed with known/unknown ufrag and a symbolic priority/transaction id, no USERNAME, non-Binding, an arbitrary 20-byte header, oversized, truncated, nothing), segmentations with up to 2 partial reads (1 byte or half), ufrag pre-registered or not, one later 3-byte packet and one 2-byte reply with symbolic bytes", MustReach: []string{"rejected", "admitted", "known-ufrag", "unknown-ufrag", "expired", "ipv4-in-16-byte-form", "done"},
					Cfg: func(c *HarnessCfg, tier int) { c.GoPolicy = "queue" }},
				{Fn: "verifC15TwoPeers", Lemma: "two TCP connections naming the same unregistered ufrag share one provisional packet conn; unless the agent claims the ufrag (GetConnByUfrag) its expiry stays armed and, when it fires, closes both TCP connections and removes the packet conn; once claimed it does not expire",
					Bounds: "2 peers, symbolic priorities/transaction ids, claimed or not; the alive timer fires when the harness fires it", MustReach: []string{"claimed", "expired", "done"},
					Cfg: func(c *HarnessCfg, tier int) { c.GoPolicy = "queue" }},
				{Fn: "verifC15CloseWithFullQueue", Lemma: "schedule exploration over the real tcpPacketConn (AddConn's reader goroutine, startReading, handleRecv, Close): with a receive queue of one packet that is full and never read, Close still returns (the parked readers are released), every TCP connection is closed, and when Close has returned the reader goroutines have ended",
					Bounds: "1..2 TCP connections with 1..2 framed packets each, queue capacity 1, Close after 0..3 fair hand-overs, at most 1 (thorough 2) preemptions", MustReach: []string{"queue-full-at-close", "done"},
					Cfg: func(c *HarnessCfg, tier int) {
						c.GoPolicy = "explore"
						c.ContextBound = 1 + tier
						c.MaxPaths = 2000000
						c.MaxWallS = 900
					}},
				{Fn: "verifC15RemoveThenGet", Lemma: "schedule exploration over the real TCPMuxDefault (GetConnByUfrag/createConn and its close watcher, RemoveConnByUfrag, Close): get, remove, get again for one ufrag — the first conn's watcher, woken by the removal, runs at any explored moment and neither unregisters nor closes the successor; Close returns",
					Bounds: "one ufrag and local address, 0..2 fair hand-overs before the second get, at most 1 (thorough 2) preemptions", MustReach: []string{"done"},
					Cfg: func(c *HarnessCfg, tier int) {
						c.GoPolicy = "explore"
						c.ContextBound = 1 + tier
						c.MaxPaths = 2000000
						c.MaxWallS = 900
					}},
				{Fn: "verifC15CloseWithLateClient", Lemma: "schedule exploration over the real accept loop, handleConn, createConn and Close: a client is connected but silent; Close starts; the client's valid first frame arrives while Close is in progress: once Close has returned nothing is attached to the closed mux and the client's connection is closed",
					Bounds: "one client, frame released 0..2 fair hand-overs after Close started, at most 1 (thorough 2) preemptions", MustReach: []string{"frame-arrived-while-closing", "done"},
					Cfg: func(c *HarnessCfg, tier int) {
						c.GoPolicy = "explore"
						c.ContextBound = 1 + tier
						c.MaxPaths = 2000000
						c.MaxWallS = 900
					}},
			},
			Assumptions: append([]string{
				"sequential: the accept loop, per-connection reader and close watchers are scheduled cooperatively (a blocked goroutine yields); time.AfterFunc callbacks fire only when the harness fires them",
				"net.Listener and net.Conn are fakes; Read returns 1..len(p) bytes",
			}, commonAssumptions...),
			Outside: "expiry timing, concurrent accepts/removals, Close waiting for goroutines, the goroutine census, slow-loris timing",
		},
		{
			ID: "C09",
			Harnesses: []HarnessSpec{
				{Fn: "verifC09Srflx", Lemma: "the goroutine body of gatherCandidatesSrflx (listen, STUN exchange, candidate creation, addCandidate) on a fake net: on every path each socket it opened is closed or adopted by a started candidate, and candidate removal closes adopted sockets exactly once",
					Bounds: "one STUN URL, UDP4; faults: listen failure, reply = valid / read error / garbage / no address, gathering cancelled or agent closed before or during the exchange", MustReach: []string{"cancelled-during-exchange", "closed-during-exchange", "adopted", "released", "done"},
					Cfg: func(c *HarnessCfg, tier int) { c.GoPolicy = "queue"; c.GoRunMatch = "gatherCandidatesSrflx$1" }},
				{Fn: "verifC09RelayCandidates", Lemma: "addRelayCandidates/createRelayCandidate: when no candidate adopts the relay allocation it is closed and the TURN client + local socket (onClose) are released exactly once; adopted resources stay open and are released exactly once by candidate removal",
					Bounds: "address rewrite none / replace-with-nothing / append one address; context live or cancelled", MustReach: []string{"rewrite-drops", "cancelled", "adopted", "not-adopted", "done"},
					Cfg: func(c *HarnessCfg, tier int) { c.GoPolicy = "queue" }},
				{Fn: "verifC09HostUDPMux", Lemma: "host candidates over a UDP mux (gatherCandidatesLocalUDPMux, real addCandidate and deleteAllCandidates): every mux reference the gatherer takes is adopted by exactly one candidate or released at once — with duplicate host configs (mDNS gather mode and listen addresses sharing a port), a superseded cycle, or a failing GetConn — and removing the candidates releases each adopted reference exactly once",
					Bounds: "3 listen addresses (two of them with the same or different ports), mDNS query-only or gather mode, fault none / cancelled / 2nd GetConn fails", MustReach: []string{"mdns-gather", "duplicate-skipped", "cancelled", "getconn-fails", "done"},
					Cfg: func(c *HarnessCfg, tier int) { c.GoPolicy = "queue" }},
				{Fn: "verifC09CloseVsGather", Lemma: "after Close has returned the ended generation has no open socket and opens none: Close or GracefulClose at any explored moment of a running host gathering cycle — also one that is busy in the network until nothing else can move — waits for it; every socket the cycle opened is closed exactly once when Close returns, nothing is opened afterwards and no gatherer goroutine is left",
					Bounds: "one IPv4 interface, host candidates only, socket opening immediate or gated until nothing else can move; schedules with <= 1 preemption and the first 3 free switches, closer delayed by 0..3 hand-overs", MustReach: []string{"closed", "slow-network", "socket-opened-before-close", "done"},
					Cfg: func(c *HarnessCfg, tier int) {
						c.GoPolicy = "explore"
						c.ContextBound = 1
						c.FreeChoiceBound = 3
						c.MaxPaths = 6000000
						c.MaxWallS = 2400
					}},
				{Fn: "verifC09RelayBody", Lemma: "the goroutine body of gatherCandidatesRelay (TURN over UDP) with a fake net and TURN client factory: local socket, client and allocation are released exactly once on every failure (listen, factory, Listen, Allocate, location-tracked address, cancelled context) and adopted otherwise",
					Bounds: "one TURN/UDP URL; 7 fault kinds (incl. the allocation's Close reporting an error at teardown) x context live/cancelled", MustReach: []string{"adopted", "released", "no-socket", "allocation-close-fails", "relay-outside-configured-network-types", "done"},
					Cfg: func(c *HarnessCfg, tier int) { c.GoPolicy = "queue"; c.GoRunMatch = "gatherCandidatesRelay$1" }},
			},
			Assumptions: append([]string{
				"sequential fault paths only: the gatherer goroutine bodies run to completion when spawned; the candidate receive loop and close watchers are scheduled cooperatively (a blocked goroutine yields to the others)",
				"sockets, transport.Net and the TURN client are recording fakes with a ghost close counter",
			}, commonAssumptions...),
			Outside: "WHEN things happen under real concurrency for STUN/TURN exchanges (Restart/Close racing an in-flight exchange; the host cycle vs Close is explored), the watcher goroutine inside gatherForURL, DTLS/TLS/TCP TURN branches, the 'open sockets = 0 after Close' tally (needs real goroutines); the host gatherer's socket accounting is checked under C18(d) and duplicate-candidate closing under C06",
		},
		{
			ID: "C18",
			Harnesses: []HarnessSpec{
				{Fn: "verifC06ContinualGathering", Lemma: "(g) cycle control under continual gathering: the interface monitor belongs to the cycle that started it — after Restart (or Failed) a new address and a ticker tick make the ended cycle gather nothing: the gathering state stays New, no candidate appears without a GatherCandidates call; while the cycle lasts the monitor does gather a new address",
					Bounds: "one IPv4 interface, a second one appearing after Restart/Failed, 2 ticker ticks, host candidates only; schedules with 0 preemptions and the first 2 free switches", MustReach: []string{"restart", "failed", "monitor-alive", "done"},
					Cfg: func(c *HarnessCfg, tier int) {
						c.GoPolicy = "explore"
						c.ContextBound = tier
						c.FreeChoiceBound = 2 + tier
						c.MaxPaths = 2000000
						c.MaxWallS = 1200
					}},
				{Fn: "verifC18IPv6Filter", Lemma: "isSupportedIPv6Partial and shouldFilterLocationTrackedIP equal independent bit-pattern predicates (IPv4-compatible ::/96, site-local fec0::/10; link-local fe80::/10, ff?2::/16)",
					Bounds: "all 2^128 addresses (16 symbolic bytes)", MustReach: []string{"done"}},
				{Fn: "verifC18LocalInterfaces", Lemma: "localInterfaces on a fake transport.Net returns exactly the eligible addresses (interface up, loopback setting, interface/IP filters, requested family with empty = all, not site-local); enumeration errors propagate",
					Bounds: "1 (quick) / 2 (thorough) interfaces with symbolic up/loopback flags, one IPv4 (10.0.i.x or 127.0.0.x, x symbolic) and one IPv6 address (first two bytes symbolic) each, 5 network-type lists incl. empty, interface filter none/eth0, IP filter rejecting one symbolic last byte", MustReach: []string{"done"}},
				{Fn: "verifC18PortRange", Lemma: "listenUDPInPortRange: bound port inside [min,max] and free; never tries a port outside the range; ErrPort only after every port of the range was tried exactly once and all were busy; min>max rejected without listening; no range => one ephemeral listen; unavailable-address errors abort",
					Bounds: "range width 1..3 (thorough 1..4) at any base 1..60000, every busy/free/unavailable pattern, any random start", MustReach: []string{"defaults", "inverted", "bound", "exhausted", "unavailable", "done"}},
				{Fn: "verifC18GatherHost", Lemma: "gatherCandidatesLocal (UDP host path) on the fake net: a host candidate is published for an address iff it is eligible and not link-local (mDNS gather mode publishes link-local ones under the mDNS name); ports inside the range; mDNS name instead of the IP in gather mode; every opened socket adopted or closed",
					Bounds: "1 interface (IPv4 + IPv6 address, symbolic bytes/flags), 4 network-type lists incl. empty, loopback flag, IP filter, 2 mDNS modes, 3-port range at a symbolic base", MustReach: []string{"mixed-transports", "done"}},
				{Fn: "verifC18Cycle", Lemma: "GatherCandidates is refused unless the state is New (and needs a handler), cancels the previous cycle; setGatheringState of a cancelled cycle changes and emits nothing, a live one emits exactly one nil candidate on the edge into Complete; Restart cancels the cycle and returns to New",
					Bounds: "all gathering states, handler present/absent, cancelled/live context, both target states", MustReach: []string{"refused", "started", "cancelled-cycle", "complete", "done"}},
				{Fn: "verifC18SrflxBase", Lemma: "the base of server-reflexive candidates through the real gatherCandidatesSrflx: with an interface filter, an IP filter or both, every STUN socket the agent opens is bound on an address the filters accept (never the wildcard address) and the published candidate's related address is such an address; only without filters the wildcard address is used",
					Bounds: "2 interfaces (one accepted), filters none / interface only / IP only / both, one UDP STUN URL, valid reply", MustReach: []string{"filtered", "unfiltered", "published", "done"},
					Cfg: func(c *HarnessCfg, tier int) { c.GoPolicy = "queue"; c.GoRunMatch = "gatherCandidatesSrflx$1" }},
			},
			Assumptions: append([]string{
				"transport.Net is a fake (interfaces, ListenUDP outcomes per port); randutil Intn = any value in range; context package executed as real code; taskloop.Run by contract",
				"the gather goroutine itself is not run in verifC18Cycle (cycle overlap under real concurrency is outside)",
			}, commonAssumptions...),
			Outside: "srflx/relay candidate contents (network I/O), TCP mux host candidates, overlap of cycles under real concurrency beyond the explored harness",
		},
		{
			ID: "C12",
			Harnesses: []HarnessSpec{
				{Fn: "verifC12Sequence", Lemma: "sequential operation sequences on the real UDPMuxDefault (GetConn, write through a handle, inbound datagram through the real connWorker, RemoveConnByUfrag, handle Close, mux Close) against a reference routing table (owner by canonical address = last writer, connections by ufrag): every inbound datagram grows exactly the reference's destination queue by one byte-identical packet with the true source, no other queue changes; first-contact STUN is routed by the USERNAME prefix only to that ufrag's connection of the source's family; per-connection FIFO; address map and per-connection lists agree with canonical keys; removed/closed connections receive nothing and own no binding",
					Bounds: "3 operations (both tiers; the thorough tier adds the cross-solver pass) after an initial GetConn over 2 ufrags and 3 addresses (two IPv4 and the IPv4-mapped form of the first; 4 operations exhausted a 400k-path budget in 27 min and are not claimed), datagram = 3 arbitrary bytes or STUN with USERNAME of a known or arbitrary 2-byte ufrag, IPv4 mux socket", MustReach: []string{"written", "delivered", "dropped", "removed", "last-handle-closed", "mux-closed", "done"},
					Cfg: func(c *HarnessCfg, tier int) { c.GoPolicy = "queue" }},
				{Fn: "verifC12LastWriter", Lemma: "last writer wins for every write history: two connections write to two remote addresses in any order; after every write the address table points at the writer; afterwards a datagram from each address is delivered to the connection that wrote to it last and to no other (dropped if nobody wrote); removing the last writer's ufrag unbinds the address and nothing falls back to the earlier writer",
					Bounds: "2 ufrags, 2 remote addresses, every sequence of 3 (thorough 4) writes by any handle to any address, symbolic inbound payloads", MustReach: []string{"never-written", "taken-over-or-kept", "done"},
					Cfg: func(c *HarnessCfg, tier int) { c.GoPolicy = "queue" }},
				{Fn: "verifC12Universal", Lemma: "the universal mux's socket wrapper only observes: through the real NewUniversalUDPMuxDefault, wrapper (net.Addr and AddrPort flavour), connWorker and dispatcher, two consecutive datagrams from an address a connection wrote to — a binding success with or without XOR-MAPPED-ADDRESS, or non-STUN bytes, then data — both reach that connection byte-identical, with the true source and in arrival order, whether or not the address is a STUN server the mux is waiting on; the mapped address is still learned from such a response",
					Bounds: "1 ufrag, 1 remote address, first datagram of 3 kinds (symbolic transaction id / payload), xorMappedMap entry present or absent, both socket flavours", MustReach: []string{"addrport-socket", "response-of-a-known-stun-server", "done"},
					Cfg: func(c *HarnessCfg, tier int) { c.GoPolicy = "queue" }},
				{Fn: "verifC12ClosedHandle", Lemma: "a closed connection receives nothing: two handles of one ufrag (either flavour), a datagram for it queued before or arriving after one handle is closed; a read on the closed handle fails, returns nothing and takes nothing from the queue; the open handle then reads the datagram unchanged",
					Bounds: "1 ufrag, 2 handles, 1 datagram of 3 symbolic bytes, close before or after arrival, either handle closed, either one the writer", MustReach: []string{"addrport-handles", "arrives-after-the-close", "done"},
					Cfg: func(c *HarnessCfg, tier int) { c.GoPolicy = "queue" }},
				{Fn: "verifC12ShortBuffer", Lemma: "per-connection FIFO with readers whose buffer may be too small: three datagrams (3..4 bytes, symbolic content) arrive; reads with an 8-byte or a 2-byte buffer in any order: only a too-small buffer fails a read (short buffer, nothing returned), every delivered datagram is complete, unmodified and carries the peer's address, none is delivered twice, and delivered datagrams keep their arrival order (one that did not fit never comes back later)",
					Bounds: "1 connection, 3 datagrams, 3 (thorough 4) reads, buffer sizes {2, 8}", MustReach: []string{"short-buffer", "delivered", "done"},
					Cfg: func(c *HarnessCfg, tier int) { c.GoPolicy = "queue" }},
				{Fn: "verifC12DualStack", Lemma: "a mux on the unspecified address serving one ufrag on both IP families: each family's first-contact request reaches its own connection; after RemoveConnByUfrag, after the handles were closed, or after mux Close the ufrag is gone from both family tables, no address binding points at either connection, neither receives anything (from a bound address or by ufrag, either family) and GetConn returns a fresh connection",
					Bounds: "one ufrag, one IPv4 and one IPv6 local address, optional write to one peer per family before the removal, 3 removal forms x 4 follow-up datagrams with symbolic payload/transaction id", MustReach: []string{"removed", "mux-closed", "handles-closed", "done"},
					Cfg: func(c *HarnessCfg, tier int) { c.GoPolicy = "queue" }},
			},
			Assumptions: append([]string{
				"goroutines (connWorker, the per-connection close watcher) take turns at operation boundaries: each runs until it blocks (one legal schedule per path; interleavings are outside the claim)",
				"the shared socket is a recording fake fed through a channel; sync.Pool = New() on every Get",
			}, commonAssumptions...),
			Outside: "concurrent interleavings of these operations, MultiUDPMuxDefault, the universal mux's XOR-mapped cache, longer histories on unspecified-address muxes than the dual-stack script",
		},
		{
			ID: "C13",
			Harnesses: []HarnessSpec{
				{Fn: "verifC13Refcount", Lemma: "2..3 handles for one ufrag share one underlying connection that is closed exactly when the last handle closes (repeated Close is idempotent); a closed handle's reads and writes fail with ErrClosedPipe while siblings keep reading and writing",
					Bounds: "2..3 handles, 4 (quick) / 5 (thorough) operations from {Close, write, read with a packet queued} on any handle, through the net.Addr or the AddrPort methods", MustReach: []string{"write-on-closed-handle", "sibling-write", "read-on-closed-handle", "sibling-read", "addrport-handles", "done"},
					Cfg: func(c *HarnessCfg, tier int) { c.GoPolicy = "queue" }},
				{Fn: "verifC13AbortInterleaved", Lemma: "schedule exploration over the real writeToContext/writeTo/startWriteContext/finishWrite/abortWrite/clearWriteDeadlineAfterAbort and the lock-free state word (every atomic operation is a scheduling point): a context-bound write blocked in the socket, a concurrent plain write by another user, and the cancellation of the first context: under every schedule within the bound everybody returns (no deadlock/livelock), the state word returns to 0, the last deadline set on the shared socket is 'none', and a later write succeeds",
					Bounds: "threads: harness, 2 writers, canceller, the internal abort goroutine, connWorker; at most 2 preemptive context switches (3 was tried for the thorough tier and did not finish in 90 min: not claimed) at synchronisation-point granularity incl. every atomic load/CAS/store of the state word", MustReach: []string{"deadline-was-armed", "done"},
					Cfg: func(c *HarnessCfg, tier int) {
						c.GoPolicy = "explore"
						c.ContextBound = 2
						c.MaxPaths = 4000000
						c.MaxWallS = 1500
					}},
				{Fn: "verifC13AbortInterleavedAP", Lemma: "the same with the sibling writing through the AddrPort path (writeToUDPAddrPort on an AddrPort-capable socket): a sibling's write that starts after another user's cancelled write had the shared socket's deadline armed waits and then succeeds (one already in flight at that moment may share the blocked write's fate: it succeeds or times out); everybody returns, the state word is 0, the deadline is cleared, a later write succeeds",
					Bounds: "threads: harness, 2 writers, canceller, the internal abort goroutine, connWorker; at most 1 preemptive context switch (2 did not finish inside a 40-minute budget: not claimed) at synchronisation-point granularity (atomic operations included)", MustReach: []string{"addrport-sibling", "sibling-starts-during-or-after-the-abort", "deadline-was-armed", "done"},
					Cfg: func(c *HarnessCfg, tier int) {
						c.GoPolicy = "explore"
						c.ContextBound = 1
						c.MaxPaths = 6000000
						c.MaxWallS = 2400
					}},
				{Fn: "verifC13PendingRead", Lemma: "schedule exploration over the real sharedPacketConn.ReadFrom/readContext/Close and udpMuxedConn.readFromContext: closing a handle fails that handle's own pending (or just starting) read — with no read deadline, with a far read deadline armed on it, or with one armed on the sibling — while the sibling keeps the underlying connection open and still reads; closing the sibling does not disturb the pending read, which receives the next packet",
					Bounds: "2 handles of one ufrag, one reader goroutine, 3 deadline configurations x {close own handle, close sibling}; every schedule with at most 1 (thorough 2) preemptions at synchronisation points", MustReach: []string{"deadline-armed", "own-close", "sibling-close", "done"},
					Cfg: func(c *HarnessCfg, tier int) {
						c.GoPolicy = "explore"
						c.ContextBound = 1 + tier
						c.MaxPaths = 2000000
						c.MaxWallS = 900
					}},
				{Fn: "verifC13TwoPendingReads", Lemma: "schedule exploration over the real sharedPacketConn.ReadFrom/Close and udpMuxedConn.readPacket/writePacket: both handles have a read pending (or starting) when a datagram arrives while one handle is being closed: the wake-up is not lost with the closed handle — its read either took the datagram before the close reached it or fails, and the sibling's pending read gets the queued datagram; nothing stays queued and nobody stays asleep",
					Bounds: "2 handles of one ufrag, 2 readers, 1 closer, 1 datagram (+1 when the closed handle took the first), readers given 0..2 hand-overs to park; schedules with <= 1 preemption (both tiers); a select with several ready cases is a choice point", MustReach: []string{"closed-handle-took-it-first", "closed-handle's-read-failed", "done"},
					Cfg: func(c *HarnessCfg, tier int) {
						c.GoPolicy = "explore"
						c.ContextBound = 1
						c.MaxPaths = 3000000
						c.MaxWallS = 1200
					}},
				{Fn: "verifC13TCPSiblingWrite", Lemma: "TCP mux: two handles of one ufrag share a tcpPacketConn with an attached TCP connection; one user leaves — plainly, or the way candidateBase.abortIO does (SetDeadline(now), then Close) — and the sibling's writes to the peer still go out",
					Bounds: "one attached peer, symbolic payload, leave by Close or by SetDeadline(now)+Close; the fake connection fails writes once a write deadline at or before now is set", MustReach: []string{"abort-then-close", "done"},
					Cfg: func(c *HarnessCfg, tier int) { c.GoPolicy = "queue" }},
				{Fn: "verifC13GetAfterLastClose", Lemma: "schedule exploration over the real UDPMuxDefault.GetConn, the shared handle's Close and the close watcher: a connection handed out after the last handle of the previous one was closed is usable (a write through it succeeds), whether or not the watcher that unregisters the closed connection has run yet",
					Bounds: "one ufrag, 0..2 fair hand-overs between Close and GetConn, at most 1 (thorough 2) preemptions", MustReach: []string{"closed-conn-still-registered", "watcher-already-ran", "done"},
					Cfg: func(c *HarnessCfg, tier int) {
						c.GoPolicy = "explore"
						c.ContextBound = 1 + tier
						c.MaxPaths = 2000000
						c.MaxWallS = 900
					}},
				{Fn: "verifC13AbortProtocol", Lemma: "write-abort protocol at method granularity on the real startWriteContext/finishWrite/abortWrite: abort without a writer in flight touches neither the state word nor the socket; the last finishing writer clears an armed deadline and the word returns to 0; a failed arming clears the flags; the in-flight count is exact and never underflows; a write starting while an abort is pending does not enter; after all writers returned later writes enter and the last deadline set is 'none'",
					Bounds: "4 (quick) / 6 (thorough) calls from {start write, finish write, abort}, SetWriteDeadline succeeding or failing", MustReach: []string{"start-while-blocked", "last-writer-after-abort", "abort-noop", "arming-failed", "armed", "done"},
					Cfg: func(c *HarnessCfg, tier int) { c.GoPolicy = "queue" }},
			},
			Assumptions: append([]string{
				"method-atomic granularity: each protocol method runs to completion before the next starts; a spin-wait (runtime.Gosched loop) counts as blocked",
				"context.WithCancel executed as real code; goroutines take turns at operation boundaries",
			}, commonAssumptions...),
			Outside: "more than two concurrent writers, context bounds above 2 (3 thorough), the TCP mux flavour (its Close waits on goroutines)",
		},
		{
			ID: "C16",
			Harnesses: []HarnessSpec{
				{Fn: "verifC16Attrs", Lemma: "PRIORITY, ICE-CONTROLLING/CONTROLLED, AttrControl, USE-CANDIDATE, DTLS-in-STUN and its ACK: decode(encode(v)) = v through the real stun.Message.Add/Get; more than four ACKs rejected",
					Bounds: "all 32/64-bit values, 0..5 ACKs, payload 0..3 bytes", MustReach: []string{"acks-ok", "acks-too-many", "done"}},
				{Fn: "verifC16AttrSizes", Lemma: "decoders accept exactly the documented sizes (PRIORITY 4, tie-breaker 8, ACK multiples of 4 up to 16, nomination >= 4)",
					Bounds: "attribute values of every length 0..20 with arbitrary bytes", MustReach: []string{"done"}},
				{Fn: "verifC16Equality", Lemma: "Equal and DeepEqual are reflexive and symmetric and DeepEqual implies Equal, over pairs of candidates from the real constructors",
					Bounds: "4 types x 5 pool addresses (IPv4, IPv6, IPv4-mapped, mDNS) x udp/tcp x any port/component/priority x 4 TCP types x 3 related-address forms x 0..1 (thorough 0..2) one-byte extensions, for both candidates", MustReach: []string{"equal", "deep-equal", "mdns-resolved", "done"}},
				{Fn: "verifC16ExtensionEquality", Lemma: "DeepEqual of two candidates that differ only in their extension lists is reflexive, symmetric and equal to multiset equality of the (key, value) pairs (extension names may repeat, order is irrelevant); Equal ignores extensions",
					Bounds: "two host candidates with 2 (thorough: 2..3) extensions each, every key and value an arbitrary byte, so repeated names with equal or different values are included", MustReach: []string{"deep-equal", "not-deep-equal", "done"}},
				{Fn: "verifC16Tokenizers", Lemma: "the five tokenizers on arbitrary text from any start offset: no panic, returned positions within [start,len], tokens respect their alphabets, digit value = decimal value, port <= 65535",
					Bounds: "all byte strings (full UTF-8 decoding) of length 0..4 (quick) / 0..6 (thorough), every start offset", MustReach: []string{"digits", "done"}},
				{Fn: "verifC16Extensions", Lemma: "unmarshalCandidateExtensions(marshalExtensions(x)) = x incl. the tcptype pseudo-extension",
					Bounds: "0..2 (thorough 0..3) extensions with keys/values of 1..2 printable ASCII bytes (symbolic), any TCP type", MustReach: []string{"done"}},
				{Fn: "verifC16RoundTrip", Lemma: "UnmarshalCandidate(c.Marshal()) has the same component, priority, port, type, transport, address, TCP type, foundation, related address and is Equal to c",
					Bounds: "candidates as in verifC16Equality with symbolic port/component/priority/related port rendered through a symbolic %d (digit-count case split) and one symbolic extension", MustReach: []string{"related", "done"}},
				{Fn: "verifC16FoundationRoundTrip", Lemma: "an explicit foundation (any ice-chars) survives Marshal then UnmarshalCandidate byte for byte, with and without the optional candidate: prefix; the re-marshalled text is identical and the parsed candidate is Equal",
					Bounds: "foundations of 1..2 (thorough 1..3) symbolic ice-chars (ALPHA / DIGIT / + / /) on one host UDP IPv4 candidate", MustReach: []string{"prefixed", "done"}},
				{Fn: "verifC16ParseAny", Lemma: "UnmarshalCandidate on arbitrary text never panics; accepted text re-marshals to text that parses to an Equal candidate",
					Bounds: "three prefixes (two valid candidates, empty) followed by any 0..3 (thorough 0..5) bytes", MustReach: []string{"accepted", "done"}},
			},
			Assumptions: append([]string{
				"fmt.Sprintf modelled for %s/%d/%v (symbolic %d = exact decimal digits by case split on the digit count); CRC-32 uninterpreted",
				"netip.ParseAddr / strings functions executed as real code on concrete or partly symbolic text",
			}, commonAssumptions...),
			Outside: "arbitrary strings longer than the bounds; fmt internals; netip.ParseAddr on fully symbolic address text",
		},
		{
			ID: "C19",
			Harnesses: []HarnessSpec{
				{Fn: "verifC19Evaluate", Lemma: "differential: the real evaluateRewriteRules/ruleMappingForLookup/catchAllSpecificity on symbolic compiled rule lists returns exactly what the documented precedence (first explicit Local match, else most specific matching catch-all iface+CIDR > iface > CIDR > global with declaration order on ties, restricted to rules whose interface, CIDR and family match) returns: same rule, same mode, same family",
					Bounds: "2 (quick) / 3 (thorough) rules; per rule: interface absent or any 2-byte name, CIDR absent or any /8, explicit entry present/absent, per-family valid and catch-all flags and mode symbolic; lookup: 10.1.1.1, either family flag, interface '' or 'e0'", MustReach: []string{"no-match", "explicit", "catch-all", "done"}},
				{Fn: "verifC19EvaluateCatchAll4", Lemma: "same differential lemma for 4 catch-all rules (no explicit entries): specificity and declaration order", Bounds: "4 rules, interface/CIDR/flags/mode symbolic as above", MustReach: []string{"catch-all", "done"}, ThoroughOnly: true},
				{Fn: "verifC19Appliers", Lemma: "applyHostAddressRewrite, applyHostRewriteForUDPMux, resolveSrflxAddresses, resolveRelayAddresses: replace substitutes (empty list drops the candidate), append adds (empty list changes nothing), no match keeps the original; srflx emits only mapped addresses and replace mode switches STUN gathering off",
					Bounds: "one rule, 0..2 external addresses, both modes, matching / not matching, three candidate types", MustReach: []string{"host", "srflx", "relay", "identity-mapping", "done"}},
				{Fn: "verifC19Compile", Lemma: "end to end (real newAddressRewriteMapper + findExternalIPs): rules written as External/Local/Networks/Mode apply only to the address, IP family and networks they name — a catch-all to the family of its external addresses, an empty rule to every family its Networks allow and to no other, a Local rule to exactly that address; first explicit match wins, else the first catch-all; the winning rule's mode and addresses are returned",
					Bounds: "2 host rules, each External in {none, IPv4, IPv6, both} x Local in {none, the IPv4 lookup address, the IPv6 one} x Networks in {all, IPv4 only, IPv6 only} x Mode; lookups for one IPv4 and one IPv6 address without interface (2592 rule sets, concrete text)", MustReach: []string{"matched", "unmatched", "empty-rule", "done"}},
				{Fn: "verifC19CIDRNetworks", Lemma: "a catch-all scoped by CIDR and restricted by Networks, end to end (newAddressRewriteMapper + findExternalIPs): it applies to a local address iff the CIDR contains the address AND Networks allows its family — a CIDR never lifts a Networks restriction, an address outside the CIDR is untouched; with an empty External list 'applies' means drop",
					Bounds: "1 rule: CIDR 10.0.0.0/24 or fd00::/64 x Networks none / IPv4-only / IPv6-only x External same-family address or empty; lookups inside and outside each CIDR, both families", MustReach: []string{"applies", "networks-exclude-the-CIDR's-family", "done"}},
				{Fn: "verifC19Legacy", Lemma: "legacy NAT1To1IPs lists through the real validateLegacyNAT1To1IPs: rejected iff an entry is malformed or two catch-alls of the same IP family occur, whatever the order",
					Bounds: "lists of 2..3 entries from a pool of 10 (IPv4/IPv6 catch-alls, external/local pairs, malformed, padded, empty), concrete text", MustReach: []string{"rejected", "accepted", "done"}},
				{Fn: "verifC19Construct", Lemma: "newAddressRewriteMapper rejects invalid rule sets (bad IP, external with prefix, Local outside CIDR, bad CIDR, peer-reflexive type) and accepts valid ones; catch-alls never cross IP families",
					Bounds: "all ordered pairs from a pool of 10 concrete rules", MustReach: []string{"valid", "invalid", "done"}},
			},
			Assumptions: append([]string{
				"net.ParseIP / ParseCIDR / IP.String on concrete text evaluated natively or as real code; rule text validation is only exercised on the concrete pool",
			}, commonAssumptions...),
			Outside: "IP/CIDR text validation beyond the concrete pool; legacy NAT1To1 string syntax; more than 4 rules",
		},
		{
			ID: "C06",
			Harnesses: []HarnessSpec{
				{Fn: "verifC06AddRemote", Lemma: "public AddRemoteCandidate with every kind of trickled candidate (new host/srflx, duplicate, signalled candidate superseding a peer-reflexive one, TCP-active, nil) preserves the bookkeeping invariant I1-I5 (no pair twice, ids unique/in range/indexed, pairs formed from current candidates of one network type, selected listed, remotes deduplicated/never TCP-active/accepted by the IP filter); a superseded peer-reflexive candidate's pairs keep id, state, flags, priority and the selection",
					Bounds: "2 local + 1 host + 1 prflx remote, symbolic pair states/flags, selection nil/any, remote IP filter rejecting one symbolic last octet, 6 candidate kinds", MustReach: []string{"filtered", "added", "duplicate", "supersedes-prflx", "ignored", "mdns-resolved-to-the-prflx-address", "done"},
					Cfg: func(c *HarnessCfg, tier int) { c.GoRunMatch = "AddRemoteCandidate$1" }},
				{Fn: "verifC06PrflxThenSignalled", Lemma: "signalled-then-prflx order: an authenticated request from a signalled candidate's address creates no duplicate remote and no second pair — also when that candidate is an mDNS name resolved in plain or IPv4-mapped form and the request's source is either form of the address", Bounds: "1+1 candidates (+1 mDNS candidate), symbolic tie-breaker/priority, 2x2 address forms", MustReach: []string{"mdns-resolved", "done"}},
				{Fn: "verifC06InboundUnknown", Lemma: "authenticated request from an unknown source: the peer-reflexive candidate passes through the remote IP filter (filtered => nothing changes at all) and the invariant holds",
					Bounds: "2 local + 1 remote, two unknown source addresses, filter rejecting one symbolic last octet", MustReach: []string{"filtered", "discovered", "done"}},
				{Fn: "verifC06AddLocal", Lemma: "local candidate arrival (real addCandidate): new => paired with every remote and published once; duplicate => rejected, its socket closed once, not published; invariant holds",
					Bounds: "1 local + 2 remotes, new/duplicate", MustReach: []string{"duplicate", "new", "done"}},
				{Fn: "verifC06ContinualGathering", Lemma: "continual gathering: the interface monitor belongs to the gathering cycle that started it — through the real loop, GatherCandidates, gather goroutine, startNetworkMonitoring and its ticker: after Restart or Failed a new local address appears and the ticker fires, and the ended generation's monitor gathers nothing for the next one (no local candidate, no socket opened, every socket closed), and no goroutine is left after Close",
					Bounds: "one IPv4 interface, a second one appearing after Restart/Failed, 2 ticker ticks, host candidates only; schedules with 0 preemptions and the first 2 free switches", MustReach: []string{"restart", "failed", "monitor-alive", "done"},
					Cfg: func(c *HarnessCfg, tier int) {
						c.GoPolicy = "explore"
						c.ContextBound = tier
						c.FreeChoiceBound = 2 + tier
						c.MaxPaths = 2000000
						c.MaxWallS = 1200
					}},
				{Fn: "verifC06RestartAndFailed", Lemma: "Restart and the Failed transition leave no pairs, index entries, candidates, selection or outstanding transactions; the pair id counter is not reset",
					Bounds: "2+2 candidates, 4 pairs, a selection and an outstanding transaction; local candidates bare or started (receive loops), the first socket's Close succeeding or reporting an error", MustReach: []string{"restart", "failed", "socket-close-fails", "candidate-outside-configured-network-types", "done"},
					Cfg: func(c *HarnessCfg, tier int) { c.GoPolicy = "queue" }},
			},
			Assumptions: append([]string{
				"integrity contract; taskloop.Run by contract (C10 assumed); the goroutine spawned by AddRemoteCandidate runs to completion immediately",
				"remote IP filter = predicate on the address (rejects one last octet)",
			}, commonAssumptions...),
			Outside: "passive-TCP remotes (open active sockets), mDNS resolution, interleavings of trickle with checks beyond one step",
		},
		{
			ID: "C07",
			Harnesses: []HarnessSpec{
				{Fn: "verifC07Write", Lemma: "Conn.Write: closed agent or STUN-looking payload => error and nothing sent; otherwise exactly one datagram with the same bytes leaves through the local socket of the selected pair (without selection: of a maximum-priority Succeeded pair; none => ErrNoCandidatePairs) to that pair's remote address; byte and per-pair counters advance by exactly (n, 1, n) iff n > 0",
					Bounds: "2 local x 1 remote pairs with symbolic states and priorities 1..256, selection nil/any, payload lengths {0,1,19,20,24} with all bytes symbolic (covers the STUN cookie window), per-socket outcome ok/error/ErrClosedPipe, open/closed agent", MustReach: []string{"closed", "stun-like", "no-valid-pair", "socket-error", "sent", "done"}},
				{Fn: "verifC07WriteToPair", Lemma: "Conn.WriteToPair: unknown id or not-Succeeded pair => its error and nothing sent; else one datagram on that pair with the same bytes; counters",
					Bounds: "any 64-bit id, symbolic pair states, payload lengths {1,19,20,24}", MustReach: []string{"unknown-id", "not-succeeded", "sent", "done"}},
				{Fn: "verifC07Inbound", Lemma: "non-STUN datagram at a local candidate: reaches the reader exactly once and byte-identical iff its source is (cached as) a known remote of the same transport and the agent could vouch for it (a datagram that arrives while the loop is closed or the candidate is being torn down is dropped unless the candidate's cache holds its source); otherwise dropped with no state change; cache entries only map an address to the current remote with that address; Read adds exactly the returned n; each delivered datagram (the first and the cache-answered next one) refreshes the sender's LastReceived and no other remote's",
					Bounds: "1 local + 2 UDP remotes + 1 TCP remote with another address, source = any IPv4 address:port / the TCP remote / IPv4-mapped remote, cache empty or pre-filled, agent loop open / closed / local candidate being torn down (context done, receive loop still running), payload lengths {1,19,20,24}", MustReach: []string{"unknown-source", "known-source", "loop-closed", "candidate-closing", "done"}},
				{Fn: "verifC07InboundSTUN", Lemma: "STUN-looking datagrams (header-only, any type/transaction id) at the socket (handleInboundPacket) never reach the reader buffer and, carrying no credentials, change nothing — liveness instants included, also when the source is in the per-candidate data cache; only an indication may refresh liveness",
					Bounds: "20-byte header with the magic cookie, symbolic type and transaction id, source = the known remote or any IPv4 address, cache empty or holding the remote", MustReach: []string{"source-cached", "indication", "done"}},
			},
			Assumptions: append([]string{
				"sockets are recording fakes with nondeterministic outcomes (ok / error / io.ErrClosedPipe); packetio.Buffer and sync.Map: real code / sequential model",
				"taskloop.Run by contract (C10 assumed)",
			}, commonAssumptions...),
			Outside: "delivery at the peer (needs the network); re-selection races; payloads beyond the listed lengths (content is symbolic, lengths are case-split)",
		},
		{
			ID: "C04",
			Harnesses: []HarnessSpec{
				{Fn: "verifC04TimingFn", Lemma: "connectionStateForDisconnection == oracle(silence, disconnected timeout, failed timeout, current state); zero disables either; Connected->Failed directly only with the disconnected timeout disabled",
					Bounds: "all durations in [0, 2^62) for both timeouts and the silence, all 7 current states", MustReach: []string{"done"}},
				{Fn: "verifC04Validate", Lemma: "validateSelectedPair: state after = oracle(silence) (outside a 100 ms band above each threshold), one notification iff changed, Failed releases pairs/transactions/selection/candidates and is reached from Connected only with the disconnected timeout disabled",
					Bounds: "timeouts 0..1 h, silence 1 ms..3 h (symbolic), current state Connected/Disconnected, 1+1 candidates", MustReach: []string{"failed", "done"}},
				{Fn: "verifC04InitialDeadline", Lemma: "initial checking deadline = 0 iff failed timeout 0, else (disconnected timeout, or the 5 s full-agent default for a lite agent without explicit timeout) + failed timeout",
					Bounds: "all durations in [0, 2^62), lite/explicit flags", MustReach: []string{"done"}},
				{Fn: "verifC04DeadlineRearm", Lemma: "the initial checking deadline counts from entering Checking, and again from the Restart that re-enters it: through the real connectivityChecks loop (its closure state included) an agent without a pair fails once disconnected+failed has elapsed, Restart returns it to Checking, the next ticks leave it Checking until a full deadline has elapsed once more, then it fails again",
					Bounds: "deadline 100 ms + 100 ms, clock advanced by 300 / 120 / 150 ms between harness-driven ticks (engine: symbolic clock jumps; native replay: real sleeps), one Restart", MustReach: []string{"failed-on-deadline", "done"},
					Cfg: func(c *HarnessCfg, tier int) { c.GoPolicy = "queue" }},
				{Fn: "verifC04FailedIsTerminal", Lemma: "Failed is left only through Restart or Close: a gathering cycle that was running when the agent failed hands its host candidate over afterwards, the peer trickles a candidate and nominates the pair with authenticated messages: the failed agent takes no candidate and stays Failed",
					Bounds: "controlled full agent, one late host candidate, one trickled remote candidate, one nominating request and the matched response of the triggered check", MustReach: []string{"late-candidate-refused", "done"}},
				{Fn: "verifC04ConfigTimeouts", Lemma: "from AgentConfig to the thresholds: through the real initWithDefaults and the lite default, an absent timeout is the default (10 s disconnected for lite agents), an explicit one — zero included, which disables the transition, for lite agents too — is taken as given; the liveness decision then equals the oracle on the configured thresholds for all silences",
					Bounds: "lite or full, each timeout absent / zero / any value up to 1 h, silence up to 3 h", MustReach: []string{"disconnected-disabled", "done"}},
				{Fn: "verifC07Inbound", Lemma: "what ends the silence: every delivered data datagram of the remote (first one through the agent, later ones through the per-candidate cache) refreshes that remote's LastReceived, and no other remote's",
					Bounds: "1 local + 2 UDP remotes + 1 TCP remote, cache empty or pre-filled, two consecutive datagrams, payload lengths {1,19,20,24}", MustReach: []string{"known-source", "done"}},
				{Fn: "verifC04Tick", Lemma: "1..2 check ticks through the real connectivityChecks loop: every notified transition is an edge of the lifecycle graph without repeats, Connected/Disconnected only with a selected pair, a tick while Failed changes nothing, Checking->Failed only with a deadline, Failed releases everything",
					Bounds: "start states Checking/Connected/Disconnected/Failed, timeouts {default, 0, 1 ns}, silence 1 ms..1 min, 1..2 ticks, both roles", MustReach: []string{"failed-stays", "checking->failed", "->failed", "done"}},
				{Fn: "verifC04Update", Lemma: "updateConnectionState: exactly one notification carrying the new state iff it changed; the Failed notification is enqueued after the release",
					Bounds: "all (current, next) state pairs, with/without selection", MustReach: []string{"changed", "handler-ran", "done"},
					Cfg: func(c *HarnessCfg, tier int) { c.GoRunMatch = "EnqueueConnectionState$1" }},
				{Fn: "verifC04Restart", Lemma: "Restart: Connected/Disconnected/Failed/Checking -> Checking, New stays New, one notification iff changed",
					Bounds: "5 start states", MustReach: []string{"done"}},
			},
			Assumptions: append([]string{
				"clock: arbitrary monotonic readings, successive readings <= 1 ms apart inside a step; thresholds asserted outside a 100 ms band",
				"time.Timer channels fire a scripted number of times (tick count is the bound); taskloop.Run by contract (C10 assumed)",
				"dt+ft < 2^63 (durations below 2^62)",
			}, commonAssumptions...),
			Outside: "delivery order of the notifier goroutines (C11), 'nothing after Closed' (needs C10), histories longer than 2 ticks from the stated start states",
		},
		{
			ID: "C03",
			Harnesses: []HarnessSpec{
				{Fn: "verifC06AddRemote", Lemma: "lemma (A): signalling selects nothing. AddRemoteCandidate with every kind of trickled candidate — the replacement of a peer-reflexive candidate included, whose pairs may carry a stale nominated flag or a nomination still in flight — leaves the selection where it was: it only follows the selected pair into its replacement, and no other pair becomes selected",
					Bounds: "2 local + 1 host + 1 prflx remote, symbolic pair states/flags (nominated included), selection nil/any, 6 candidate kinds", MustReach: []string{"supersedes-prflx", "done"},
					Cfg: func(c *HarnessCfg, tier int) { c.GoRunMatch = "AddRemoteCandidate$1" }},
				{Fn: "verifC17PairPriority", Lemma: "lemma (P) under every selection guard: the pair priorities they compare are the exact RFC 8445 value (2^32-1)*min + 2*max + [g>d] for ALL 32-bit candidate priorities (peer-chosen ones reach 2^32-1; the step harnesses below range over 1..256 only), without 64-bit overflow",
					Bounds: "all 2^32 x 2^32 (g,d) >= 1, both roles", MustReach: []string{"done"}},
				{Fn: "verifC17PairMonotone", Lemma: "lemma (P'): pair priority is monotone in each argument and a higher min dominates, so 'strictly lower priority' between pairs is what the guards see",
					Bounds: "all (g1,d1) <= (g2,d2) componentwise over 32-bit priorities", MustReach: []string{"done"}},
				{Fn: "verifC03Controlling", Lemma: "controlling full agent: one authenticated Binding request or success response into the real handleInbound: selection invariant (selected => listed, Succeeded, nominated) preserved; a pair becomes Succeeded only on its own matched response (lite controlled: or on an authenticated nomination); controlling selects only on a matched response whose request carried USE-CANDIDATE; controlled selects on a request only with USE-CANDIDATE/nomination on that very pair and on a response only for a pair nominated earlier; a controlled agent never emits USE-CANDIDATE, a lite controlled agent never emits requests; plain USE-CANDIDATE never lowers the selected priority when priorities are checked",
					Bounds: "2 local + 1 remote UDP candidates, symbolic pair states/flags, candidate priorities 1..256, selection nil or any pair, 0..1 (thorough 0..2) outstanding transactions, nomination attribute absent/valid(/short in thorough)", MustReach: []string{"pair-became-succeeded", "selection-changed", "controlling-selected", "done"}},
				{Fn: "verifC03Controlled", Lemma: "controlled full agent: same lemma set",
					Bounds: "as verifC03Controlling", MustReach: []string{"pair-became-succeeded", "selection-changed", "controlled-selected-on-request", "controlled-selected-on-response", "plain-nomination-switch", "nomination-deferred", "done"}},
				{Fn: "verifC03Lite", Lemma: "lite agent (both roles, with and without the priority-check flag): same lemma set",
					Bounds: "1 (thorough 2) local + 1 remote, 0..1 outstanding transaction", MustReach: []string{"pair-became-succeeded", "selection-changed", "done"}},
				{Fn: "verifC03DeferredPlain", Lemma: "two steps, controlled full agent (with or without an earlier accepted renomination): a plain USE-CANDIDATE on a not-yet-valid lower-priority pair, then its matched response: the selection stays on the higher-priority pair",
					Bounds: "2 pairs, priorities 1..256, stored renomination value any 24 bits or absent", MustReach: []string{"after-renomination", "done"}},
				{Fn: "verifC03Tick", Lemma: "one ContactCandidates tick: never changes the selection, preserves the invariant, USE-CANDIDATE only from a controlling agent on a Succeeded pair, lite controlled emits no request, recorded transaction flags equal the datagram's",
					Bounds: "2 local + 1 remote, full and lite, both roles, symbolic pair states and request counts", MustReach: []string{"nomination-sent", "disconnected", "done"}},
			},
			Assumptions: append([]string{
				"MESSAGE-INTEGRITY contract (tag injective in key); CRC uninterpreted; transaction ids/clock arbitrary (clock steps <= 1 ms inside a step)",
				"ghost field: each outstanding transaction remembers the local candidate that sent it (bindingRequest does not record it)",
				"no application binding-request handler (as the property states)",
			}, commonAssumptions...),
			Outside: "histories beyond one step from the bounded pre-state; TCP candidates; automatic renomination (float scoring)",
		},
		{
			ID: "C20",
			Harnesses: []HarnessSpec{
				{Fn: "verifC06AddRemote", Lemma: "a renomination deferred on a not-yet-valid peer-reflexive pair survives the trickle of that candidate: the replacement pair keeps the deferred flag AND its nomination value (and id, state, selection), so the later success response still applies the value that was accepted",
					Bounds: "2 local + 1 host + 1 prflx remote, symbolic pair states/flags and deferred values, selection nil/any, 6 candidate kinds", MustReach: []string{"supersedes-prflx", "done"},
					Cfg: func(c *HarnessCfg, tier int) { c.GoRunMatch = "AddRemoteCandidate$1" }},
				{Fn: "verifC20AcceptSequence", Lemma: "for any sequence of nominations the i-th is accepted iff it has no value or exceeds every accepted value; the stored maximum is the last accepted",
					Bounds: "sequences of 3 (quick) / 4 (thorough) nominations, each valued (any 32-bit value) or plain", MustReach: []string{"done"}},
				{Fn: "verifC20Controlled", Lemma: "controlled agent, one authenticated request: an accepted valued nomination on a valid pair selects it whatever the priorities, on a not-yet-valid pair it is deferred; a stale value changes neither selection, flags nor the stored maximum and is still answered",
					Bounds: "2 local + 1 remote, symbolic pair states/priorities/selection/stored maximum, 0..1 outstanding transaction", MustReach: []string{"nomination-accepted", "accepted-on-valid-pair", "nomination-rejected", "done"}},
				{Fn: "verifC20Controlling", Lemma: "controlling agent, one authenticated success response: a matched response to a valued nomination always switches, to a plain one only when nothing is selected",
					Bounds: "1 (quick) / 2 (thorough) local + 1 remote, 0..2 outstanding transactions with optional 24-bit values", MustReach: []string{"controlling-nomination-response", "valued", "done"}},
				{Fn: "verifC20Deferred", Lemma: "two steps: accepted nomination on a not-yet-valid pair, then its matched response => that pair is selected whatever the priorities",
					Bounds: "2 pairs, symbolic priorities and nomination values (24 bit)", MustReach: []string{"done"}},
				{Fn: "verifC20DeferredSuperseded", Lemma: "three steps through the real handlers on a controlled agent: value v1 arrives on a not-yet-valid pair B (deferred), value v2 on the valid pair A, then B's own check succeeds: for all values and priorities the final selection is the pair of the greater value — A if v2 > v1 (a superseded deferred nomination does not take the selection back), B otherwise",
					Bounds: "2 local + 1 remote candidates, 24-bit values, priorities 1..256", MustReach: []string{"superseded", "stale-second", "done"}},
				{Fn: "verifC20DeferredRearmed", Lemma: "the same not-yet-valid pair B is nominated twice through the real handlers (v1, optionally v2 on the valid pair A in between, then v3 > both on B): the deferred nomination B carries is the latest accepted value, and when B's check succeeds the controlled agent selects B — the pair of the highest value issued",
					Bounds: "2 local + 1 remote candidates, 24-bit values, priorities 1..256, with and without the nomination in between", MustReach: []string{"other-pair-in-between", "done"}},
				{Fn: "verifC20ControllingReorder", Lemma: "the controlling side renominates pair A (value v) and then pair B (value v+1) through the real RenominateCandidate; the two authenticated success responses arrive in order or reordered (the older one last): afterwards it sits on B, the pair of the highest value it issued",
					Bounds: "2 local + 1 remote candidates, any 24-bit starting value, priorities 1..256, both arrival orders", MustReach: []string{"in-order", "reordered", "done"}},
				{Fn: "verifC20DeferredConsumedOnce", Lemma: "five steps through the real handlers on a controlled agent: a plain USE-CANDIDATE on not-yet-valid P is deferred; P's check succeeds and P is selected; a tick sends a keepalive on P; the peer renominates the valid pair Q and the agent follows; the keepalive's response arrives late: the selection stays on Q for all priorities and values (the deferred nomination was consumed when P became valid)",
					Bounds: "2 local + 1 remote candidates, priorities 1..256, 16-bit nomination value", MustReach: []string{"done"}},
				{Fn: "verifC20Renominate", Lemma: "RenominateCandidate: controlled or feature-off => error and nothing sent; otherwise one request with USE-CANDIDATE and the generator's value, recorded with it",
					Bounds: "both roles x feature on/off, any 32-bit generator value", MustReach: []string{"renominated", "valued", "done"}},
				{Fn: "verifC20Codec", Lemma: "nomination values below 2^24 survive encode/decode", Bounds: "all 32-bit values", MustReach: []string{"done"}},
			},
			Assumptions: append([]string{
				"MESSAGE-INTEGRITY contract (tag injective in key); CRC uninterpreted; transaction ids/clock arbitrary",
			}, commonAssumptions...),
			Outside: "'both agents end on the mirror-image pair' (two live agents); automatic renomination",
		},
		{
			ID: "C02",
			Harnesses: []HarnessSpec{
				{Fn: "verifC02Inbound", Lemma: "one STUN message of any class/method into the real handleInbound from a symbolic pre-state: non-Binding and error responses, requests with a wrong/absent USERNAME or an integrity not under the local password, responses not under the remote password or from an unknown source change nothing observable (datagrams, candidates, pairs, selection, state, role, timestamps, callbacks, transactions); a signed response changes pair state only for an outstanding (<4 s), same-transport, same-address transaction and only on the pair (receiving local, source remote); an indication can only refresh the known remote's last-received",
					Bounds:    "quick: 1 local + 1 remote UDP candidate, thorough: 2 locals + 1 remote and lite agents (2+2 exhausted a 45 min budget at 148 k paths and is not claimed); pair state/flags symbolic, selection nil or any pair, 0..2 outstanding transactions with symbolic id/age(0..20 s)/destination/transport; message: 4 classes, Binding or any 12-bit method, USERNAME absent/correct/arbitrary 9 bytes/arbitrary 8 bytes, integrity absent/local/remote/other key, USE-CANDIDATE, role attribute, 32-bit priority, arbitrary 96-bit transaction id; source = remote, its IPv4-mapped form, or any IPv4 address:port",
					MustReach: []string{"not-handled", "request-unauthenticated", "request-authenticated", "response-bad-integrity", "response-unknown-source", "response-authenticated", "response-changed-pair-state", "indication", "indication-unknown-source", "done"}},
				{Fn: "verifC07InboundSTUN", Lemma: "from the socket, not only from handleInbound: STUN-looking datagrams (header-only, any type/transaction id) at the socket (handleInboundPacket) never reach the reader buffer and, carrying no credentials, change nothing — liveness instants included, also when the source is in the per-candidate data cache; only an indication may refresh liveness",
					Bounds: "20-byte header with the magic cookie, symbolic type and transaction id, source = the known remote or any IPv4 address, cache empty or holding the remote", MustReach: []string{"source-cached", "indication", "done"}},
				{Fn: "verifC05Late487", Lemma: "the roles are settled by the requests alone: a correctly signed Binding error response (487 Role Conflict or 400) that answers an outstanding check, from the address the check went to, changes nothing at its receiver — role, selector, pairs, selection, transactions, liveness — so an agent that already gave way to the peer's conflicting request is not flipped back by the late 487 to a check it sent before",
					Bounds: "both roles, any 64-bit tie-breaker, symbolic pair states, 96-bit transaction id, plain or USE-CANDIDATE check outstanding", MustReach: []string{"done"}},
				{Fn: "verifC02AfterRestart", Lemma: "real Restart, then a request signed for the old generation or a response to an old transaction under the old remote password: nothing changes",
					Bounds: "1 local + 1 remote, both roles, both message kinds", MustReach: []string{"done"}},
				{Fn: "verifC02TrailingAttributes", Lemma: "attributes that follow MESSAGE-INTEGRITY are not authenticated (anyone on the path can append them to a genuine request; RFC 5389 §15.4: MUST be ignored, FINGERPRINT excepted): a correctly signed plain Binding request with USE-CANDIDATE, a nomination value and/or a role attribute (the peer's or the receiver's own) appended behind MESSAGE-INTEGRITY is handled exactly like the plain check: answered, but no role switch, no selection, no nomination recorded, stored nomination value untouched",
					Bounds: "1 local + 1 remote, both roles, symbolic pair state/flags/selection, every combination of the three appended attributes, 24-bit value, 64-bit tie-breakers", MustReach: []string{"appended", "nothing-appended", "done"}},
			},
			Assumptions: append([]string{
				"MESSAGE-INTEGRITY is a contract: the tag is an injective function of the key (valid under k1 and k2 implies k1 = k2); HMAC-SHA1 itself is not encoded",
				"CRC-32 (FINGERPRINT) uninterpreted; transaction ids and clock readings arbitrary, successive clock readings within one step at most 1 ms apart",
				"message enters at Agent.handleInbound (after stun.Message.Decode, which belongs to pion/stun); taskloop.Run modelled by its contract (C10 assumed)",
				"agent credentials are concrete strings; the message's USERNAME bytes are symbolic",
			}, commonAssumptions...),
			Outside: "message bytes -> Decode; TCP candidates; IPv6 zones; histories longer than one step from the bounded pre-state (the lemmas are inductive over the stated pre-state family)",
		},
		{
			ID: "C05",
			Harnesses: []HarnessSpec{
				{Fn: "verifC05RoleConflict", Lemma: "one authenticated Binding request into the real handleInbound: conflict iff the claimed role equals the own role; on conflict the role is kept and a 487 Binding error echoing the transaction id is sent iff (controlling and local>=remote) or (controlled and local<remote), otherwise the role flips, the selector is replaced and nothing is sent; never a success response, pair change, selection or new candidate; without conflict the request is answered",
					Bounds: "all 2^64 x 2^64 (local, remote) tie-breakers, both own roles, attribute kinds {none, controlling, controlled, both}, with/without USE-CANDIDATE; 1 local + 1 remote UDP candidate, full agent", MustReach: []string{"conflict", "487", "switch", "no-conflict", "unknown-source", "done"}},
				{Fn: "verifC05Late487", Lemma: "the roles are settled by the requests alone: a correctly signed Binding error response (487 Role Conflict or 400) that answers an outstanding check, from the address the check went to, changes nothing at its receiver — role, selector, pairs, selection, transactions, liveness — so an agent that already gave way to the peer's conflicting request is not flipped back by the late 487 to a check it sent before",
					Bounds: "both roles, any 64-bit tie-breaker, symbolic pair states, 96-bit transaction id, plain or USE-CANDIDATE check outstanding", MustReach: []string{"done"}},
				{Fn: "verifC05RoleAtStart", Lemma: "the started role reaches the pairs that exist already: pairs formed while the agent still had its default role (candidates exchanged before Dial/Accept) compute their priority for the role the agent is started in — the value the peer computes for the mirrored pair",
					Bounds: "1+1 candidates with any 31-bit priorities, started controlling or controlled, through the real startConnectivityChecks task", MustReach: []string{"started-controlling", "done"}},
				{Fn: "verifC05Pairwise", Lemma: "two agents in the same role with distinct tie-breakers: exactly one of the two cross-handled requests makes its receiver switch",
					Bounds: "all distinct 64-bit tie-breaker pairs, both same-role starts", MustReach: []string{"done"}},
			},
			Assumptions: append([]string{
				"MESSAGE-INTEGRITY is a contract: the tag is an injective function of the key (valid under k1 and k2 implies k1 = k2); HMAC-SHA1 itself is not encoded",
				"CRC-32 (FINGERPRINT) uninterpreted; transaction ids and clock readings are arbitrary values",
				"message enters at Agent.handleInbound (after stun.Message.Decode, which belongs to pion/stun)",
			}, commonAssumptions...),
			Outside: "message orderings between two live agents; the consequence 'after which C01 holds'; lite agents",
		},
		{
			ID: "C14",
			Harnesses: []HarnessSpec{
				{Fn: "verifC14Read", Lemma: "one readStreamingPacket call on an arbitrary byte stream: returns exactly be16(header) body bytes, consumes 2+length, never requests bytes beyond the frame, ErrShortBuffer without reading the body when the frame exceeds cap(buf), every read error/EOF/truncation yields an error and no packet, no panic",
					Bounds: "all streams of 0..7 bytes (quick) / 0..9 (thorough) with arbitrary content incl. the header, every partition into read chunks, buffer cap 0..5 / 0..7 and len<=cap, an injected read error at any read index", MustReach: []string{"packet-read", "short-buffer", "error", "injected-error-hit", "done"}},
				{Fn: "verifC14Write", Lemma: "writeStreamingPacket: exactly one Write, header = be16(len), body identical, returns len; a write error propagates",
					Bounds: "payload length 0..4 (quick) / 0..6 (thorough), arbitrary bytes", MustReach: []string{"write-error", "done"}},
				{Fn: "verifC14WriteLarge", Lemma: "lengths at the 16-bit boundary: <= 65535 framed correctly, > 65535 refused and never framed with a wrapped header",
					Bounds: "lengths {255,256,8192,65535,65536,65537,70000,131072} (case split), first/last byte symbolic", MustReach: []string{"fits", "too-long", "done"}},
				{Fn: "verifC14RoundTrip", Lemma: "k packets through the real writer then the real reader under every chunking: same sequence and contents, then EOF",
					Bounds: "k <= 2 packets of 0..2 (quick) / 0..3 (thorough) bytes, every chunking", MustReach: []string{"done"}},
				{Fn: "verifC14StartReading", Lemma: "tcpPacketConn.startReading + readFromContext: frames become packets in order with the peer address; a truncated tail ends in an error packet; the stream is closed and removed",
					Bounds: "0..2 frames of 0..2 bytes, three tail shapes (none, half header, truncated body), every chunking", MustReach: []string{"oversized-frame", "short-len-buffer", "frame-longer-than-the-read-buffer", "done"}},
				{Fn: "verifC14BufferedWrite", Lemma: "with a write buffer between the packet conn and the TCP connection (the real bufferedConn and its writeProcess goroutine over the real packetio.Buffer) every packet the framing layer accepts is forwarded to the connection exactly once as the same frame, packets at the receive MTU included, and later packets keep their order",
					Bounds: "payloads of 5, 8190, 8191 and 8192 bytes (first and last byte symbolic) followed by a 4-byte packet", MustReach: []string{"mtu-sized", "done"},
					Cfg: func(c *HarnessCfg, tier int) { c.GoPolicy = "queue"; c.MaxAlloc = 1 << 20 }},
			},
			Assumptions: append([]string{
				"net.Conn.Read contract: returns 1..len(p) bytes, or an error; never (0,nil) for a non-empty buffer",
				"fake conn delivers exactly the bytes of the symbolic stream (TCP is reliable and ordered)",
			}, commonAssumptions...),
			Outside: "lengths beyond the listed case splits (length arithmetic is concrete per path, not symbolic); activeTCPConn goroutines; OS-level TCP; concurrent readers",
		},
		{
			ID: "C17",
			Harnesses: []HarnessSpec{
				{Fn: "verifC17CandidatePriority", Lemma: "candidate priority = 2^24*tp + 2^8*lp + (256-component) with tp/lp from independent RFC tables; tp in 0..126; priority in 1..2^31-1",
					Bounds: "all candidate types x network types x TCP types x 5 relay protocols x every 16-bit TCP offset x components 1..256 x agent present/absent (fully symbolic, no sampling)", MustReach: []string{"with-agent", "done"}},
				{Fn: "verifC17PairPriority", Lemma: "pair priority = (2^32-1)*min + 2*max + [g>d], no 64-bit overflow, equal on the mirrored pair of the peer",
					Bounds: "all 2^32 x 2^32 (g,d) >= 1, both roles", MustReach: []string{"done"}},
				{Fn: "verifC17PairMonotone", Lemma: "pair priority is monotone in each argument; a higher min dominates",
					Bounds: "all (g1,d1) <= (g2,d2) componentwise over 32-bit priorities", MustReach: []string{"done"}},
				{Fn: "verifC05RoleConflict", Lemma: "the pair priority follows the role: through the real handleInbound/handleRoleConflict, pairs whose priority was read before a role switch report the formula's value for the NEW role afterwards (G and D swapped, tie bit included) — equal to what the peer computes for the mirrored pair",
					Bounds: "1+1 candidates, both roles, all 2^64 x 2^64 tie-breaker pairs, symbolic pair states", MustReach: []string{"switch", "done"}},
				{Fn: "verifC05RoleAtStart", Lemma: "the started role reaches the pairs that exist already: pairs formed while the agent still had its default role (candidates exchanged before Dial/Accept) compute their priority for the role the agent is started in — the value the peer computes for the mirrored pair",
					Bounds: "1+1 candidates with any 31-bit priorities, started controlling or controlled, through the real startConnectivityChecks task", MustReach: []string{"started-controlling", "done"}},
				{Fn: "verifC17Foundation", Lemma: "foundation equal iff (type, address, network type) equal, CRC-32 uninterpreted and assumed collision-free on the compared inputs",
					Bounds: "address strings of length 0..2 (quick) / 0..4 (thorough), arbitrary bytes; all types and network types", MustReach: []string{"done"},
					Cfg: func(c *HarnessCfg, tier int) { c.CRCInjective = true }},
			},
			Assumptions: append([]string{
				"hash/crc32.ChecksumIEEE is an uninterpreted function, injective on the inputs compared within one path (the property is stated up to CRC-32 collisions)",
				"fmt.Sprintf(\"%d\", x) is an injective rendering of x",
				"component IDs restricted to 1..256 (RFC 8445 §5.1.1)",
			}, commonAssumptions...),
			Outside: "priorityOverride/foundationOverride paths (explicit user values); relatedAddress in foundation is not part of the property",
		},
	}
}
