package main

// Registry of checks: which harness functions decide which property, with the
// bounds and assumptions that are part of each claim.

type HarnessSpec struct {
	Fn           string
	Lemma        string
	Bounds       string
	MustReach    []string
	ThoroughOnly bool
	Cfg          func(c *HarnessCfg, tier int)
}

type CheckSpec struct {
	ID          string
	Harnesses   []HarnessSpec
	Assumptions []string
	Outside     string
}

var commonAssumptions = []string{
	"engine: own go/ssa symbolic interpreter (integers as bit-vectors of machine width; pointer structure concrete, scalar content symbolic; slice/string lengths concrete per path, case-split where the harness makes them vary)",
	"solver: z3 4.8.12 decides every feasibility and assertion query; unknown/timeout/(error => inconclusive (exit 2), never success",
	"append growth policy not modelled (fresh capacity = needed length)",
	"map iteration order = insertion order unless the harness enables order forking",
	"counterexamples are reported only after native replay against the compiled code (go test -overlay)",
}

func allChecks() []CheckSpec {
	return []CheckSpec{
		{
			ID: "C17",
			Harnesses: []HarnessSpec{
				{Fn: "verifC17CandidatePriority", Lemma: "candidate priority = 2^24*tp + 2^8*lp + (256-component) with tp/lp from independent RFC tables; tp in 0..126; priority in 1..2^31-1",
					Bounds: "all candidate types x network types x TCP types x 5 relay protocols x every 16-bit TCP offset x components 1..256 x agent present/absent (fully symbolic, no sampling)", MustReach: []string{"with-agent", "done"}},
				{Fn: "verifC17PairPriority", Lemma: "pair priority = (2^32-1)*min + 2*max + [g>d], no 64-bit overflow, equal on the mirrored pair of the peer",
					Bounds: "all 2^32 x 2^32 (g,d) >= 1, both roles", MustReach: []string{"done"}},
				{Fn: "verifC17PairMonotone", Lemma: "pair priority is monotone in each argument; a higher min dominates",
					Bounds: "all (g1,d1) <= (g2,d2) componentwise over 32-bit priorities", MustReach: []string{"done"}},
				{Fn: "verifC17Foundation", Lemma: "foundation equal iff (type, address, network type) equal, CRC-32 uninterpreted and assumed collision-free on the compared inputs",
					Bounds: "address strings of length 0..2 (quick) / 0..4 (thorough), arbitrary bytes; all types and network types", MustReach: []string{"done"}},
			},
			Assumptions: append([]string{
				"hash/crc32.ChecksumIEEE is an uninterpreted function, injective on the inputs compared within one path (the property is stated up to CRC-32 collisions)",
				"fmt.Sprintf(\"%d\", x) is an injective rendering of x",
				"component IDs restricted to 1..256 (RFC 8445 §5.1.1)",
			}, commonAssumptions...),
			Outside: "priorityOverride/foundationOverride paths (explicit user values); relatedAddress in foundation is not part of the property",
		},
	}
}
