package main

// Hash-consed SMT term DAG over bit-vectors (width 1..128) and Bool, with
// constant folding. Every Go integer is a bit-vector of its machine width, so
// wrap-around is what the code does.

import (
	"fmt"
	"sort"
	"strings"
)

type Op uint8

const (
	OConst Op = iota // BV constant (val) or Bool constant (w==0, val 0/1)
	OVar             // free variable (name)
	OApp             // uninterpreted function application (name, args)
	OAdd
	OSub
	OMul
	OUDiv
	OURem
	OSDiv
	OSRem
	OAnd
	OOr
	OXor
	OShl
	OLShr
	OAShr
	ONot  // bvnot
	ONeg  // bvneg
	OEq   // Bool
	OUlt  // Bool
	OUle  // Bool
	OSlt  // Bool
	OSle  // Bool
	OBAnd // Bool and
	OBOr  // Bool or
	OBNot // Bool not
	OIte  // args: c, a, b (BV or Bool)
	OExtract
	OConcat
	OZExt
	OSExt
)

type Node struct {
	op   Op
	w    int // 0 = Bool
	args []*Node
	val  uint64 // constant value (w<=64)
	name string
	hi   int
	lo   int
	id   int
}

func (n *Node) IsConst() bool { return n.op == OConst }
func (n *Node) IsBool() bool  { return n.w == 0 }
func (n *Node) IsTrue() bool  { return n.op == OConst && n.w == 0 && n.val == 1 }
func (n *Node) IsFalse() bool { return n.op == OConst && n.w == 0 && n.val == 0 }

type nodeKey struct {
	op         Op
	w          int
	val        uint64
	name       string
	hi, lo     int
	a0, a1, a2 int
	extra      string
}

type TB struct {
	tab   map[nodeKey]*Node
	next  int
	decls map[string]string // name -> declaration line (vars and UFs)
	order []string
}

func NewTB() *TB {
	return &TB{tab: map[nodeKey]*Node{}, decls: map[string]string{}}
}

func mask(w int) uint64 {
	if w >= 64 {
		return ^uint64(0)
	}
	return (uint64(1) << uint(w)) - 1
}

func (tb *TB) mk(n Node) *Node {
	k := nodeKey{op: n.op, w: n.w, val: n.val, name: n.name, hi: n.hi, lo: n.lo, a0: -1, a1: -1, a2: -1}
	switch len(n.args) {
	case 0:
	case 1:
		k.a0 = n.args[0].id
	case 2:
		k.a0, k.a1 = n.args[0].id, n.args[1].id
	case 3:
		k.a0, k.a1, k.a2 = n.args[0].id, n.args[1].id, n.args[2].id
	default:
		var sb strings.Builder
		for _, a := range n.args {
			fmt.Fprintf(&sb, "%d,", a.id)
		}
		k.extra = sb.String()
	}
	if x, ok := tb.tab[k]; ok {
		return x
	}
	nn := n
	nn.id = tb.next
	tb.next++
	tb.tab[k] = &nn
	return &nn
}

func (tb *TB) Const(w int, v uint64) *Node {
	if w <= 0 || w > 64 {
		panic(fmt.Sprintf("Const width %d", w))
	}
	return tb.mk(Node{op: OConst, w: w, val: v & mask(w)})
}
func (tb *TB) Bool(b bool) *Node {
	v := uint64(0)
	if b {
		v = 1
	}
	return tb.mk(Node{op: OConst, w: 0, val: v})
}
func (tb *TB) True() *Node  { return tb.Bool(true) }
func (tb *TB) False() *Node { return tb.Bool(false) }

func sortStr(w int) string {
	if w == 0 {
		return "Bool"
	}
	return fmt.Sprintf("(_ BitVec %d)", w)
}

func (tb *TB) Var(name string, w int) *Node {
	if _, ok := tb.decls[name]; !ok {
		tb.decls[name] = fmt.Sprintf("(declare-const %s %s)", name, sortStr(w))
		tb.order = append(tb.order, name)
	}
	return tb.mk(Node{op: OVar, w: w, name: name})
}

// App: uninterpreted function application; result width w (0 = Bool).
func (tb *TB) App(name string, w int, args ...*Node) *Node {
	if _, ok := tb.decls[name]; !ok {
		var sb strings.Builder
		fmt.Fprintf(&sb, "(declare-fun %s (", name)
		for i, a := range args {
			if i > 0 {
				sb.WriteByte(' ')
			}
			sb.WriteString(sortStr(a.w))
		}
		fmt.Fprintf(&sb, ") %s)", sortStr(w))
		tb.decls[name] = sb.String()
		tb.order = append(tb.order, name)
	}
	return tb.mk(Node{op: OApp, w: w, name: name, args: args})
}

func sext64(v uint64, w int) int64 {
	if w >= 64 {
		return int64(v)
	}
	s := uint(64 - w)
	return int64(v<<s) >> s
}

func (tb *TB) Bin(op Op, a, b *Node) *Node {
	if a.w != b.w {
		panic(fmt.Sprintf("width mismatch op %d: %d vs %d", op, a.w, b.w))
	}
	w := a.w
	if a.IsConst() && b.IsConst() && w <= 64 {
		x, y := a.val, b.val
		switch op {
		case OAdd:
			return tb.Const(w, x+y)
		case OSub:
			return tb.Const(w, x-y)
		case OMul:
			return tb.Const(w, x*y)
		case OUDiv:
			if y == 0 {
				return tb.Const(w, mask(w))
			}
			return tb.Const(w, x/y)
		case OURem:
			if y == 0 {
				return tb.Const(w, x)
			}
			return tb.Const(w, x%y)
		case OSDiv:
			if y == 0 {
				break
			}
			sx, sy := sext64(x, w), sext64(y, w)
			if sy == -1 {
				return tb.Const(w, uint64(-sx))
			}
			return tb.Const(w, uint64(sx/sy))
		case OSRem:
			if y == 0 {
				break
			}
			sx, sy := sext64(x, w), sext64(y, w)
			if sy == -1 {
				return tb.Const(w, 0)
			}
			return tb.Const(w, uint64(sx%sy))
		case OAnd:
			return tb.Const(w, x&y)
		case OOr:
			return tb.Const(w, x|y)
		case OXor:
			return tb.Const(w, x^y)
		case OShl:
			if y >= uint64(w) {
				return tb.Const(w, 0)
			}
			return tb.Const(w, x<<y)
		case OLShr:
			if y >= uint64(w) {
				return tb.Const(w, 0)
			}
			return tb.Const(w, x>>y)
		case OAShr:
			sx := sext64(x, w)
			if y >= uint64(w) {
				y = uint64(w - 1)
			}
			return tb.Const(w, uint64(sx>>y))
		}
	}
	// identities
	switch op {
	case OAdd:
		if a.IsConst() && a.val == 0 {
			return b
		}
		if b.IsConst() && b.val == 0 {
			return a
		}
		// (x + c1) + c2 -> x + (c1+c2)
		if b.IsConst() && a.op == OAdd && a.args[1].IsConst() && w <= 64 {
			return tb.Bin(OAdd, a.args[0], tb.Const(w, a.args[1].val+b.val))
		}
		if a.IsConst() { // canonical: const on the right
			return tb.Bin(OAdd, b, a)
		}
	case OSub:
		if b.IsConst() && b.val == 0 {
			return a
		}
		if a == b {
			return tb.zero(w)
		}
		if b.IsConst() && w <= 64 {
			return tb.Bin(OAdd, a, tb.Const(w, -b.val))
		}
		// (base + d1 + ... + dk) - (base + d1 + ... + dj): cancel common addends
		// (sound mod 2^w); keeps differences of clock readings small sums
		if w <= 64 && (a.op == OAdd || b.op == OAdd) {
			if r := tb.cancelSub(a, b, w); r != nil {
				return r
			}
		}
	case OMul:
		if a.IsConst() && !b.IsConst() {
			return tb.Bin(OMul, b, a)
		}
		if b.IsConst() && w <= 64 {
			switch {
			case b.val == 0:
				return tb.zero(w)
			case b.val == 1:
				return a
			}
			// strength-reduce multiplication by constants with few set bits
			// (2^k, 2^k-1, 10, ...): sound identity mod 2^w; bit-blasting
			// back ends stall on bvmul but not on shifts and adds.
			if r := tb.mulConst(a, b.val, w); r != nil {
				return r
			}
		}
	case OAnd:
		if a == b {
			return a
		}
		if a.IsConst() && !b.IsConst() {
			return tb.Bin(OAnd, b, a)
		}
		if b.IsConst() && w <= 64 {
			if b.val == 0 {
				return b
			}
			if b.val == mask(w) {
				return a
			}
		}
	case OOr:
		if a == b {
			return a
		}
		if a.IsConst() && !b.IsConst() {
			return tb.Bin(OOr, b, a)
		}
		if b.IsConst() && w <= 64 {
			if b.val == 0 {
				return a
			}
			if b.val == mask(w) {
				return b
			}
		}
	case OXor:
		if a == b {
			return tb.zero(w)
		}
		if b.IsConst() && b.val == 0 {
			return a
		}
		if a.IsConst() && a.val == 0 {
			return b
		}
	case OShl, OLShr, OAShr:
		if b.IsConst() && b.val == 0 {
			return a
		}
		if a.IsConst() && a.val == 0 && w <= 64 {
			return a
		}
		if b.IsConst() && w <= 64 && b.val >= uint64(w) && op != OAShr {
			return tb.zero(w)
		}
		// shifts by a constant as extract/concat (cheaper for the solver and
		// folds with byte-assembly patterns)
		if b.IsConst() && w <= 64 && b.val < uint64(w) {
			k := int(b.val)
			switch op {
			case OShl:
				return tb.Concat(tb.Extract(a, w-1-k, 0), tb.Const(k, 0))
			case OLShr:
				return tb.ZExt(tb.Extract(a, w-1, k), w)
			}
		}
	case OUDiv:
		if b.IsConst() && b.val == 1 {
			return a
		}
	}
	return tb.mk(Node{op: op, w: w, args: []*Node{a, b}})
}

func (tb *TB) zero(w int) *Node {
	if w <= 64 {
		return tb.Const(w, 0)
	}
	return tb.ZExt(tb.Const(64, 0), w)
}

func popcount(x uint64) int {
	n := 0
	for x != 0 {
		x &= x - 1
		n++
	}
	return n
}

func (tb *TB) shlConst(a *Node, k int) *Node {
	return tb.Bin(OShl, a, tb.Const(a.w, uint64(k)))
}

func (tb *TB) mulConst(a *Node, c uint64, w int) *Node {
	c &= mask(w)
	if popcount(c) <= 3 {
		var acc *Node
		for k := 0; k < w; k++ {
			if c&(1<<uint(k)) != 0 {
				t := tb.shlConst(a, k)
				if acc == nil {
					acc = t
				} else {
					acc = tb.Bin(OAdd, acc, t)
				}
			}
		}
		return acc
	}
	// 2^k - 1 (and 2^k - 2^j): a<<k - a<<j
	for k := 1; k <= w; k++ {
		var hi uint64
		if k < 64 {
			hi = 1 << uint(k)
		}
		for j := 0; j < k; j++ {
			if (hi-(1<<uint(j)))&mask(w) == c {
				var top *Node
				if k >= w {
					top = tb.zero(w)
				} else {
					top = tb.shlConst(a, k)
				}
				return tb.Bin(OSub, top, tb.shlConst(a, j))
			}
		}
	}
	return nil
}

func (tb *TB) Not(a *Node) *Node {
	if a.w == 0 {
		return tb.BNot(a)
	}
	if a.IsConst() {
		return tb.Const(a.w, ^a.val)
	}
	if a.op == ONot {
		return a.args[0]
	}
	return tb.mk(Node{op: ONot, w: a.w, args: []*Node{a}})
}

func (tb *TB) Neg(a *Node) *Node {
	if a.IsConst() {
		return tb.Const(a.w, -a.val)
	}
	return tb.mk(Node{op: ONeg, w: a.w, args: []*Node{a}})
}

func (tb *TB) BNot(a *Node) *Node {
	if a.w != 0 {
		panic("BNot on bv")
	}
	if a.IsConst() {
		return tb.Bool(a.val == 0)
	}
	if a.op == OBNot {
		return a.args[0]
	}
	return tb.mk(Node{op: OBNot, w: 0, args: []*Node{a}})
}

func (tb *TB) BAnd(a, b *Node) *Node {
	if a.IsConst() {
		if a.val == 1 {
			return b
		}
		return a
	}
	if b.IsConst() {
		if b.val == 1 {
			return a
		}
		return b
	}
	if a == b {
		return a
	}
	return tb.mk(Node{op: OBAnd, w: 0, args: []*Node{a, b}})
}

func (tb *TB) BOr(a, b *Node) *Node {
	if a.IsConst() {
		if a.val == 1 {
			return a
		}
		return b
	}
	if b.IsConst() {
		if b.val == 1 {
			return b
		}
		return a
	}
	if a == b {
		return a
	}
	return tb.mk(Node{op: OBOr, w: 0, args: []*Node{a, b}})
}

func (tb *TB) Implies(a, b *Node) *Node { return tb.BOr(tb.BNot(a), b) }

func (tb *TB) Cmp(op Op, a, b *Node) *Node {
	if a.w != b.w {
		panic(fmt.Sprintf("cmp width mismatch %d vs %d", a.w, b.w))
	}
	w := a.w
	if op == OEq {
		return tb.Eq(a, b)
	}
	if a.IsConst() && b.IsConst() && w <= 64 {
		var r bool
		switch op {
		case OUlt:
			r = a.val < b.val
		case OUle:
			r = a.val <= b.val
		case OSlt:
			r = sext64(a.val, w) < sext64(b.val, w)
		case OSle:
			r = sext64(a.val, w) <= sext64(b.val, w)
		}
		return tb.Bool(r)
	}
	if a == b {
		return tb.Bool(op == OUle || op == OSle)
	}
	if op == OUlt && b.IsConst() && b.val == 0 {
		return tb.False()
	}
	if op == OUle && a.IsConst() && a.val == 0 {
		return tb.True()
	}
	return tb.mk(Node{op: op, w: 0, args: []*Node{a, b}})
}

func (tb *TB) Eq(a, b *Node) *Node {
	if a.w != b.w {
		panic(fmt.Sprintf("eq width mismatch %d vs %d", a.w, b.w))
	}
	if a == b {
		return tb.True()
	}
	if a.IsConst() && b.IsConst() {
		return tb.Bool(a.val == b.val)
	}
	if a.w == 0 {
		// boolean equality
		if a.IsConst() {
			a, b = b, a
		}
		if b.IsConst() {
			if b.val == 1 {
				return a
			}
			return tb.BNot(a)
		}
	}
	if a.IsConst() {
		a, b = b, a
	}
	// ite(c, k1, k2) == k  with constants
	if b.IsConst() && a.op == OIte && a.args[1].IsConst() && a.args[2].IsConst() {
		t, f := a.args[1].val == b.val, a.args[2].val == b.val
		switch {
		case t && f:
			return tb.True()
		case t && !f:
			return a.args[0]
		case !t && f:
			return tb.BNot(a.args[0])
		default:
			return tb.False()
		}
	}
	// zext(x) == const
	if b.IsConst() && a.op == OZExt && b.w <= 64 {
		in := a.args[0]
		if in.w <= 64 {
			if b.val&^mask(in.w) != 0 {
				return tb.False()
			}
			return tb.Eq(in, tb.Const(in.w, b.val))
		}
	}
	if a.id > b.id && !b.IsConst() {
		a, b = b, a
	}
	return tb.mk(Node{op: OEq, w: 0, args: []*Node{a, b}})
}

func (tb *TB) Ite(c, a, b *Node) *Node {
	if c.w != 0 {
		panic("ite cond not bool")
	}
	if a.w != b.w {
		panic(fmt.Sprintf("ite width mismatch %d vs %d", a.w, b.w))
	}
	if c.IsConst() {
		if c.val == 1 {
			return a
		}
		return b
	}
	if a == b {
		return a
	}
	if a.w == 0 {
		if a.IsTrue() && b.IsFalse() {
			return c
		}
		if a.IsFalse() && b.IsTrue() {
			return tb.BNot(c)
		}
		if a.IsTrue() {
			return tb.BOr(c, b)
		}
		if a.IsFalse() {
			return tb.BAnd(tb.BNot(c), b)
		}
		if b.IsTrue() {
			return tb.BOr(tb.BNot(c), a)
		}
		if b.IsFalse() {
			return tb.BAnd(c, a)
		}
	}
	return tb.mk(Node{op: OIte, w: a.w, args: []*Node{c, a, b}})
}

func (tb *TB) Extract(a *Node, hi, lo int) *Node {
	if hi < lo || hi >= a.w || lo < 0 {
		panic(fmt.Sprintf("extract [%d:%d] of w=%d", hi, lo, a.w))
	}
	w := hi - lo + 1
	if w == a.w {
		return a
	}
	if a.IsConst() {
		return tb.Const(w, a.val>>uint(lo))
	}
	switch a.op {
	case OExtract:
		return tb.Extract(a.args[0], a.lo+hi, a.lo+lo)
	case OZExt:
		in := a.args[0]
		if hi < in.w {
			return tb.Extract(in, hi, lo)
		}
		if lo >= in.w {
			return tb.zero(w)
		}
		return tb.ZExt(tb.Extract(in, in.w-1, lo), w)
	case OSExt:
		in := a.args[0]
		if hi < in.w {
			return tb.Extract(in, hi, lo)
		}
	case OConcat:
		h, l := a.args[0], a.args[1]
		if hi < l.w {
			return tb.Extract(l, hi, lo)
		}
		if lo >= l.w {
			return tb.Extract(h, hi-l.w, lo-l.w)
		}
		return tb.Concat(tb.Extract(h, hi-l.w, 0), tb.Extract(l, l.w-1, lo))
	case OIte:
		if a.args[1].IsConst() || a.args[2].IsConst() {
			return tb.Ite(a.args[0], tb.Extract(a.args[1], hi, lo), tb.Extract(a.args[2], hi, lo))
		}
	case OAnd, OOr, OXor:
		if a.args[1].IsConst() {
			return tb.Bin(a.op, tb.Extract(a.args[0], hi, lo), tb.Extract(a.args[1], hi, lo))
		}
	}
	return tb.mk(Node{op: OExtract, w: w, args: []*Node{a}, hi: hi, lo: lo})
}

func (tb *TB) Concat(h, l *Node) *Node {
	if h == nil || h.w == 0 {
		return l
	}
	w := h.w + l.w
	if h.IsConst() && l.IsConst() && w <= 64 {
		return tb.Const(w, h.val<<uint(l.w)|l.val)
	}
	if h.IsConst() && h.val == 0 && h.w <= 64 {
		return tb.ZExt(l, w)
	}
	// adjacent extracts of the same node
	if h.op == OExtract && l.op == OExtract && h.args[0] == l.args[0] && h.lo == l.hi+1 {
		return tb.Extract(h.args[0], h.hi, l.lo)
	}
	return tb.mk(Node{op: OConcat, w: w, args: []*Node{h, l}})
}

func (tb *TB) ZExt(a *Node, w int) *Node {
	if w == a.w {
		return a
	}
	if w < a.w {
		panic("zext narrower")
	}
	if a.IsConst() && w <= 64 {
		return tb.Const(w, a.val)
	}
	if a.op == OZExt {
		return tb.ZExt(a.args[0], w)
	}
	return tb.mk(Node{op: OZExt, w: w, args: []*Node{a}})
}

func (tb *TB) SExt(a *Node, w int) *Node {
	if w == a.w {
		return a
	}
	if w < a.w {
		panic("sext narrower")
	}
	if a.IsConst() && w <= 64 {
		return tb.Const(w, uint64(sext64(a.val, a.w)))
	}
	if a.op == OZExt { // zero-extended value is non-negative
		return tb.ZExt(a.args[0], w)
	}
	return tb.mk(Node{op: OSExt, w: w, args: []*Node{a}})
}

// Resize: convert between integer widths (Go conversion semantics).
func (tb *TB) Resize(a *Node, w int, signed bool) *Node {
	switch {
	case w == a.w:
		return a
	case w < a.w:
		return tb.Extract(a, w-1, 0)
	case signed:
		return tb.SExt(a, w)
	default:
		return tb.ZExt(a, w)
	}
}

// ---------- printing ----------

var opNames = map[Op]string{
	OAdd: "bvadd", OSub: "bvsub", OMul: "bvmul", OUDiv: "bvudiv", OURem: "bvurem",
	OSDiv: "bvsdiv", OSRem: "bvsrem", OAnd: "bvand", OOr: "bvor", OXor: "bvxor",
	OShl: "bvshl", OLShr: "bvlshr", OAShr: "bvashr", ONot: "bvnot", ONeg: "bvneg",
	OEq: "=", OUlt: "bvult", OUle: "bvule", OSlt: "bvslt", OSle: "bvsle",
	OBAnd: "and", OBOr: "or", OBNot: "not", OIte: "ite", OConcat: "concat",
}

// Printer emits a set of root terms as SMT-LIB2 with shared subterms bound by
// define-fun, so the text stays linear in the DAG size.
type Printer struct {
	tb    *TB
	refs  map[*Node]int
	names map[*Node]string
	defs  []string
	used  map[string]bool // declared symbols used
}

func NewPrinter(tb *TB) *Printer {
	return &Printer{tb: tb, refs: map[*Node]int{}, names: map[*Node]string{}, used: map[string]bool{}}
}

func (p *Printer) count(n *Node) {
	p.refs[n]++
	if p.refs[n] > 1 {
		return
	}
	for _, a := range n.args {
		p.count(a)
	}
}

func constStr(n *Node) string {
	if n.w == 0 {
		if n.val == 1 {
			return "true"
		}
		return "false"
	}
	if n.w%4 == 0 {
		return fmt.Sprintf("#x%0*x", n.w/4, n.val)
	}
	return fmt.Sprintf("#b%0*b", n.w, n.val)
}

func (p *Printer) expr(n *Node) string {
	if s, ok := p.names[n]; ok {
		return s
	}
	var s string
	switch n.op {
	case OConst:
		return constStr(n)
	case OVar:
		p.used[n.name] = true
		return n.name
	case OApp:
		p.used[n.name] = true
		if len(n.args) == 0 {
			return n.name
		}
		parts := make([]string, len(n.args))
		for i, a := range n.args {
			parts[i] = p.expr(a)
		}
		s = "(" + n.name + " " + strings.Join(parts, " ") + ")"
	case OExtract:
		s = fmt.Sprintf("((_ extract %d %d) %s)", n.hi, n.lo, p.expr(n.args[0]))
	case OZExt:
		s = fmt.Sprintf("((_ zero_extend %d) %s)", n.w-n.args[0].w, p.expr(n.args[0]))
	case OSExt:
		s = fmt.Sprintf("((_ sign_extend %d) %s)", n.w-n.args[0].w, p.expr(n.args[0]))
	default:
		parts := make([]string, len(n.args))
		for i, a := range n.args {
			parts[i] = p.expr(a)
		}
		s = "(" + opNames[n.op] + " " + strings.Join(parts, " ") + ")"
	}
	if p.refs[n] > 1 {
		name := fmt.Sprintf("t!%d", n.id)
		p.defs = append(p.defs, fmt.Sprintf("(define-fun %s () %s %s)", name, sortStr(n.w), s))
		p.names[n] = name
		return name
	}
	return s
}

// Query renders: declarations, definitions, one assert per root.
func (tb *TB) Query(roots []*Node) string {
	p := NewPrinter(tb)
	for _, r := range roots {
		p.count(r)
	}
	asserts := make([]string, 0, len(roots))
	for _, r := range roots {
		asserts = append(asserts, "(assert "+p.expr(r)+")")
	}
	var sb strings.Builder
	for _, name := range tb.order {
		if p.used[name] {
			sb.WriteString(tb.decls[name])
			sb.WriteByte('\n')
		}
	}
	for _, d := range p.defs {
		sb.WriteString(d)
		sb.WriteByte('\n')
	}
	for _, a := range asserts {
		sb.WriteString(a)
		sb.WriteByte('\n')
	}
	return sb.String()
}

// FreeVars lists the declared constants reachable from roots, in creation order.
func (tb *TB) FreeVars(roots []*Node) []*Node {
	seen := map[*Node]bool{}
	var out []*Node
	var walk func(n *Node)
	walk = func(n *Node) {
		if seen[n] {
			return
		}
		seen[n] = true
		if n.op == OVar {
			out = append(out, n)
		}
		for _, a := range n.args {
			walk(a)
		}
	}
	for _, r := range roots {
		walk(r)
	}
	sort.Slice(out, func(i, j int) bool { return out[i].id < out[j].id })
	return out
}

// Eval evaluates a term under an assignment of variables (w<=64). ok=false if
// an unassigned variable or an uninterpreted application is reached.
func (tb *TB) Eval(n *Node, asg map[string]uint64, memo map[*Node]uint64) (uint64, bool) {
	if v, ok := memo[n]; ok {
		return v, true
	}
	var r uint64
	switch n.op {
	case OConst:
		r = n.val
	case OVar:
		v, ok := asg[n.name]
		if !ok {
			return 0, false
		}
		r = v
	case OApp:
		return 0, false
	default:
		if n.w > 64 {
			return 0, false
		}
		vs := make([]uint64, len(n.args))
		for i, a := range n.args {
			if a.w > 64 {
				return 0, false
			}
			// short-circuit ite
			if n.op == OIte && i > 0 {
				continue
			}
			v, ok := tb.Eval(a, asg, memo)
			if !ok {
				return 0, false
			}
			vs[i] = v
		}
		b2u := func(b bool) uint64 {
			if b {
				return 1
			}
			return 0
		}
		switch n.op {
		case OIte:
			var ok bool
			if vs[0] == 1 {
				r, ok = tb.Eval(n.args[1], asg, memo)
			} else {
				r, ok = tb.Eval(n.args[2], asg, memo)
			}
			if !ok {
				return 0, false
			}
		case OEq:
			r = b2u(vs[0] == vs[1])
		case OUlt:
			r = b2u(vs[0] < vs[1])
		case OUle:
			r = b2u(vs[0] <= vs[1])
		case OSlt:
			r = b2u(sext64(vs[0], n.args[0].w) < sext64(vs[1], n.args[0].w))
		case OSle:
			r = b2u(sext64(vs[0], n.args[0].w) <= sext64(vs[1], n.args[0].w))
		case OBAnd:
			r = vs[0] & vs[1]
		case OBOr:
			r = vs[0] | vs[1]
		case OBNot:
			r = vs[0] ^ 1
		case ONot:
			r = ^vs[0] & mask(n.w)
		case ONeg:
			r = -vs[0] & mask(n.w)
		case OExtract:
			r = (vs[0] >> uint(n.lo)) & mask(n.w)
		case OZExt:
			r = vs[0]
		case OSExt:
			r = uint64(sext64(vs[0], n.args[0].w)) & mask(n.w)
		case OConcat:
			r = (vs[0]<<uint(n.args[1].w) | vs[1]) & mask(n.w)
		default:
			c := tb.Bin(n.op, tb.Const(n.w, vs[0]), tb.Const(n.w, vs[1]))
			if !c.IsConst() {
				return 0, false
			}
			r = c.val
		}
	}
	memo[n] = r
	return r, true
}

// EvalDefault evaluates under asg, treating variables absent from asg as 0
// (sound when asg assigns every variable of the path condition: the others are
// unconstrained).
func (tb *TB) EvalDefault(n *Node, asg map[string]uint64) (uint64, bool) {
	return tb.evalD(n, asg, map[*Node]uint64{})
}

func (tb *TB) evalD(n *Node, asg map[string]uint64, memo map[*Node]uint64) (uint64, bool) {
	if n.op == OVar {
		return asg[n.name], true
	}
	if n.op == OConst {
		return n.val, true
	}
	if n.op == OApp {
		return 0, false
	}
	if v, ok := memo[n]; ok {
		return v, true
	}
	if n.op == OIte {
		c, ok := tb.evalD(n.args[0], asg, memo)
		if !ok {
			return 0, false
		}
		var r uint64
		if c == 1 {
			r, ok = tb.evalD(n.args[1], asg, memo)
		} else {
			r, ok = tb.evalD(n.args[2], asg, memo)
		}
		if ok {
			memo[n] = r
		}
		return r, ok
	}
	if n.w > 64 {
		return 0, false
	}
	for _, a := range n.args {
		if a.w > 64 {
			return 0, false
		}
	}
	var vs [2]uint64
	for i, a := range n.args {
		v, ok := tb.evalD(a, asg, memo)
		if !ok {
			return 0, false
		}
		vs[i] = v
	}
	b2u := func(b bool) uint64 {
		if b {
			return 1
		}
		return 0
	}
	var r uint64
	switch n.op {
	case OEq:
		r = b2u(vs[0] == vs[1])
	case OUlt:
		r = b2u(vs[0] < vs[1])
	case OUle:
		r = b2u(vs[0] <= vs[1])
	case OSlt:
		r = b2u(sext64(vs[0], n.args[0].w) < sext64(vs[1], n.args[0].w))
	case OSle:
		r = b2u(sext64(vs[0], n.args[0].w) <= sext64(vs[1], n.args[0].w))
	case OBAnd:
		r = vs[0] & vs[1]
	case OBOr:
		r = vs[0] | vs[1]
	case OBNot:
		r = vs[0] ^ 1
	case ONot:
		r = ^vs[0] & mask(n.w)
	case ONeg:
		r = -vs[0] & mask(n.w)
	case OExtract:
		r = (vs[0] >> uint(n.lo)) & mask(n.w)
	case OZExt:
		r = vs[0]
	case OSExt:
		r = uint64(sext64(vs[0], n.args[0].w)) & mask(n.w)
	case OConcat:
		r = (vs[0]<<uint(n.args[1].w) | vs[1]) & mask(n.w)
	default:
		c := tb.foldBin(n.op, n.w, vs[0], vs[1])
		if c == nil {
			return 0, false
		}
		r = *c
	}
	memo[n] = r
	return r, true
}

// foldBin: constant evaluation of a binary bit-vector operator without
// creating nodes; nil when undefined here (division by zero).
func (tb *TB) foldBin(op Op, w int, x, y uint64) *uint64 {
	var r uint64
	switch op {
	case OAdd:
		r = x + y
	case OSub:
		r = x - y
	case OMul:
		r = x * y
	case OUDiv:
		if y == 0 {
			r = mask(w)
		} else {
			r = x / y
		}
	case OURem:
		if y == 0 {
			r = x
		} else {
			r = x % y
		}
	case OSDiv, OSRem:
		if y == 0 {
			return nil
		}
		sx, sy := sext64(x, w), sext64(y, w)
		if sy == -1 {
			if op == OSDiv {
				r = uint64(-sx)
			} else {
				r = 0
			}
		} else if op == OSDiv {
			r = uint64(sx / sy)
		} else {
			r = uint64(sx % sy)
		}
	case OAnd:
		r = x & y
	case OOr:
		r = x | y
	case OXor:
		r = x ^ y
	case OShl:
		if y >= uint64(w) {
			r = 0
		} else {
			r = x << y
		}
	case OLShr:
		if y >= uint64(w) {
			r = 0
		} else {
			r = x >> y
		}
	case OAShr:
		sx := sext64(x, w)
		if y >= uint64(w) {
			y = uint64(w - 1)
		}
		r = uint64(sx >> y)
	default:
		return nil
	}
	r &= mask(w)
	return &r
}

// addends flattens a tree of OAdd nodes into its non-constant addends and the
// sum of its constants.
func addends(n *Node, out *[]*Node, c *uint64) {
	if n.op == OAdd {
		addends(n.args[0], out, c)
		addends(n.args[1], out, c)
		return
	}
	if n.IsConst() {
		*c += n.val
		return
	}
	*out = append(*out, n)
}

func (tb *TB) cancelSub(a, b *Node, w int) *Node {
	var as, bs []*Node
	var ca, cb uint64
	addends(a, &as, &ca)
	addends(b, &bs, &cb)
	if len(as)+len(bs) > 20000 {
		return nil
	}
	cancelled := false
	pos := make(map[*Node][]int, len(as))
	for j, x := range as {
		pos[x] = append(pos[x], j)
	}
	for i, y := range bs {
		if js := pos[y]; len(js) > 0 {
			as[js[len(js)-1]], bs[i] = nil, nil
			pos[y] = js[:len(js)-1]
			cancelled = true
		}
	}
	if !cancelled {
		return nil
	}
	sum := func(xs []*Node, c uint64) *Node {
		var acc *Node
		for _, x := range xs {
			if x == nil {
				continue
			}
			if acc == nil {
				acc = x
			} else {
				acc = tb.mk(Node{op: OAdd, w: w, args: []*Node{acc, x}})
			}
		}
		if acc == nil {
			return tb.Const(w, c)
		}
		if c&mask(w) != 0 {
			acc = tb.mk(Node{op: OAdd, w: w, args: []*Node{acc, tb.Const(w, c)}})
		}
		return acc
	}
	pa := sum(as, ca-cb)
	anyB := false
	for _, x := range bs {
		if x != nil {
			anyB = true
		}
	}
	if !anyB {
		return pa
	}
	pb := sum(bs, 0)
	return tb.mk(Node{op: OSub, w: w, args: []*Node{pa, pb}})
}
