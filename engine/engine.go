package main

import (
	"crypto/sha256"
	"encoding/hex"
	"fmt"
	"go/token"
	"os"
	"path/filepath"
	"sort"
	"strings"
	"sync"
	"time"

	"golang.org/x/tools/go/packages"
	"golang.org/x/tools/go/ssa"
	"golang.org/x/tools/go/ssa/ssautil"
)

const icePath = "github.com/pion/ice/v4"

type HarnessCfg struct {
	MaxSteps        int
	LoopBudget      int
	MaxConcretize   int
	MaxAlloc        int
	MaxIteIndex     int
	AppendSlack     int
	GoPolicy        string // skip | run | queue | explore
	ContextBound    int    // explore: maximum number of preemptive context switches per path
	FreeChoiceBound int    // explore: number of non-preemptive switch points explored nondeterministically (0 = all)
	CRCInjective    bool   // crc32 values are equal exactly for equal inputs (else: arbitrary, only syntactically equal inputs agree)
	GoRunMatch      string // goroutines whose function name contains this run immediately
	SortMapStrings  bool
	MapOrderFork    bool
	UnbufferedAsOne bool
	AssertTimeoutMs int
	MaxPaths        int
	MaxWallS        int
}

func defaultCfg() HarnessCfg {
	return HarnessCfg{
		MaxSteps: 20_000_000, LoopBudget: 64, MaxConcretize: 64, MaxAlloc: 1 << 20,
		MaxIteIndex: 96, GoPolicy: "skip", AssertTimeoutMs: 60000, MaxPaths: 400000, MaxWallS: 900,
	}
}

type interceptFn func(e *Exec, fn *ssa.Function, args []Value) Value

type Engine struct {
	prog          *ssa.Program
	fset          *token.FileSet
	ice           *ssa.Package
	pkgs          map[string]*ssa.Package
	intercepts    map[string]interceptFn
	natives       map[string]func(e *Exec, args []Value) Value
	initPackages  map[string]bool
	feasTimeoutMs int
	known         *KnownFindings
	repoDir       string
	harnessDir    string
	harnessFiles  []string // real paths
	loadSecs      float64
	solverKind    SolverKind
	verbose       bool
	tier          int
	crossCheck    bool
	crossStats    *SolverStats
	crossAgree    int64
	crossDisagree int64
}

func (g *Engine) lookupIntercept(fn *ssa.Function) interceptFn {
	name := fn.String()
	if h, ok := g.intercepts[name]; ok {
		return h
	}
	if o := fn.Origin(); o != nil {
		if h, ok := g.intercepts[o.String()]; ok {
			return h
		}
	}
	if fn.Pkg != nil && fn.Pkg.Pkg.Path() == icePath && strings.HasPrefix(fn.Name(), "verif") && fn.Signature.Recv() == nil {
		if h, ok := g.intercepts["verif:"+fn.Name()]; ok {
			return h
		}
	}
	// whole-receiver intercepts (loggers)
	if recv := fn.Signature.Recv(); recv != nil {
		if h, ok := g.intercepts["recv:"+recv.Type().String()]; ok {
			return h
		}
	}
	return nil
}

func overlayMap(repoDir, harnessDir string, wants []string) (map[string][]byte, []string, error) {
	files, err := harnessClosure(harnessDir, wants)
	if err != nil {
		return nil, nil, err
	}
	ov := map[string][]byte{}
	var used []string
	for _, f := range files {
		if strings.HasSuffix(f, "_test.go") {
			continue
		}
		b, err := os.ReadFile(f)
		if err != nil {
			return nil, nil, err
		}
		ov[filepath.Join(repoDir, "zz_verif_"+filepath.Base(f))] = b
		used = append(used, f)
	}
	return ov, used, nil
}

// LoadEngine loads /repo with the harness files needed for the harness
// functions in wants (nil: all harness files).
func LoadEngine(repoDir, harnessDir string, wants []string) (*Engine, error) {
	t0 := time.Now()
	ov, used, err := overlayMap(repoDir, harnessDir, wants)
	if err != nil {
		return nil, err
	}
	cfg := &packages.Config{Mode: packages.LoadAllSyntax, Dir: repoDir, Overlay: ov,
		Env: append(os.Environ(), "GOFLAGS=-mod=mod", "GOPROXY=off")}
	pkgs, err := packages.Load(cfg, ".")
	if err != nil {
		return nil, err
	}
	nerr := 0
	packages.Visit(pkgs, nil, func(p *packages.Package) {
		for _, e := range p.Errors {
			if nerr < 20 {
				fmt.Fprintf(os.Stderr, "load error: %s: %v\n", p.PkgPath, e)
			}
			nerr++
		}
	})
	if nerr > 0 {
		return nil, fmt.Errorf("%d package load errors (the tree or the harness does not type-check)", nerr)
	}
	prog, _ := ssautil.AllPackages(pkgs, ssa.InstantiateGenerics)
	prog.Build()
	g := &Engine{prog: prog, fset: prog.Fset, pkgs: map[string]*ssa.Package{}, repoDir: repoDir, harnessDir: harnessDir,
		harnessFiles: used, feasTimeoutMs: 10000, solverKind: SolverZ3,
		initPackages: map[string]bool{}}
	for _, p := range prog.AllPackages() {
		g.pkgs[p.Pkg.Path()] = p
	}
	g.ice = g.pkgs[icePath]
	if g.ice == nil {
		return nil, fmt.Errorf("package %s not loaded", icePath)
	}
	for _, p := range []string{icePath, "github.com/pion/stun/v3", "errors", "io", "net", "io/fs", "os", "context",
		"github.com/pion/ice/v4/internal/taskloop", "github.com/pion/ice/v4/internal/stun", "net/netip",
		"github.com/pion/transport/v4/packetio", "github.com/pion/turn/v5", "time", "strconv", "unicode/utf8",
		"github.com/pion/transport/v4/stdnet", "github.com/pion/transport/v4", "internal/poll", "syscall", "unicode", "strings", "bytes", "encoding/binary", "internal/bytealg"} {
		g.initPackages[p] = true
	}
	registerIntercepts(g)
	g.loadSecs = time.Since(t0).Seconds()
	return g, nil
}

// ---------- exploration ----------

type PathResult struct {
	End          pathEnd
	Asserts      []AssertOutcome
	Reached      map[string]bool
	Alts         [][]uint64
	AltModels    []map[string]uint64
	Funcs        map[*ssa.Function]bool
	Steps        int
	Queries      int
	Spawned      []string
	Sample       *ValidationSample
	Trace        []uint64
	OKAssert     int
	RangeDecided int
	Knowns       []string
	FieldUses    map[*ssa.FieldAddr]*fieldUse
}

type ValidationSample struct {
	Vector   []uint64 `json:"vector"`
	Observes []string `json:"observes"`
	End      string   `json:"end"`
}

type HarnessResult struct {
	Name         string
	Paths        int
	Ends         map[string]int
	EndMsgs      map[string]string
	Violations   map[string]*AssertOutcome // label -> first counterexample
	ViolTrace    map[string][]uint64
	ViolCount    map[string]int
	Inconcl      []string
	Reached      map[string]bool
	Funcs        map[*ssa.Function]bool
	AssertsOK    int
	Queries      int
	Steps        int
	Decisions    int
	RangeDecided int
	Spawned      map[string]bool
	Samples      []*ValidationSample
	Knowns       map[string]int
	Wall         float64
	Truncated    bool
	SamplePaths  [][]uint64
	FieldUses    map[string]*fieldUse // "Type.field" -> uses by repository code / of which symbolic
}

func (g *Engine) newExec(s *Solver, cfg *HarnessCfg, prefix []uint64) *Exec {
	return &Exec{eng: g, tb: NewTB(), solver: s, cfg: cfg, prefix: prefix,
		reached: map[string]bool{}, globals: map[*ssa.Global]*Loc{}, initDone: map[*ssa.Package]bool{},
		yieldBudget: 64, funcs: map[*ssa.Function]bool{}, uniq: map[string]*Loc{}, hidden: map[*Loc]Value{}, backing: map[*Loc]backRef{}}
}

func (g *Engine) runPath(s *Solver, fn *ssa.Function, cfg *HarnessCfg, prefix []uint64, pm map[string]uint64, wantSample bool, pin []uint64) *PathResult {
	e := g.newExec(s, cfg, prefix)
	e.prefixModel = pm
	e.pin = pin
	end := e.runHarness(fn)
	if e.di < len(e.prefix) && end.kind != EndInfeasible {
		// the prefix was not consumed: non-deterministic replay
		end = pathEnd{EndUnsupported, fmt.Sprintf("decision prefix not consumed (%d of %d): %s", e.di, len(e.prefix), end.msg)}
	}
	r := &PathResult{End: end, Asserts: e.asserts, Reached: e.reached, Alts: e.alts, AltModels: e.altModels, Funcs: e.funcs, Steps: e.steps,
		Queries: e.nQueries, Spawned: e.spawned, Trace: e.trace, OKAssert: e.nAssertOK, RangeDecided: e.nRangeDecided, Knowns: e.knowns, FieldUses: e.fieldUses}
	if (end.kind == EndOK || end.kind == EndHalt) && (wantSample || pin != nil) {
		r.Sample = e.sample(end.kind)
	}
	if end.kind == EndDeadlock && cfg.GoPolicy == "explore" && pin == nil && e.knownDeadlockID != "" && g.known.Listed(e.knownDeadlockID) {
		// the listed finding: count it, end the path as explored
		r.Knowns = append(r.Knowns, e.knownDeadlockID)
		r.End = pathEnd{EndOK, "known deadlock: " + e.knownDeadlockID}
		for l := range map[string]bool{"known-deadlock": true} {
			if r.Reached == nil {
				r.Reached = map[string]bool{}
			}
			r.Reached[l] = true
		}
	} else if end.kind == EndDeadlock && cfg.GoPolicy == "explore" && pin == nil {
		// every thread blocked before the harness finished: a schedule-dependent violation
		r.Asserts = append(r.Asserts, AssertOutcome{Label: "no-deadlock", Verdict: Sat, Observes: []string{trunc(end.msg, 400)}})
	}
	if end.kind == EndPanic && pin == nil {
		// a panic reachable within the bounds violates the implicit "never
		// panics" obligation of every harness; it is confirmed by native replay
		out := AssertOutcome{Label: "no-panic", Verdict: Unknown, Inconcl: "panic path without a model: " + end.msg}
		if v, vec, obs, _ := e.query(e.tb.True(), true); v == Sat {
			out = AssertOutcome{Label: "no-panic", Verdict: Sat, Vector: vec, Observes: append(obs, "panic: "+trunc(end.msg, 300))}
		}
		r.Asserts = append(r.Asserts, out)
	}
	return r
}

func (g *Engine) Explore(name string, cfg HarnessCfg, workers int, nSamples int, stats *SolverStats) (*HarnessResult, error) {
	fn := g.ice.Func(name)
	if fn == nil {
		return nil, fmt.Errorf("harness %s not found in package ice", name)
	}
	t0 := time.Now()
	res := &HarnessResult{Name: name, Ends: map[string]int{}, EndMsgs: map[string]string{}, Violations: map[string]*AssertOutcome{},
		ViolCount: map[string]int{}, ViolTrace: map[string][]uint64{}, Reached: map[string]bool{}, Funcs: map[*ssa.Function]bool{}, Spawned: map[string]bool{}, Knowns: map[string]int{}}
	var mu sync.Mutex
	cond := sync.NewCond(&mu)
	type workItem struct {
		p []uint64
		m map[string]uint64
	}
	work := []workItem{{}}
	active := 0
	started := 0
	var wg sync.WaitGroup
	var firstErr error
	for w := 0; w < workers; w++ {
		wg.Add(1)
		go func() {
			defer wg.Done()
			s, err := NewSolver(g.solverKind, stats)
			if err != nil {
				mu.Lock()
				firstErr = err
				mu.Unlock()
				return
			}
			defer s.Close()
			if g.crossCheck {
				for _, k := range []SolverKind{SolverZ3New, SolverCVC5} {
					if cs, err := NewSolver(k, g.crossStats); err == nil {
						s.cross = append(s.cross, cs)
						defer cs.Close()
					}
				}
			}
			for {
				mu.Lock()
				for len(work) == 0 && active > 0 {
					cond.Wait()
				}
				if len(work) == 0 && active == 0 {
					mu.Unlock()
					cond.Broadcast()
					return
				}
				if started >= cfg.MaxPaths || time.Since(t0).Seconds() > float64(cfg.MaxWallS) {
					res.Truncated = true
					work = nil
					mu.Unlock()
					cond.Broadcast()
					if active == 0 {
						return
					}
					continue
				}
				if g.verbose && started%500 == 0 && started > 0 {
					fmt.Printf("  ... %s: %d paths started, %d queued, %.0fs\n", name, started, len(work), time.Since(t0).Seconds())
				}
				// depth-first: take the most recent prefix
				p := work[len(work)-1]
				work = work[:len(work)-1]
				active++
				started++
				wantSample := len(res.Samples) < nSamples
				mu.Unlock()

				r := g.runPath(s, fn, &cfg, p.p, p.m, wantSample, nil)

				mu.Lock()
				active--
				res.Paths++
				k := r.End.kind.String()
				res.Ends[k]++
				if _, ok := res.EndMsgs[k+": "+r.End.msg]; !ok && len(res.EndMsgs) < 40 && r.End.msg != "" {
					res.EndMsgs[k+": "+r.End.msg] = fmt.Sprint(r.Trace)
				}
				for i := range r.Asserts {
					a := r.Asserts[i]
					if a.Verdict == Sat {
						res.ViolCount[a.Label]++
						if _, ok := res.Violations[a.Label]; !ok {
							res.Violations[a.Label] = &a
							res.ViolTrace[a.Label] = r.Trace
						}
					} else if a.Verdict == Unknown {
						res.Inconcl = append(res.Inconcl, a.Label+": "+a.Inconcl)
					}
				}
				for l := range r.Reached {
					res.Reached[l] = true
				}
				for f := range r.Funcs {
					res.Funcs[f] = true
				}
				for fa, u := range r.FieldUses {
					if k := fieldName(fa); k != "" {
						if res.FieldUses == nil {
							res.FieldUses = map[string]*fieldUse{}
						}
						t := res.FieldUses[k]
						if t == nil {
							t = &fieldUse{}
							res.FieldUses[k] = t
						}
						t.Uses += u.Uses
						t.Symbolic += u.Symbolic
					}
				}
				for _, sp := range r.Spawned {
					res.Spawned[sp] = true
				}
				for _, kf := range r.Knowns {
					res.Knowns[kf]++
				}
				res.AssertsOK += r.OKAssert
				res.Queries += r.Queries
				res.Steps += r.Steps
				res.Decisions += len(r.Trace)
				res.RangeDecided += r.RangeDecided
				if r.Sample != nil && len(res.Samples) < nSamples {
					res.Samples = append(res.Samples, r.Sample)
				}
				if len(res.SamplePaths) < 3 {
					res.SamplePaths = append(res.SamplePaths, r.Trace)
				}
				for i, a := range r.Alts {
					work = append(work, workItem{a, r.AltModels[i]})
				}
				mu.Unlock()
				cond.Broadcast()
			}
		}()
	}
	wg.Wait()
	res.Wall = time.Since(t0).Seconds()
	return res, firstErr
}

// ---------- source hashes of encoded functions ----------

type FuncInfo struct {
	Name string `json:"name"`
	File string `json:"file"`
	Hash string `json:"src_sha256_12"`
}

func (g *Engine) funcInfos(fs map[*ssa.Function]bool, onlyRepo bool) []FuncInfo {
	cache := map[string][]byte{}
	var out []FuncInfo
	for f := range fs {
		if f.Pkg == nil && f.Parent() == nil {
			continue
		}
		pos := f.Pos()
		if !pos.IsValid() {
			continue
		}
		p := g.fset.Position(pos)
		inRepo := strings.HasPrefix(p.Filename, g.repoDir+"/") && !strings.Contains(p.Filename, "zz_verif_")
		if onlyRepo && !inRepo {
			continue
		}
		fi := FuncInfo{Name: f.String(), File: strings.TrimPrefix(p.Filename, g.repoDir+"/")}
		if syn := f.Syntax(); syn != nil {
			a, b := g.fset.Position(syn.Pos()), g.fset.Position(syn.End())
			src, ok := cache[a.Filename]
			if !ok {
				src, _ = os.ReadFile(a.Filename)
				cache[a.Filename] = src
			}
			if a.Offset < b.Offset && b.Offset <= len(src) {
				h := sha256.Sum256(src[a.Offset:b.Offset])
				fi.Hash = hex.EncodeToString(h[:6])
			}
		}
		out = append(out, fi)
	}
	sort.Slice(out, func(i, j int) bool { return out[i].Name < out[j].Name })
	return out
}

// ReplaySchedule re-executes one recorded decision vector (schedule and data
// decisions) on a fresh interpreter and reports whether the assertion `label`
// fails again (or the path ends in the same deadlock/panic).
func (g *Engine) ReplaySchedule(name string, cfg HarnessCfg, trace []uint64, label string) (bool, string) {
	fn := g.ice.Func(name)
	if fn == nil {
		return false, "harness not found"
	}
	s, err := NewSolver(g.solverKind, &SolverStats{})
	if err != nil {
		return false, err.Error()
	}
	defer s.Close()
	r := g.runPath(s, fn, &cfg, trace, nil, false, nil)
	for _, a := range r.Asserts {
		if a.Label == label && a.Verdict == Sat {
			return true, "end=" + r.End.kind.String()
		}
	}
	if label == "no-deadlock" && r.End.kind == EndDeadlock {
		return true, r.End.msg
	}
	return false, "end=" + r.End.kind.String() + " " + r.End.msg
}
