package main

// GoPolicy "explore": schedule exploration. Every goroutine (the harness
// itself included) is a thread; threads switch only at synchronisation points
// (channel operations, select, mutex/Once/WaitGroup/atomic operations,
// Gosched, spawn). At each such point the scheduler may preempt the running
// thread — a harness-bounded number of times per path (context bound, as in
// CHESS) — and it must switch when the running thread blocks. Which thread
// runs next is an explorer decision like any other, so the search covers every
// schedule within the context bound, at synchronisation-point granularity.
// A state in which no thread is enabled before the harness thread finished is
// a DEADLOCK outcome.

import (
	"fmt"
	"go/types"
	"os"
	"strings"

	"golang.org/x/tools/go/ssa"
)

var schedTrace = os.Getenv("VERIF_SCHEDTRACE") != ""

const (
	tRunnable = iota
	tBlocked
	tDone
)

type thread struct {
	id      int
	name    string
	co      *coro
	status  int
	ready   func() bool
	what    string
	isMain  bool
	lastRun int
	// rendezvous bookkeeping while blocked in a channel operation
	waitRecv  []recvWait
	waitSend  []sendOffer
	committed *commit
}

const (
	yieldSync = iota + 1
	yieldBlocked
	yieldGosched
)

func (e *Exec) exploring() bool { return e.cfg.GoPolicy == "explore" }

func (e *Exec) newThread(name string, thunk func(), isMain bool) *thread {
	t := &thread{id: len(e.threads), name: name, isMain: isMain,
		co: &coro{name: name, thunk: thunk, resume: make(chan bool), yielded: make(chan coroMsg)}}
	e.threads = append(e.threads, t)
	e.coros = append(e.coros, t.co) // so that abortCoros releases it
	return t
}

// threadYield hands the baton back to the scheduler.
func (e *Exec) threadYield(kind int, ready func() bool, what string) {
	c := e.curCoro
	c.yielded <- coroMsg{kind: kind, ready: ready, what: what}
	if !<-c.resume {
		panic(coroAbort{})
	}
}

// syncPoint: a place where the scheduler may preempt the running thread.
func (e *Exec) syncPoint(what string) {
	if !e.exploring() || e.curCoro == nil || e.inInit {
		return
	}
	// the harness's own bookkeeping (atomic counters in zz_verif_* files) is
	// instrumentation, not part of the system under test: no preemption there
	if strings.HasPrefix(what, "atomic") && e.inHarnessCode() {
		return
	}
	e.threadYield(yieldSync, nil, what)
}

// resumeThread runs t until its next yield.
func (e *Exec) resumeThread(t *thread) coroMsg {
	c := t.co
	e.curCoro = c
	e.curThread = t
	if !c.started {
		c.started = true
		e.curFrame, e.depth = nil, 0
		go func() {
			defer func() {
				r := recover()
				if _, isAbort := r.(coroAbort); isAbort {
					return
				}
				c.done = true
				c.yielded <- coroMsg{finished: true, panicVal: r}
			}()
			if !<-c.resume {
				panic(coroAbort{})
			}
			c.thunk()
		}()
	} else {
		e.curFrame, e.depth = c.frame, c.depth
	}
	c.resume <- true
	msg := <-c.yielded
	c.frame, c.depth = e.curFrame, e.depth
	e.curCoro, e.curThread = nil, nil
	return msg
}

func (e *Exec) runScheduler(main *thread) {
	cur := main
	spins := 0
	epoch := 0
	for {
		before := e.steps
		epoch++
		if epoch > 200000 {
			panic(pathEnd{EndUnwind, fmt.Sprintf("scheduler: more than 200000 switches on one path (running %s at %s)", cur.name, cur.what)})
		}
		cur.lastRun = epoch
		msg := e.resumeThread(cur)
		if schedTrace && epoch > 3000 && epoch < 3120 {
			fmt.Printf("SCHED %d: ran %s -> kind=%d what=%s finished=%v steps=%d preempt=%d\n", epoch, cur.name, msg.kind, msg.what, msg.finished, e.steps-before, e.preemptions)
		}
		if msg.panicVal != nil {
			panic(msg.panicVal)
		}
		switch {
		case msg.finished:
			cur.status = tDone
			if cur.isMain {
				return
			}
		case msg.kind == yieldBlocked:
			cur.status, cur.ready, cur.what = tBlocked, msg.ready, msg.what
		default:
			cur.status = tRunnable
		}
		var enabled []*thread
		for _, t := range e.threads {
			if t.status == tRunnable || (t.status == tBlocked && t.ready()) {
				enabled = append(enabled, t)
			}
		}
		if len(enabled) == 0 {
			var sb strings.Builder
			for _, t := range e.threads {
				if t.status == tBlocked {
					fmt.Fprintf(&sb, " [%s blocked at %s]", t.name, t.what)
				}
			}
			panic(pathEnd{EndDeadlock, "no thread can run:" + sb.String()})
		}
		curEnabled := false
		var others []*thread
		for _, t := range enabled {
			if t == cur {
				curEnabled = true
			} else {
				others = append(others, t)
			}
		}
		var next *thread
		switch {
		case msg.kind == yieldGosched && len(others) > 0:
			// a spinning thread lets the others run (not a preemption). Fairness:
			// the least recently run enabled thread goes next, so a thread that
			// can make progress is never starved by two spinners taking turns.
			next = others[0]
			for _, o := range others {
				if o.lastRun < next.lastRun {
					next = o
				}
			}
			spins++
			if spins > 2000 {
				panic(pathEnd{EndDeadlock, "livelock: threads keep yielding without progress (last: " + cur.name + ")"})
			}
		case msg.kind == yieldGosched:
			spins++
			if spins > 64 {
				panic(pathEnd{EndDeadlock, "livelock: " + cur.name + " spins and nobody else can run"})
			}
			next = cur
		case curEnabled && (e.preemptions >= e.cfg.ContextBound || len(others) == 0):
			next = cur
		case curEnabled:
			k := e.choice(1 + len(others))
			if k == 0 {
				next = cur
			} else {
				next = others[k-1]
				e.preemptions++
			}
		default: // the running thread blocked or finished: free switch
			if len(others) > 1 && e.cfg.FreeChoiceBound > 0 && e.freeChoices >= e.cfg.FreeChoiceBound {
				// beyond the stated number of non-preemptive choice points the
				// least recently run enabled thread continues (deterministic)
				next = others[0]
				for _, o := range others {
					if o.lastRun < next.lastRun {
						next = o
					}
				}
			} else {
				if len(others) > 1 {
					e.freeChoices++
				}
				next = others[e.choice(len(others))]
			}
		}
		if msg.kind == yieldBlocked || msg.finished {
			spins = 0
		}
		_ = before
		cur = next
	}
}

// ----- mutexes with real semantics (explore mode only) -----

type mutexState struct {
	held    bool
	readers int
}

func (e *Exec) mutexOf(p Value) *mutexState {
	l := e.derefLoc(p.(PtrVal))
	if m, ok := e.hidden[l].(*mutexState); ok {
		return m
	}
	m := &mutexState{}
	e.hidden[l] = m
	return m
}

func (e *Exec) blockUntil(ready func() bool, what string) {
	for !ready() {
		if e.curCoro == nil {
			panic(pathEnd{EndDeadlock, what + " would block" + e.where()})
		}
		e.threadYield(yieldBlocked, ready, what)
	}
}

// ----- channel operations with rendezvous semantics (explore mode) -----

type sendOffer struct {
	ch      *ChanObj
	val     Value
	caseIdx int
}

type recvWait struct {
	ch      *ChanObj
	caseIdx int
}

type commit struct {
	caseIdx int
	val     Value
	ok      bool
}

func (e *Exec) findReceiver(ch *ChanObj) (*thread, int) {
	for _, t := range e.threads {
		if t != e.curThread && t.status == tBlocked && t.committed == nil {
			for _, w := range t.waitRecv {
				if w.ch == ch {
					return t, w.caseIdx
				}
			}
		}
	}
	return nil, 0
}

func (e *Exec) findSender(ch *ChanObj) (*thread, sendOffer) {
	for _, t := range e.threads {
		if t != e.curThread && t.status == tBlocked && t.committed == nil {
			for _, o := range t.waitSend {
				if o.ch == ch {
					return t, o
				}
			}
		}
	}
	return nil, sendOffer{}
}

func (t *thread) clearWaits() { t.waitRecv, t.waitSend = nil, nil }

func (e *Exec) canSend(ch *ChanObj) bool {
	if ch == nil {
		return false
	}
	if ch.closed || len(ch.buf) < ch.cap {
		return true
	}
	r, _ := e.findReceiver(ch)
	return r != nil
}

func (e *Exec) canRecv(ch *ChanObj) bool {
	if ch == nil {
		return false
	}
	if len(ch.buf) > 0 || ch.closed {
		return true
	}
	if ch.timer {
		return e.timerTicks > 0
	}
	s, _ := e.findSender(ch)
	return s != nil
}

// doSendNow performs a send that canSend reported possible.
func (e *Exec) doSendNow(ch *ChanObj, v Value) {
	if ch.closed {
		panic(e.panicEnd("send on closed channel"))
	}
	if r, idx := e.findReceiver(ch); r != nil && len(ch.buf) == 0 {
		r.committed = &commit{caseIdx: idx, val: v, ok: true}
		r.clearWaits()
		return
	}
	ch.buf = append(ch.buf, v)
}

// doRecvNow performs a receive that canRecv reported possible.
func (e *Exec) doRecvNow(ch *ChanObj) (Value, bool) {
	if ch.timer && e.timerTicks > 0 {
		e.timerTicks--
		return e.eng.intercepts["time.Now"](e, nil, nil), true
	}
	if len(ch.buf) > 0 {
		v := ch.buf[0]
		ch.buf = ch.buf[1:]
		// a sender blocked on the full buffer can now proceed on its own
		return v, true
	}
	if s, o := e.findSender(ch); s != nil {
		s.committed = &commit{caseIdx: o.caseIdx, ok: true}
		s.clearWaits()
		return o.val, true
	}
	return e.zero(ch.et), false // closed
}

func (e *Exec) exploreSend(ch ChanVal, v Value) {
	e.syncPoint("chan send")
	me := e.curThread
	for !e.canSend(ch.c) {
		if ch.c != nil {
			me.waitSend = []sendOffer{{ch.c, v, 0}}
		}
		e.threadYield(yieldBlocked, func() bool { return me.committed != nil || e.canSendFor(me, ch.c) }, "chan send")
		me = e.curThread
		if me.committed != nil {
			me.committed = nil
			return
		}
		me.clearWaits()
	}
	e.doSendNow(ch.c, v)
	e.syncPoint("after send")
}

// canSendFor / canRecvFor: readiness of a parked thread t (evaluated by the scheduler).
func (e *Exec) canSendFor(t *thread, ch *ChanObj) bool {
	if ch == nil {
		return false
	}
	if ch.closed || len(ch.buf) < ch.cap {
		return true
	}
	for _, o := range e.threads {
		if o != t && o.status == tBlocked && o.committed == nil {
			for _, w := range o.waitRecv {
				if w.ch == ch {
					return true
				}
			}
		}
	}
	return false
}

func (e *Exec) canRecvFor(t *thread, ch *ChanObj) bool {
	if ch == nil {
		return false
	}
	if len(ch.buf) > 0 || ch.closed || (ch.timer && e.timerTicks > 0) {
		return true
	}
	for _, o := range e.threads {
		if o != t && o.status == tBlocked && o.committed == nil {
			for _, s := range o.waitSend {
				if s.ch == ch {
					return true
				}
			}
		}
	}
	return false
}

func (e *Exec) exploreRecv(ch ChanVal) (Value, bool) {
	e.syncPoint("chan receive")
	me := e.curThread
	for !e.canRecv(ch.c) {
		if ch.c != nil {
			me.waitRecv = []recvWait{{ch.c, 0}}
		}
		e.threadYield(yieldBlocked, func() bool { return me.committed != nil || e.canRecvFor(me, ch.c) }, "chan receive")
		me = e.curThread
		if c := me.committed; c != nil {
			me.committed = nil
			return c.val, c.ok
		}
		me.clearWaits()
	}
	return e.doRecvNow(ch.c)
}

func (e *Exec) exploreSelect(fr *Frame, x *ssa.Select) Value {
	e.syncPoint("select")
	t := e.tb
	me := e.curThread
	mkRes := func() TupleVal {
		res := TupleVal{nil, t.False()}
		for _, st := range x.States {
			if st.Dir == types.RecvOnly {
				res = append(res, e.zero(st.Chan.Type().Underlying().(*types.Chan).Elem()))
			}
		}
		return res
	}
	fill := func(res TupleVal, pick int, v Value, ok bool) TupleVal {
		res[0] = t.Const(64, uint64(pick))
		if x.States[pick].Dir == types.RecvOnly {
			res[1] = t.Bool(ok)
			ri := 2
			for i, s := range x.States {
				if s.Dir == types.RecvOnly {
					if i == pick {
						res[ri] = v
					}
					ri++
				}
			}
		}
		return res
	}
	chans := make([]*ChanObj, len(x.States))
	for i, st := range x.States {
		chans[i] = e.get(fr, st.Chan).(ChanVal).c
	}
	for {
		var ready []int
		for i, st := range x.States {
			if st.Dir == types.SendOnly {
				if e.canSend(chans[i]) {
					ready = append(ready, i)
				}
			} else if e.canRecv(chans[i]) {
				ready = append(ready, i)
			}
		}
		if len(ready) > 0 {
			pick := ready[0]
			if len(ready) > 1 {
				pick = ready[e.choice(len(ready))]
			}
			if x.States[pick].Dir == types.SendOnly {
				e.doSendNow(chans[pick], e.get(fr, x.States[pick].Send))
				return fill(mkRes(), pick, nil, false)
			}
			v, ok := e.doRecvNow(chans[pick])
			return fill(mkRes(), pick, v, ok)
		}
		if !x.Blocking {
			res := mkRes()
			res[0] = t.Const(64, ^uint64(0))
			return res
		}
		me.clearWaits()
		for i, st := range x.States {
			if chans[i] == nil {
				continue
			}
			if st.Dir == types.SendOnly {
				me.waitSend = append(me.waitSend, sendOffer{chans[i], e.get(fr, st.Send), i})
			} else {
				me.waitRecv = append(me.waitRecv, recvWait{chans[i], i})
			}
		}
		e.threadYield(yieldBlocked, func() bool {
			if me.committed != nil {
				return true
			}
			for i, st := range x.States {
				if st.Dir == types.SendOnly {
					if e.canSendFor(me, chans[i]) {
						return true
					}
				} else if e.canRecvFor(me, chans[i]) {
					return true
				}
			}
			return false
		}, "select")
		me = e.curThread
		if c := me.committed; c != nil {
			me.committed = nil
			return fill(mkRes(), c.caseIdx, c.val, c.ok)
		}
		me.clearWaits()
	}
}

// inHarnessCode: the innermost frame with a source position belongs to a harness file.
func (e *Exec) inHarnessCode() bool {
	for f := e.curFrame; f != nil; f = f.parent {
		if f.fn.Pkg == nil && f.fn.Parent() == nil {
			continue // synthetic wrapper
		}
		if f.fn.Pkg != nil && f.fn.Pkg.Pkg.Path() == "sync/atomic" {
			continue
		}
		pos := f.fn.Pos()
		if !pos.IsValid() {
			continue
		}
		return strings.Contains(e.eng.fset.Position(pos).Filename, "zz_verif_")
	}
	return false
}
