package main

// Harness file selection: a check loads only the harness files its own
// harness functions (transitively) need, so that a refactor of pion/ice that
// breaks the compilation of some OTHER property's harness (an internal
// function whose signature changed) does not make this check inconclusive.

import (
	"go/ast"
	"go/parser"
	"go/token"
	"path/filepath"
	"sort"
	"strings"
)

// harnessClosure returns the harness files (real paths, non-test) needed for
// the given harness functions; nil wants = all files.
func harnessClosure(harnessDir string, wants []string) ([]string, error) {
	files, err := filepath.Glob(filepath.Join(harnessDir, "*.go"))
	if err != nil {
		return nil, err
	}
	sort.Strings(files)
	var src []string
	for _, f := range files {
		if !strings.HasSuffix(f, "_test.go") {
			src = append(src, f)
		}
	}
	if wants == nil {
		return src, nil
	}
	fset := token.NewFileSet()
	declIn := map[string]string{}      // top-level name -> file
	methodsOf := map[string][]string{} // receiver type -> files declaring methods on it
	refs := map[string]map[string]bool{}
	for _, f := range src {
		af, err := parser.ParseFile(fset, f, nil, 0)
		if err != nil {
			return nil, err
		}
		for _, d := range af.Decls {
			switch d := d.(type) {
			case *ast.FuncDecl:
				if d.Recv == nil {
					if d.Name.Name != "init" {
						declIn[d.Name.Name] = f
					}
				} else if len(d.Recv.List) == 1 {
					t := d.Recv.List[0].Type
					if s, ok := t.(*ast.StarExpr); ok {
						t = s.X
					}
					if id, ok := t.(*ast.Ident); ok {
						methodsOf[id.Name] = append(methodsOf[id.Name], f)
					}
				}
			case *ast.GenDecl:
				for _, sp := range d.Specs {
					switch sp := sp.(type) {
					case *ast.TypeSpec:
						declIn[sp.Name.Name] = f
					case *ast.ValueSpec:
						for _, n := range sp.Names {
							declIn[n.Name] = f
						}
					}
				}
			}
		}
		r := map[string]bool{}
		ast.Inspect(af, func(n ast.Node) bool {
			if id, ok := n.(*ast.Ident); ok {
				r[id.Name] = true
			}
			return true
		})
		refs[f] = r
	}
	need := map[string]bool{}
	var work []string
	add := func(f string) {
		if f != "" && !need[f] {
			need[f] = true
			work = append(work, f)
		}
	}
	for _, f := range src { // the vocabulary and the registry are always needed (native runner)
		b := filepath.Base(f)
		if b == "env.go" || b == "registry.go" {
			add(f)
		}
	}
	for _, w := range wants {
		add(declIn[w])
	}
	for len(work) > 0 {
		f := work[0]
		work = work[1:]
		for name := range refs[f] {
			if df, ok := declIn[name]; ok {
				add(df)
			}
			for _, mf := range methodsOf[name] {
				add(mf)
			}
		}
	}
	var out []string
	for _, f := range src {
		if need[f] {
			out = append(out, f)
		}
	}
	return out, nil
}
