package main

// Cheap interval reasoning that answers branch conditions implied by simple
// bounds in the path condition (x <= 9, lo <= y <= hi) without a solver call.
// Sound: a condition is decided here only when it follows from unsigned
// intervals that over-approximate every term; everything else goes to z3.

type ival struct {
	lo, hi uint64
}

func (e *Exec) noteBounds(c *Node) {
	switch c.op {
	case OBAnd:
		e.noteBounds(c.args[0])
		e.noteBounds(c.args[1])
	case OUle, OUlt, OSle, OSlt:
		a, b := c.args[0], c.args[1]
		strict := c.op == OUlt || c.op == OSlt
		signed := c.op == OSle || c.op == OSlt
		e.noteCmp(a, b, strict, signed)
	case OBNot:
		in := c.args[0]
		switch in.op {
		case OUle, OSle: // !(a <= b)  ==  b < a
			e.noteCmp(in.args[1], in.args[0], true, in.op == OSle)
		case OUlt, OSlt: // !(a < b)  ==  b <= a
			e.noteCmp(in.args[1], in.args[0], false, in.op == OSlt)
		}
	case OEq:
		a, b := c.args[0], c.args[1]
		if b.IsConst() && a.w > 0 && a.w <= 64 {
			e.setBound(a, b.val, b.val)
		}
	}
}

// noteCmp records a <(=) b when one side is a constant and the other a
// variable (possibly zero-extended).
func (e *Exec) noteCmp(a, b *Node, strict, signed bool) {
	if a.w == 0 || a.w > 64 {
		return
	}
	half := uint64(1) << uint(a.w-1)
	if b.IsConst() { // a <(=) const
		if signed && b.val >= half {
			return // negative bound: not tracked
		}
		if signed {
			// a <=s c with c >= 0 only bounds a from above if a is known non-negative
			if r := e.rng(a); r.hi >= half {
				return
			}
		}
		hi := b.val
		if strict {
			if hi == 0 {
				return
			}
			hi--
		}
		e.setBound(a, 0, hi)
	} else if a.IsConst() { // const <(=) b
		if signed && a.val >= half {
			return
		}
		lo := a.val
		if strict {
			lo++
		}
		if signed {
			// 0 <= c <=s b: b is non-negative, so as unsigned it lies in [c, 2^(w-1)-1]
			e.setBound(b, lo, half-1)
			return
		}
		e.setBound(b, lo, mask(b.w))
	}
}

func (e *Exec) setBound(n *Node, lo, hi uint64) {
	for n.op == OZExt {
		n = n.args[0]
	}
	if n.op != OVar || n.w == 0 || n.w > 64 {
		return
	}
	if e.bounds == nil {
		e.bounds = map[*Node]ival{}
	}
	cur, ok := e.bounds[n]
	if !ok {
		cur = ival{0, mask(n.w)}
	}
	if lo > cur.lo {
		cur.lo = lo
	}
	if hi < cur.hi {
		cur.hi = hi
	}
	if cur.lo <= cur.hi {
		e.bounds[n] = cur
	}
}

// rng: unsigned interval over-approximating n (w <= 64).
func (e *Exec) rng(n *Node) ival {
	full := ival{0, mask(n.w)}
	if n.w == 0 || n.w > 64 {
		return ival{0, ^uint64(0)}
	}
	switch n.op {
	case OConst:
		return ival{n.val, n.val}
	case OVar:
		if b, ok := e.bounds[n]; ok {
			return b
		}
		return full
	case OZExt:
		if n.args[0].w > 64 {
			return full
		}
		return e.rng(n.args[0])
	case OExtract:
		if n.lo == 0 && n.args[0].w <= 64 {
			r := e.rng(n.args[0])
			if r.hi <= mask(n.w) {
				return r
			}
		}
		return full
	case OConcat:
		h, l := n.args[0], n.args[1]
		if h.w > 64 || l.w > 64 {
			return full
		}
		rh, rl := e.rng(h), e.rng(l)
		// value = h * 2^lw + l, fits in w <= 64 bits by construction
		return ival{rh.lo<<uint(l.w) | rl.lo, rh.hi<<uint(l.w) | mask(l.w)&maxU(rl.hi, 0)}.fix(rh, rl, l.w)
	case OAdd:
		a, b := e.rng(n.args[0]), e.rng(n.args[1])
		m := mask(n.w)
		if b.lo == b.hi && b.lo > m/2 { // adding a negative constant: subtraction
			sub := (m - b.lo) + 1
			if a.lo >= sub {
				return ival{a.lo - sub, a.hi - sub}
			}
			return full
		}
		if a.hi <= m-b.hi { // no wrap
			return ival{a.lo + b.lo, a.hi + b.hi}
		}
		return full
	case OSub:
		a, b := e.rng(n.args[0]), e.rng(n.args[1])
		if a.lo >= b.hi {
			return ival{a.lo - b.hi, a.hi - b.lo}
		}
		return full
	case OAnd:
		a, b := e.rng(n.args[0]), e.rng(n.args[1])
		return ival{0, minU(a.hi, b.hi)}
	case OURem:
		b := e.rng(n.args[1])
		if b.lo > 0 {
			return ival{0, b.hi - 1}
		}
		return full
	case OUDiv:
		a, b := e.rng(n.args[0]), e.rng(n.args[1])
		if b.lo > 0 {
			return ival{a.lo / b.hi, a.hi / b.lo}
		}
		return full
	case OIte:
		a, b := e.rng(n.args[1]), e.rng(n.args[2])
		return ival{minU(a.lo, b.lo), maxU(a.hi, b.hi)}
	}
	return full
}

func (r ival) fix(rh, rl ival, lw int) ival {
	// exact bounds of h*2^lw + l
	return ival{rh.lo<<uint(lw) + rl.lo, rh.hi<<uint(lw) + rl.hi}
}

func minU(a, b uint64) uint64 {
	if a < b {
		return a
	}
	return b
}
func maxU(a, b uint64) uint64 {
	if a > b {
		return a
	}
	return b
}

// tri: 1 = certainly true, 0 = certainly false, -1 = unknown.
func (e *Exec) tri(c *Node) int {
	switch c.op {
	case OConst:
		return int(c.val)
	case OBNot:
		if r := e.tri(c.args[0]); r >= 0 {
			return 1 - r
		}
	case OBAnd:
		a, b := e.tri(c.args[0]), e.tri(c.args[1])
		if a == 0 || b == 0 {
			return 0
		}
		if a == 1 && b == 1 {
			return 1
		}
	case OBOr:
		a, b := e.tri(c.args[0]), e.tri(c.args[1])
		if a == 1 || b == 1 {
			return 1
		}
		if a == 0 && b == 0 {
			return 0
		}
	case OUlt, OUle, OSlt, OSle, OEq:
		x, y := c.args[0], c.args[1]
		if x.w == 0 || x.w > 64 {
			return -1
		}
		a, b := e.rng(x), e.rng(y)
		if c.op == OSlt || c.op == OSle {
			half := uint64(1) << uint(x.w-1)
			if a.hi >= half || b.hi >= half {
				return -1 // may be negative: no conclusion
			}
		}
		switch c.op {
		case OUlt, OSlt:
			if a.hi < b.lo {
				return 1
			}
			if a.lo >= b.hi {
				return 0
			}
		case OUle, OSle:
			if a.hi <= b.lo {
				return 1
			}
			if a.lo > b.hi {
				return 0
			}
		case OEq:
			if a.hi < b.lo || b.hi < a.lo {
				return 0
			}
			if a.lo == a.hi && b.lo == b.hi && a.lo == b.lo {
				return 1
			}
		}
	}
	return -1
}
