package main

// One live solver process per worker (z3 -in / cvc5 --incremental); queries are
// self-contained texts separated by (reset). Any "(error" line makes the answer
// inconclusive.

import (
	"bufio"
	"fmt"
	"io"
	"os"
	"os/exec"
	"strconv"
	"strings"
	"sync"
	"sync/atomic"
	"time"
)

type Verdict int

const (
	Unsat Verdict = iota
	Sat
	Unknown
)

func (v Verdict) String() string { return [...]string{"unsat", "sat", "unknown"}[v] }

type SolverKind struct {
	Name string
	Args []string
}

var (
	SolverZ3    = SolverKind{"z3", []string{"z3", "-in"}}
	SolverZ3New = SolverKind{"z3-new", []string{"z3-new", "-in"}}
	SolverCVC5  = SolverKind{"cvc5", []string{"cvc5", "--incremental", "--produce-models", "--lang=smt2"}}
	SolverCVC5I = SolverKind{"cvc5-bv-as-int", []string{"cvc5", "--incremental", "--produce-models", "--lang=smt2", "--solve-bv-as-int=sum"}}
)

type Solver struct {
	// cross: secondary solvers (thorough tier) that must agree on every
	// discharged assertion batch
	cross []*Solver
	kind  SolverKind
	cmd   *exec.Cmd
	in    io.WriteCloser
	out   *bufio.Reader
	nq    int
	dead  bool
	stats *SolverStats
}

type SolverStats struct {
	mu      sync.Mutex
	Queries int64
	Sat     int64
	Unsat   int64
	Unknown int64
	Nanos   int64
	MaxNs   int64
}

func (s *SolverStats) add(v Verdict, d time.Duration) {
	atomic.AddInt64(&s.Queries, 1)
	switch v {
	case Sat:
		atomic.AddInt64(&s.Sat, 1)
	case Unsat:
		atomic.AddInt64(&s.Unsat, 1)
	default:
		atomic.AddInt64(&s.Unknown, 1)
	}
	atomic.AddInt64(&s.Nanos, int64(d))
	s.mu.Lock()
	if int64(d) > s.MaxNs {
		s.MaxNs = int64(d)
	}
	s.mu.Unlock()
}

func NewSolver(kind SolverKind, stats *SolverStats) (*Solver, error) {
	s := &Solver{kind: kind, stats: stats}
	if err := s.start(); err != nil {
		return nil, err
	}
	return s, nil
}

func (s *Solver) start() error {
	cmd := exec.Command(s.kind.Args[0], s.kind.Args[1:]...)
	in, err := cmd.StdinPipe()
	if err != nil {
		return err
	}
	out, err := cmd.StdoutPipe()
	if err != nil {
		return err
	}
	cmd.Stderr = cmd.Stdout
	if err := cmd.Start(); err != nil {
		return err
	}
	s.cmd, s.in, s.out, s.dead = cmd, in, bufio.NewReaderSize(out, 1<<20), false
	s.nq = 0
	return nil
}

func (s *Solver) Close() {
	if s.cmd != nil && !s.dead {
		s.in.Close()
		s.cmd.Process.Kill()
		s.cmd.Wait()
		s.dead = true
	}
}

type Model map[string]uint64

// Check: query = declarations + asserts. getVals: extra terms (SMT text) whose
// values are wanted on sat, returned in order in vals.
func (s *Solver) Check(query string, timeoutMs int, getVals []string) (Verdict, []uint64, string) {
	if s.dead {
		if err := s.start(); err != nil {
			return Unknown, nil, "solver restart failed: " + err.Error()
		}
	}
	s.nq++
	marker := fmt.Sprintf("<<END-%d>>", s.nq)
	var sb strings.Builder
	isZ3 := s.kind.Name == "z3" || s.kind.Name == "z3-new"
	if isZ3 {
		// push/pop scopes declarations too and is ~10x cheaper than (reset)
		if s.nq > 1 {
			if s.nq%64 == 0 {
				// z3 slows down as popped scopes accumulate: start afresh regularly
				sb.WriteString("(reset)\n")
			} else {
				sb.WriteString("(pop 1)\n")
			}
		}
		fmt.Fprintf(&sb, "(set-option :timeout %d)\n(push 1)\n", timeoutMs)
	} else {
		sb.WriteString("(reset)\n")
		fmt.Fprintf(&sb, "(set-option :tlimit-per %d)\n(set-logic ALL)\n", timeoutMs)
	}
	sb.WriteString(query)
	sb.WriteString("(check-sat)\n")
	fmt.Fprintf(&sb, "(echo \"%s\")\n", marker)
	t0 := time.Now()
	lines, err := s.roundTrip(sb.String(), marker, time.Duration(timeoutMs)*time.Millisecond+20*time.Second)
	if dd := os.Getenv("VERIF_DUMP_SLOW"); dd != "" && time.Since(t0) > time.Duration(envInt("VERIF_SLOW_MS", 50))*time.Millisecond {
		os.WriteFile(fmt.Sprintf("%s/q_%d_%d.smt2", dd, os.Getpid(), s.nq), []byte(sb.String()+fmt.Sprintf("; took %v getvals=%d\n", time.Since(t0), len(getVals))), 0o644)
	}
	if err != nil {
		s.Close()
		s.stats.add(Unknown, time.Since(t0))
		if dd := os.Getenv("VERIF_DUMP_SLOW"); dd != "" {
			os.WriteFile(fmt.Sprintf("%s/FAIL_%d_%d.smt2", dd, os.Getpid(), s.nq), []byte(sb.String()+"; "+err.Error()), 0o644)
		}
		return Unknown, nil, err.Error()
	}
	v := Unknown
	reason := ""
	for _, l := range lines {
		switch {
		case strings.HasPrefix(l, "(error"):
			reason = l
		case l == "sat":
			v = Sat
		case l == "unsat":
			v = Unsat
		case l == "unknown" || l == "timeout":
			v = Unknown
		}
	}
	if reason != "" {
		v = Unknown
	}
	var vals []uint64
	if v == Sat && len(getVals) > 0 {
		marker2 := marker + "v"
		var q strings.Builder
		// chunked get-value keeps lines manageable
		q.WriteString("(get-value (")
		for _, g := range getVals {
			q.WriteString(g)
			q.WriteByte(' ')
		}
		q.WriteString("))\n")
		fmt.Fprintf(&q, "(echo \"%s\")\n", marker2)
		t1 := time.Now()
		ls, err := s.roundTrip(q.String(), marker2, 30*time.Second)
		if dd := os.Getenv("VERIF_DUMP_SLOW"); dd != "" && time.Since(t1) > 200*time.Millisecond {
			os.WriteFile(fmt.Sprintf("%s/GV_%d_%d.smt2", dd, os.Getpid(), s.nq), []byte(sb.String()+q.String()+fmt.Sprintf("; getvalue took %v err=%v\n", time.Since(t1), err)), 0o644)
		}
		if err != nil {
			s.Close()
			s.stats.add(Unknown, time.Since(t0))
			return Unknown, nil, err.Error()
		}
		vals, err = parseValues(strings.Join(ls, " "), len(getVals))
		if err != nil {
			s.stats.add(Unknown, time.Since(t0))
			return Unknown, nil, "model parse: " + err.Error()
		}
	}
	s.stats.add(v, time.Since(t0))
	return v, vals, reason
}

func (s *Solver) roundTrip(text, marker string, limit time.Duration) ([]string, error) {
	type res struct {
		lines []string
		err   error
	}
	ch := make(chan res, 1)
	go func() {
		if _, err := io.WriteString(s.in, text); err != nil {
			ch <- res{nil, err}
			return
		}
		var lines []string
		for {
			l, err := s.out.ReadString('\n')
			if err != nil {
				ch <- res{lines, fmt.Errorf("solver died: %v", err)}
				return
			}
			l = strings.TrimSpace(l)
			if l == marker || l == "\""+marker+"\"" {
				ch <- res{lines, nil}
				return
			}
			if l != "" {
				lines = append(lines, l)
			}
		}
	}()
	select {
	case r := <-ch:
		return r.lines, r.err
	case <-time.After(limit):
		s.cmd.Process.Kill()
		return nil, fmt.Errorf("solver hard timeout")
	}
}

// parseValues parses "((t1 #x..) (t2 #b..) (t3 true))" into n values by
// scanning for the value literal that closes each pair.
func parseValues(s string, n int) ([]uint64, error) {
	var vals []uint64
	// tokenise at depth: find literals that are immediately followed by ')'
	// and preceded by whitespace; terms themselves may contain literals, so
	// take the last literal of each depth-1 group.
	depth := 0
	start := -1
	for i := 0; i < len(s); i++ {
		switch s[i] {
		case '(':
			depth++
			if depth == 2 {
				start = i
			}
		case ')':
			if depth == 2 && start >= 0 {
				grp := strings.TrimSpace(s[start+1 : i])
				// value = last whitespace-separated token, or (_ bvN w)
				var tok string
				if strings.HasSuffix(grp, ")") {
					j := strings.LastIndex(grp, "(_ bv")
					if j < 0 {
						return nil, fmt.Errorf("bad value in %q", grp)
					}
					tok = grp[j:]
				} else {
					j := strings.LastIndexAny(grp, " \t")
					tok = grp[j+1:]
				}
				v, err := parseLit(tok)
				if err != nil {
					return nil, err
				}
				vals = append(vals, v)
				start = -1
			}
			depth--
		}
	}
	if len(vals) != n {
		return nil, fmt.Errorf("expected %d values, got %d in %q", n, len(vals), trunc(s, 300))
	}
	return vals, nil
}

func trunc(s string, n int) string {
	if len(s) > n {
		return s[:n] + "..."
	}
	return s
}

func parseLit(t string) (uint64, error) {
	switch {
	case t == "true":
		return 1, nil
	case t == "false":
		return 0, nil
	case strings.HasPrefix(t, "#x"):
		if len(t) > 18 {
			t = "#x" + t[len(t)-16:]
		}
		return strconv.ParseUint(t[2:], 16, 64)
	case strings.HasPrefix(t, "#b"):
		if len(t) > 66 {
			t = "#b" + t[len(t)-64:]
		}
		return strconv.ParseUint(t[2:], 2, 64)
	case strings.HasPrefix(t, "(_ bv"):
		f := strings.Fields(t[5:])
		return strconv.ParseUint(f[0], 10, 64)
	}
	return 0, fmt.Errorf("bad literal %q", t)
}
