package main

// Cooperative goroutines for GoPolicy "queue": every `go` statement creates a
// coroutine that runs in its own host goroutine but only while it holds the
// baton. A coroutine runs until it blocks (channel receive/send/select with
// nothing ready, WaitGroup.Wait, spin-wait), parks there, and continues from
// that very point when it is resumed — one legal schedule per path, no
// restarts. The main (harness) thread resumes parked coroutines at
// verifRunGoroutines() and whenever it would block itself.

type coroMsg struct {
	finished bool
	panicVal interface{}
	kind     int
	ready    func() bool
	what     string
}

type coro struct {
	name    string
	thunk   func()
	resume  chan bool // true = run, false = abort (path is over)
	yielded chan coroMsg
	started bool
	done    bool
	// interpreter context of the coroutine
	frame *Frame
	depth int
}

type coroAbort struct{}

func (e *Exec) spawnCoro(name string, thunk func()) {
	e.coros = append(e.coros, &coro{name: name, thunk: thunk, resume: make(chan bool), yielded: make(chan coroMsg)})
}

// runCoro gives c the baton until it parks or finishes. Reports whether it
// executed any SSA instruction (progress).
func (e *Exec) runCoro(c *coro) bool {
	if c.done {
		return false
	}
	before := e.steps
	savedFrame, savedDepth, savedCur := e.curFrame, e.depth, e.curCoro
	e.curCoro = c
	if !c.started {
		c.started = true
		e.curFrame, e.depth = nil, 0
		go func() {
			defer func() {
				r := recover()
				if _, isAbort := r.(coroAbort); isAbort {
					return
				}
				c.done = true
				c.yielded <- coroMsg{finished: true, panicVal: r}
			}()
			if !<-c.resume {
				panic(coroAbort{})
			}
			c.thunk()
		}()
	} else {
		e.curFrame, e.depth = c.frame, c.depth
	}
	c.resume <- true
	msg := <-c.yielded
	c.frame, c.depth = e.curFrame, e.depth
	e.curFrame, e.depth, e.curCoro = savedFrame, savedDepth, savedCur
	if msg.panicVal != nil {
		panic(msg.panicVal) // path-ending event inside the coroutine ends the path
	}
	return e.steps > before || msg.finished
}

// park: called by a coroutine at a blocking point; returns when resumed.
func (e *Exec) park() {
	c := e.curCoro
	c.yielded <- coroMsg{}
	if !<-c.resume {
		panic(coroAbort{})
	}
}

// schedule runs rounds over the parked coroutines until a whole round makes
// no progress. Reports whether anything progressed.
func (e *Exec) schedule() bool {
	any := false
	for round := 0; round < 64; round++ {
		progressed := false
		for i := 0; i < len(e.coros); i++ { // coroutines spawned during the round are included
			c := e.coros[i]
			if c.done || c == e.curCoro {
				continue
			}
			if e.runCoro(c) {
				progressed = true
			}
		}
		if !progressed {
			break
		}
		any = true
	}
	return any
}

// blocked: the running thread cannot proceed. In a coroutine: park and report
// true (caller re-checks readiness). In the main thread: let the others run;
// true if any of them progressed.
func (e *Exec) blocked() bool {
	if e.exploring() {
		return false // explore mode uses blockUntil/threadYield
	}
	if e.curCoro != nil {
		e.park()
		return true
	}
	if len(e.coros) == 0 || e.yieldBudget <= 0 {
		return false
	}
	e.yieldBudget--
	return e.schedule()
}

// abortCoros releases the host goroutines of coroutines that are still parked
// when the path ends.
func (e *Exec) abortCoros() {
	for _, c := range e.coros {
		if c.started && !c.done {
			c.done = true
			c.resume <- false
		}
	}
	e.coros = nil
}
