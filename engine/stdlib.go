package main

// Standard-library leaves: assembly-backed primitives get symbolic intrinsics;
// pure functions whose arguments are all concrete are evaluated natively (the
// engine is built with the same toolchain as the code under test).

import (
	"crypto/sha1"
	"fmt"
	"go/types"
	"hash/crc32"
	"net"
	"strconv"
	"strings"

	"golang.org/x/tools/go/ssa"
)

func (e *Exec) goString(v Value) (string, bool) {
	s, ok := v.(StringVal)
	if !ok || s.opq {
		return "", false
	}
	return s.Concrete()
}

func (e *Exec) goInt(v Value) (int64, bool) {
	n, ok := v.(*Node)
	if !ok || !n.IsConst() {
		return 0, false
	}
	return sext64(n.val, n.w), true
}

func (e *Exec) errNil() IfaceVal { return IfaceVal{} }

func (e *Exec) stringSlice(ss []string) SliceVal {
	st := types.Typ[types.String]
	arr := e.newArrayLoc(st, len(ss))
	for i, s := range ss {
		arr.sub[i].v = e.strConst(s)
	}
	return SliceVal{arr: arr, len: len(ss), cap: len(ss), elem: st}
}

func (e *Exec) indexByte(b []*Node, c *Node) *Node {
	// first index i with b[i]==c, else -1
	t := e.tb
	r := t.Const(64, ^uint64(0))
	for i := len(b) - 1; i >= 0; i-- {
		r = t.Ite(t.Eq(b[i], c), t.Const(64, uint64(i)), r)
	}
	return r
}

// passthrough: run the real body (used when a native shortcut does not apply).
func (e *Exec) passthrough(fn *ssa.Function, args []Value) Value {
	if fn.Blocks == nil {
		panic(e.unsupported("external function " + fn.String() + " with symbolic arguments"))
	}
	e.depth++
	e.funcs[fn] = true
	fr := &Frame{fn: fn, env: make(map[ssa.Value]Value, 32), parent: e.curFrame}
	saved := e.curFrame
	e.curFrame = fr
	for i, p := range fn.Params {
		fr.env[p] = args[i]
	}
	res := e.runFrame(fr)
	e.curFrame = saved
	e.depth--
	return res
}

func registerStdlib(g *Engine) {
	ic := g.intercepts

	ic["internal/abi.NoEscape"] = func(e *Exec, fn *ssa.Function, a []Value) Value { return a[0] }
	ic["internal/abi.Escape"] = func(e *Exec, fn *ssa.Function, a []Value) Value { return a[0] }
	ic["internal/bytealg.IndexByteString"] = func(e *Exec, fn *ssa.Function, a []Value) Value {
		return e.indexByte(a[0].(StringVal).b, e.scalar(a[1]))
	}
	ic["internal/bytealg.IndexByte"] = func(e *Exec, fn *ssa.Function, a []Value) Value {
		return e.indexByte(e.bytesOfSlice(a[0].(SliceVal)), e.scalar(a[1]))
	}
	ic["internal/bytealg.Equal"] = func(e *Exec, fn *ssa.Function, a []Value) Value {
		return e.strEq(StringVal{b: e.bytesOfSlice(a[0].(SliceVal))}, StringVal{b: e.bytesOfSlice(a[1].(SliceVal))})
	}
	ic["bytes.Equal"] = ic["internal/bytealg.Equal"]
	ic["internal/bytealg.MakeNoZero"] = func(e *Exec, fn *ssa.Function, a []Value) Value {
		n := e.concreteInt(a[0])
		bt := types.Typ[types.Uint8]
		return SliceVal{arr: e.newArrayLoc(bt, n), len: n, cap: n, elem: bt}
	}
	ic["internal/bytealg.CountString"] = func(e *Exec, fn *ssa.Function, a []Value) Value {
		t := e.tb
		r := t.Const(64, 0)
		c := e.scalar(a[1])
		for _, b := range a[0].(StringVal).b {
			r = t.Bin(OAdd, r, t.Ite(t.Eq(b, c), t.Const(64, 1), t.Const(64, 0)))
		}
		return r
	}
	ic["internal/stringslite.Index"] = nil
	delete(ic, "internal/stringslite.Index")

	// concrete-only native shortcuts; symbolic arguments run the real body
	concStr1 := func(f func(string) string) interceptFn {
		return func(e *Exec, fn *ssa.Function, a []Value) Value {
			if s, ok := e.goString(a[0]); ok {
				return e.strConst(f(s))
			}
			return e.passthrough(fn, a)
		}
	}
	ic["strings.ToLower"] = concStr1(strings.ToLower)
	ic["strings.ToUpper"] = concStr1(strings.ToUpper)
	ic["strings.TrimSpace"] = concStr1(strings.TrimSpace)
	ic["strings.Index"] = func(e *Exec, fn *ssa.Function, a []Value) Value {
		s, ok1 := e.goString(a[0])
		sub, ok2 := e.goString(a[1])
		if ok1 && ok2 {
			return e.tb.Const(64, uint64(int64(strings.Index(s, sub))))
		}
		if ok2 && len(sub) == 1 {
			return e.indexByte(a[0].(StringVal).b, e.tb.Const(8, uint64(sub[0])))
		}
		return e.symIndex(a[0].(StringVal), a[1].(StringVal))
	}
	ic["internal/stringslite.Index"] = ic["strings.Index"]
	ic["strings.Contains"] = func(e *Exec, fn *ssa.Function, a []Value) Value {
		idx := ic["strings.Index"](e, fn, a).(*Node)
		return e.tb.Cmp(OSle, e.tb.Const(64, 0), idx)
	}
	ic["strings.Split"] = func(e *Exec, fn *ssa.Function, a []Value) Value {
		s, ok1 := e.goString(a[0])
		sep, ok2 := e.goString(a[1])
		if ok1 && ok2 {
			return e.stringSlice(strings.Split(s, sep))
		}
		return e.passthrough(fn, a)
	}
	ic["strings.Fields"] = func(e *Exec, fn *ssa.Function, a []Value) Value {
		if s, ok := e.goString(a[0]); ok {
			return e.stringSlice(strings.Fields(s))
		}
		return e.passthrough(fn, a)
	}
	ic["strings.EqualFold"] = func(e *Exec, fn *ssa.Function, a []Value) Value {
		s, ok1 := e.goString(a[0])
		u, ok2 := e.goString(a[1])
		if ok1 && ok2 {
			return e.tb.Bool(strings.EqualFold(s, u))
		}
		return e.passthrough(fn, a)
	}
	ic["strconv.Itoa"] = func(e *Exec, fn *ssa.Function, a []Value) Value {
		if n, ok := e.goInt(a[0]); ok {
			return e.strConst(strconv.Itoa(int(n)))
		}
		return e.passthrough(fn, a)
	}
	ic["strconv.Atoi"] = func(e *Exec, fn *ssa.Function, a []Value) Value {
		if s, ok := e.goString(a[0]); ok {
			n, err := strconv.Atoi(s)
			if err != nil {
				return TupleVal{e.tb.Const(64, 0), e.newError(e.strConst(err.Error()))}
			}
			return TupleVal{e.tb.Const(64, uint64(int64(n))), e.errNil()}
		}
		return e.passthrough(fn, a)
	}
	ic["net.ParseIP"] = func(e *Exec, fn *ssa.Function, a []Value) Value {
		s, ok := e.goString(a[0])
		if !ok {
			return e.passthrough(fn, a)
		}
		ip := net.ParseIP(s)
		bt := types.Typ[types.Uint8]
		if ip == nil {
			return SliceVal{elem: bt}
		}
		b := make([]*Node, len(ip))
		for i, x := range ip {
			b[i] = e.tb.Const(8, uint64(x))
		}
		return e.sliceFromBytes(b)
	}
	ic["net.JoinHostPort"] = func(e *Exec, fn *ssa.Function, a []Value) Value {
		h, ok1 := e.goString(a[0])
		p, ok2 := e.goString(a[1])
		if ok1 && ok2 {
			return e.strConst(net.JoinHostPort(h, p))
		}
		return e.passthrough(fn, a)
	}
	ic["net.SplitHostPort"] = func(e *Exec, fn *ssa.Function, a []Value) Value {
		s, ok := e.goString(a[0])
		if !ok {
			return e.passthrough(fn, a)
		}
		h, p, err := net.SplitHostPort(s)
		if err != nil {
			return TupleVal{StringVal{}, StringVal{}, e.newError(e.strConst(err.Error()))}
		}
		return TupleVal{e.strConst(h), e.strConst(p), e.errNil()}
	}
	ic["(net.IP).String"] = func(e *Exec, fn *ssa.Function, a []Value) Value {
		if b, ok := e.concreteBytes(a[0].(SliceVal)); ok {
			return e.strConst(net.IP(b).String())
		}
		return StringVal{opq: true}
	}
	xorBytes := func(e *Exec, fn *ssa.Function, a []Value) Value {
		d, x, y := a[0].(SliceVal), a[1].(SliceVal), a[2].(SliceVal)
		n := x.len
		if y.len < n {
			n = y.len
		}
		if d.len < n {
			panic(e.panicEnd("subtle.XORBytes: dst too short"))
		}
		xb, yb := e.bytesOfSlice(x), e.bytesOfSlice(y)
		dl := d.locs()
		for i := 0; i < n; i++ {
			dl[i].v = e.tb.Bin(OXor, xb[i], yb[i])
		}
		return e.tb.Const(64, uint64(n))
	}
	ic["crypto/subtle.XORBytes"] = xorBytes
	ic["github.com/pion/transport/v4/utils/xor.XorBytes"] = xorBytes
	// errors.As without reflection: walk the Unwrap chain for a value whose
	// dynamic type is (or implements) the target's element type
	ic["errors.As"] = func(e *Exec, fn *ssa.Function, a []Value) Value {
		err := a[0].(IfaceVal)
		tgt := a[1].(IfaceVal)
		pt, ok := tgt.t.(*types.Pointer)
		if !ok {
			panic(e.panicEnd("errors.As: target must be a non-nil pointer"))
		}
		want := pt.Elem()
		for depth := 0; err.t != nil && depth < 10; depth++ {
			match := false
			if it, isIface := want.Underlying().(*types.Interface); isIface {
				match = types.Implements(err.t, it)
			} else {
				match = types.Identical(err.t, want)
			}
			if match {
				if _, isIface := want.Underlying().(*types.Interface); isIface {
					e.store(tgt.v.(PtrVal), err)
				} else {
					e.store(tgt.v.(PtrVal), err.v)
				}
				return e.tb.True()
			}
			m := e.findMethod(err.t, nil, "Unwrap")
			if m == nil {
				break
			}
			r, ok := e.call(m, []Value{err.v}, nil, e.curFrame).(IfaceVal)
			if !ok {
				break
			}
			err = r
		}
		return e.tb.False()
	}
	// reflect: only the nil-pointer probe closeConnAndLog performs
	ic["reflect.ValueOf"] = func(e *Exec, fn *ssa.Function, a []Value) Value {
		box := &Loc{v: a[0]}
		return StructVal{PtrVal{loc: box}, PtrVal{}, e.tb.Const(64, 0)}
	}
	reflBox := func(e *Exec, v Value) IfaceVal {
		sv := v.(StructVal)
		p := sv[0].(PtrVal)
		if p.loc == nil {
			return IfaceVal{}
		}
		return p.loc.v.(IfaceVal)
	}
	ic["(reflect.Value).Kind"] = func(e *Exec, fn *ssa.Function, a []Value) Value {
		iv := reflBox(e, a[0])
		k := uint64(0)
		if iv.t != nil {
			switch iv.t.Underlying().(type) {
			case *types.Pointer:
				k = 22
			case *types.Struct:
				k = 25
			case *types.Interface:
				k = 20
			case *types.Slice:
				k = 23
			case *types.Map:
				k = 21
			case *types.Signature:
				k = 19
			case *types.Chan:
				k = 18
			default:
				panic(e.unsupported("reflect.Kind of " + iv.t.String()))
			}
		}
		return e.tb.Const(64, k)
	}
	ic["(reflect.Value).IsNil"] = func(e *Exec, fn *ssa.Function, a []Value) Value {
		iv := reflBox(e, a[0])
		switch x := iv.v.(type) {
		case PtrVal:
			return e.tb.Bool(x.IsNil())
		case MapVal:
			return e.tb.Bool(x.m == nil)
		case SliceVal:
			return e.tb.Bool(x.arr == nil)
		case ChanVal:
			return e.tb.Bool(x.c == nil)
		case FuncVal:
			return e.tb.Bool(x.fn == nil && x.builtin == nil && x.native == "")
		}
		panic(e.panicEnd("reflect: IsNil on non-nillable value"))
	}
	ic["errors.Is"] = func(e *Exec, fn *ssa.Function, a []Value) Value {
		return e.tb.Bool(e.errorsIs(a[0].(IfaceVal), a[1].(IfaceVal), 0))
	}
}

// errorsIs: identity / Unwrap chain (the comparable case errors.Is handles);
// custom Is methods are not used by the targeted code.
func (e *Exec) errorsIs(err, target IfaceVal, depth int) bool {
	if err.t == nil || target.t == nil {
		return err.t == nil && target.t == nil
	}
	if depth > 10 {
		return false
	}
	if types.Identical(err.t, target.t) {
		eq := e.valueEq(err.v, target.v)
		if eq.IsConst() && eq.val == 1 {
			return true
		}
		if !eq.IsConst() {
			panic(e.unsupported("errors.Is on symbolic error values"))
		}
	}
	if m := e.findMethod(err.t, nil, "Unwrap"); m != nil {
		r := e.call(m, []Value{err.v}, nil, e.curFrame)
		if inner, ok := r.(IfaceVal); ok {
			return e.errorsIs(inner, target, depth+1)
		}
		if sl, ok := r.(SliceVal); ok {
			for _, l := range sl.locs() {
				if e.errorsIs(l.v.(IfaceVal), target, depth+1) {
					return true
				}
			}
		}
	}
	return false
}

// symIndex: first occurrence of sub in s over symbolic bytes (lengths concrete).
func (e *Exec) symIndex(s, sub StringVal) *Node {
	if s.opq || sub.opq {
		panic(e.unsupported("strings.Index on opaque string"))
	}
	t := e.tb
	n, m := len(s.b), len(sub.b)
	r := t.Const(64, ^uint64(0))
	if m == 0 {
		return t.Const(64, 0)
	}
	for i := n - m; i >= 0; i-- {
		eq := t.True()
		for j := 0; j < m; j++ {
			eq = t.BAnd(eq, t.Eq(s.b[i+j], sub.b[j]))
		}
		r = t.Ite(eq, t.Const(64, uint64(i)), r)
	}
	return r
}

var _ = fmt.Sprintf

func crc32IEEE(b []byte) uint32 { return crc32.ChecksumIEEE(b) }

func sha1sum(b []byte) [20]byte { return sha1.Sum(b) }

// findMethod: like Program.LookupMethod but returns nil when T has no such method.
func (e *Exec) findMethod(T types.Type, pkg *types.Package, name string) *ssa.Function {
	sel := e.eng.prog.MethodSets.MethodSet(T).Lookup(pkg, name)
	if sel == nil {
		return nil
	}
	return e.eng.prog.MethodValue(sel)
}
