package main

// State-field audit: which fields of pion/ice's own structs does the code
// under test touch in a harness, and was the value there ever symbolic? A field
// the repository code reads on some path but that is concrete on every path is
// a place where the harness may be narrower than the property (the report is
// printed with -v and stored in the evidence; it decides nothing).

import (
	"go/types"
	"strings"

	"golang.org/x/tools/go/ssa"
)

type fieldUse struct {
	Uses     int
	Symbolic int
}

func (e *Exec) noteFieldUse(fr *Frame, x *ssa.FieldAddr, l *Loc) {
	fn := x.Parent()
	if fn == nil || fn.Pkg == nil || !strings.HasPrefix(fn.Pkg.Pkg.Path(), "github.com/pion/ice") {
		return
	}
	in, ok := e.repoFn[fn]
	if !ok {
		in = !strings.Contains(e.eng.fset.Position(fn.Pos()).Filename, "zz_verif_")
		if e.repoFn == nil {
			e.repoFn = map[*ssa.Function]bool{}
		}
		e.repoFn[fn] = in
	}
	if !in {
		return
	}
	u := e.fieldUses[x]
	if u == nil {
		if e.fieldUses == nil {
			e.fieldUses = map[*ssa.FieldAddr]*fieldUse{}
		}
		u = &fieldUse{}
		e.fieldUses[x] = u
	}
	u.Uses++
	if n, ok := l.v.(*Node); ok && n != nil && !n.IsConst() {
		u.Symbolic++
	}
}

func fieldName(x *ssa.FieldAddr) string {
	pt, ok := x.X.Type().Underlying().(*types.Pointer)
	if !ok {
		return ""
	}
	st, ok := pt.Elem().Underlying().(*types.Struct)
	if !ok {
		return ""
	}
	name := pt.Elem().String()
	if i := strings.LastIndex(name, "."); i >= 0 {
		name = name[i+1:]
	}
	return name + "." + st.Field(x.Field).Name()
}
