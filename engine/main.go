package main

import (
	"encoding/json"
	"flag"
	"fmt"
	"os"
	"os/exec"
	"path/filepath"
	"runtime"
	"runtime/debug"
	"runtime/pprof"
	"sort"
	"strconv"
	"strings"
	"time"
)

const verifDir = "/verif"

type KnownFinding struct {
	Property string `json:"property"`
	ID       string `json:"id"`
	Status   string `json:"status"` // open | fixed
	Commit   string `json:"commit,omitempty"`
	Harness  string `json:"harness,omitempty"`
	What     string `json:"what"`
}

type KnownFindings struct {
	Findings []KnownFinding `json:"findings"`
}

func (k *KnownFindings) Listed(id string) bool {
	if k == nil {
		return false
	}
	for _, f := range k.Findings {
		if f.ID == id && f.Status == "open" {
			return true
		}
	}
	return false
}

func (k *KnownFindings) Get(id string) *KnownFinding {
	for i := range k.Findings {
		if k.Findings[i].ID == id {
			return &k.Findings[i]
		}
	}
	return nil
}

func loadKnown() *KnownFindings {
	k := &KnownFindings{}
	b, err := os.ReadFile(filepath.Join(verifDir, "known_findings.json"))
	if err == nil {
		if err := json.Unmarshal(b, k); err != nil {
			fmt.Fprintln(os.Stderr, "known_findings.json:", err)
			os.Exit(2)
		}
	}
	return k
}

type replayJob struct {
	ID        string   `json:"id"`
	Harness   string   `json:"harness"`
	Tier      int      `json:"tier"`
	Vector    []uint64 `json:"vector"`
	Label     string   `json:"label,omitempty"`
	Known     []string `json:"known"`
	Decisions []uint64 `json:"decisions,omitempty"` // schedule-dependent counterexamples: the full decision vector
	Observes  []string `json:"observes,omitempty"`
	Property  string   `json:"property,omitempty"`
	What      string   `json:"what,omitempty"`
}

type replayResult struct {
	ID       string   `json:"id"`
	End      string   `json:"end"` // OK | ASSUME | PANIC: msg | HALT
	Fails    []string `json:"fails"`
	Observes []string `json:"observes"`
}

// runNative runs the jobs against the natively compiled code (go test with the
// harness injected through -overlay; /repo is not touched).
var verboseAudit = os.Getenv("VERIF_AUDIT") != ""

func runNative(repoDir, harnessDir string, jobs []replayJob) (map[string]replayResult, string, error) {
	var wants []string
	for _, j := range jobs {
		wants = append(wants, j.Harness)
	}
	return runNativeFiles(repoDir, harnessDir, wants, jobs)
}

func runNativeFiles(repoDir, harnessDir string, wants []string, jobs []replayJob) (map[string]replayResult, string, error) {
	tmp, err := os.MkdirTemp("", "verif-native-")
	if err != nil {
		return nil, "", err
	}
	defer os.RemoveAll(tmp)
	files, _ := harnessClosure(harnessDir, wants)
	if tests, _ := filepath.Glob(filepath.Join(harnessDir, "*_test.go")); len(tests) > 0 {
		files = append(files, tests...)
	}
	repl := map[string]string{}
	for _, f := range files {
		base := filepath.Base(f)
		repl[filepath.Join(repoDir, "zz_verif_"+base)] = f
	}
	ovb, _ := json.Marshal(map[string]interface{}{"Replace": repl})
	ovPath := filepath.Join(tmp, "overlay.json")
	os.WriteFile(ovPath, ovb, 0o644)
	jb, _ := json.Marshal(jobs)
	jobsPath := filepath.Join(tmp, "jobs.json")
	outPath := filepath.Join(tmp, "out.json")
	os.WriteFile(jobsPath, jb, 0o644)
	cmd := exec.Command("go", "test", "-vet=off", "-count=1", "-run", "^TestVerifNative$", "-timeout", "20m", "-overlay", ovPath, ".")
	cmd.Dir = repoDir
	cmd.Env = append(os.Environ(), "GOFLAGS=-mod=mod", "GOPROXY=off", "VERIF_JOBS="+jobsPath, "VERIF_OUT="+outPath)
	out, runErr := cmd.CombinedOutput()
	res := map[string]replayResult{}
	b, err := os.ReadFile(outPath)
	if err != nil {
		return nil, string(out), fmt.Errorf("native run produced no output (%v): %s", runErr, trunc(string(out), 2000))
	}
	var rs []replayResult
	if err := json.Unmarshal(b, &rs); err != nil {
		return nil, string(out), err
	}
	for _, r := range rs {
		res[r.ID] = r
	}
	return res, string(out), nil
}

type sampleOut struct {
	Harness   string   `json:"harness"`
	Kind      string   `json:"kind"`
	Label     string   `json:"label,omitempty"`
	Verdict   string   `json:"verdict,omitempty"`
	Vector    []uint64 `json:"vector,omitempty"`
	Observes  []string `json:"observes,omitempty"`
	Decisions []uint64 `json:"decisions,omitempty"`
	Note      string   `json:"note,omitempty"`
}

func envInt(name string, def int) int {
	if s := os.Getenv(name); s != "" {
		if v, err := strconv.Atoi(s); err == nil {
			return v
		}
	}
	return def
}

func main() {
	debug.SetGCPercent(400)
	if len(os.Args) < 2 {
		fmt.Println("usage: verif check <ID> [--tier quick|thorough] | verif run <harness> | verif list")
		os.Exit(2)
	}
	switch os.Args[1] {
	case "check":
		fs := flag.NewFlagSet("check", flag.ExitOnError)
		tier := fs.String("tier", "", "quick|thorough")
		verbose := fs.Bool("v", false, "verbose")
		only := fs.String("only", "", "run only this harness")
		workers := fs.Int("workers", runtime.NumCPU(), "workers")
		noval := fs.Bool("novalidate", false, "skip native validation (development only; evidence marks it)")
		prof := fs.String("cpuprofile", "", "write cpu profile")
		id := os.Args[2]
		fs.Parse(os.Args[3:])
		if *tier == "" {
			*tier = os.Getenv("VERIF_TIER")
		}
		if *tier != "thorough" {
			*tier = "quick"
		}
		if *prof != "" {
			f, _ := os.Create(*prof)
			pprof.StartCPUProfile(f)
			rc := runCheck(id, *tier, *verbose, *only, *workers, *noval)
			pprof.StopCPUProfile()
			f.Close()
			os.Exit(rc)
		}
		os.Exit(runCheck(id, *tier, *verbose, *only, *workers, *noval))
	case "replay":
		// re-runs a stored counterexample against the natively compiled code
		if len(os.Args) < 3 {
			fmt.Println("usage: verif replay <path>")
			os.Exit(2)
		}
		b, err := os.ReadFile(os.Args[2])
		if err != nil {
			fmt.Println(err)
			os.Exit(2)
		}
		var j replayJob
		if err := json.Unmarshal(b, &j); err != nil {
			fmt.Println(err)
			os.Exit(2)
		}
		for _, kf := range loadKnown().Findings {
			if kf.Status == "open" {
				j.Known = append(j.Known, kf.ID)
			}
		}
		repoDir := "/repo"
		if d := os.Getenv("VERIF_REPO"); d != "" {
			repoDir = d
		}
		if len(j.Decisions) > 0 {
			// schedule-dependent counterexample: re-execute the recorded decision vector on the real code's SSA
			g, err := LoadEngine(repoDir, filepath.Join(verifDir, "harness"), []string{j.Harness})
			if err != nil {
				fmt.Println("cannot load the tree:", err)
				os.Exit(2)
			}
			g.known = loadKnown()
			g.tier = j.Tier
			for _, c := range allChecks() {
				for _, h := range c.Harnesses {
					if h.Fn == j.Harness {
						cfg := defaultCfg()
						if h.Cfg != nil {
							h.Cfg(&cfg, j.Tier)
						}
						ok, how := g.ReplaySchedule(j.Harness, cfg, j.Decisions, j.Label)
						fmt.Printf("harness=%s label=%q schedule re-executed on the SSA of the current tree: reproduced=%v (%s)\n", j.Harness, j.Label, ok, how)
						if ok {
							fmt.Printf("VIOLATION property=%s replay=%s\n", j.Property, os.Args[2])
							os.Exit(1)
						}
						fmt.Println("not reproduced on this tree")
						os.Exit(0)
					}
				}
			}
			fmt.Println("harness not registered")
			os.Exit(2)
		}
		res, out, err := runNative(repoDir, filepath.Join(verifDir, "harness"), []replayJob{j})
		if err != nil {
			fmt.Println("replay failed to run:", err, out)
			os.Exit(2)
		}
		r := res[j.ID]
		fmt.Printf("harness=%s label=%q native end=%s fails=%v observes=%v\n", j.Harness, j.Label, r.End, r.Fails, r.Observes)
		for _, f := range r.Fails {
			if f == j.Label {
				fmt.Printf("VIOLATION property=%s replay=%s\n", j.Property, os.Args[2])
				os.Exit(1)
			}
		}
		if j.Label == "no-panic" && strings.HasPrefix(r.End, "PANIC") {
			fmt.Printf("VIOLATION property=%s replay=%s\n", j.Property, os.Args[2])
			os.Exit(1)
		}
		fmt.Println("not reproduced on this tree")
		os.Exit(0)
	case "list":
		for _, c := range allChecks() {
			fmt.Println(c.ID, len(c.Harnesses), "harnesses")
		}
	default:
		fmt.Println("unknown command")
		os.Exit(2)
	}
}

func runCheck(id, tier string, verbose bool, only string, workers int, noval bool) int {
	t0 := time.Now()
	seed := envInt("VERIF_SEED", 1)
	var spec *CheckSpec
	for _, c := range allChecks() {
		if c.ID == id {
			cc := c
			spec = &cc
		}
	}
	if spec == nil {
		fmt.Println("unknown check", id)
		return 2
	}
	repoDir := "/repo"
	if d := os.Getenv("VERIF_REPO"); d != "" {
		repoDir = d
	}
	harnessDir := filepath.Join(verifDir, "harness")
	var wantFns []string
	for _, h := range spec.Harnesses {
		wantFns = append(wantFns, h.Fn)
	}
	g, err := LoadEngine(repoDir, harnessDir, wantFns)
	if err != nil {
		fmt.Println("INCONCLUSIVE: cannot load/encode the tree:", err)
		writeEvidence(spec, tier, seed, nil, nil, time.Since(t0).Seconds(), 0, []string{"load failed: " + err.Error()}, nil, 0, g)
		return 2
	}
	g.known = loadKnown()
	g.verbose = verbose
	tierN := 0
	if tier == "thorough" {
		tierN = 1
	}
	g.tier = tierN
	g.crossStats = &SolverStats{}
	g.crossCheck = tier == "thorough" && os.Getenv("VERIF_NOCROSS") == ""
	stats := &SolverStats{}
	var results []*HarnessResult
	var problems []string
	type viol struct {
		h     *HarnessSpec
		out   *AssertOutcome
		trace []uint64
		cfg   HarnessCfg
	}
	var viols []viol
	knownSeen := map[string]bool{}
	var valJobs []replayJob
	valExpect := map[string]*ValidationSample{}
	for hi := range spec.Harnesses {
		h := &spec.Harnesses[hi]
		if h.ThoroughOnly && tier != "thorough" {
			continue
		}
		if only != "" && h.Fn != only {
			continue
		}
		cfg := defaultCfg()
		if h.Cfg != nil {
			h.Cfg(&cfg, tierN)
		}
		if tier == "thorough" {
			cfg.MaxWallS = 3 * cfg.MaxWallS
		}
		cfg.MaxWallS = envInt("VERIF_MAXWALL", cfg.MaxWallS)
		nSamples := 4
		if tier == "thorough" {
			nSamples = 12
		}
		r, err := g.Explore(h.Fn, cfg, workers, nSamples, stats)
		if err != nil {
			problems = append(problems, h.Fn+": "+err.Error())
			continue
		}
		results = append(results, r)
		if verbose || true {
			fmt.Printf("[%s] %s: paths=%d ends=%v assertsOK=%d violations=%d queries=%d wall=%.1fs\n", id, h.Fn, r.Paths, r.Ends, r.AssertsOK, len(r.Violations), r.Queries, r.Wall)
		}
		for k, tr := range r.EndMsgs {
			if strings.HasPrefix(k, "UNSUPPORTED") || strings.HasPrefix(k, "UNWIND") || strings.HasPrefix(k, "DEADLOCK") || strings.HasPrefix(k, "PANIC") || verbose {
				fmt.Printf("    %s  decisions=%s\n", trunc(k, 600), trunc(tr, 120))
			}
		}
		for _, k := range []string{"UNSUPPORTED", "UNWIND", "DEADLOCK"} {
			if k == "DEADLOCK" && cfg.GoPolicy == "explore" {
				continue // reported as a no-deadlock violation
			}
			if r.Ends[k] > 0 {
				problems = append(problems, fmt.Sprintf("%s: %d paths ended %s (engine limit: no verdict for them)", h.Fn, r.Ends[k], k))
			}
		}
		if r.Truncated {
			problems = append(problems, h.Fn+": path budget exhausted")
		}
		for _, in := range r.Inconcl {
			problems = append(problems, h.Fn+": solver inconclusive on "+in)
		}
		for _, l := range h.MustReach {
			if !r.Reached[l] {
				problems = append(problems, fmt.Sprintf("%s: reachability witness %q not reached (vacuity guard)", h.Fn, l))
			}
		}
		if r.Paths > 0 && r.Ends["OK"]+r.Ends["HALT"] == 0 {
			problems = append(problems, h.Fn+": no path completed (vacuous)")
		}
		labels := make([]string, 0, len(r.Violations))
		for l := range r.Violations {
			labels = append(labels, l)
		}
		sort.Strings(labels)
		for _, l := range labels {
			viols = append(viols, viol{h, r.Violations[l], r.ViolTrace[l], cfg})
		}
		for kid := range r.Knowns {
			knownSeen[kid] = true
		}
		for i, s := range r.Samples {
			jid := fmt.Sprintf("val-%s-%d", h.Fn, i)
			valJobs = append(valJobs, replayJob{ID: jid, Harness: h.Fn, Tier: tierN, Vector: s.Vector})
			valExpect[jid] = s
		}
	}
	// known findings that still reproduce
	kids := make([]string, 0)
	for kid := range knownSeen {
		kids = append(kids, kid)
	}
	sort.Strings(kids)
	for _, kid := range kids {
		kf := g.known.Get(kid)
		fmt.Printf("KNOWN-FINDING: property=%s %s: %s\n", id, kid, kf.What)
	}
	for _, kf := range g.known.Findings {
		if kf.Property == id && kf.Status == "open" && !knownSeen[kf.ID] && only == "" {
			ran := false
			for _, r := range results {
				if kf.Harness == "" || r.Name == kf.Harness {
					ran = true
				}
			}
			if ran {
				fmt.Printf("note: listed finding %s did not reproduce in this run (tier %s)\n", kf.ID, tier)
			}
		}
	}

	// native confirmation of counterexamples + translator validation
	exit := 0
	var samples []sampleOut
	validated := 0
	var jobs []replayJob
	for i, v := range viols {
		vec := make([]uint64, len(v.out.Vector))
		for j, nd := range v.out.Vector {
			vec[j] = nd.Val
		}
		jobs = append(jobs, replayJob{ID: fmt.Sprintf("cex-%d", i), Harness: v.h.Fn, Tier: tierN, Vector: vec, Label: v.out.Label, Observes: v.out.Observes, Property: id})
	}
	all := append(append([]replayJob{}, jobs...), valJobs...)
	var openKnown []string
	for _, kf := range g.known.Findings {
		if kf.Status == "open" {
			openKnown = append(openKnown, kf.ID)
		}
	}
	for i := range all {
		all[i].Known = openKnown
	}
	var nativeRes map[string]replayResult
	if len(all) > 0 && !noval {
		var out string
		nativeRes, out, err = runNative(repoDir, harnessDir, all)
		if err != nil {
			problems = append(problems, "native run failed: "+err.Error())
			if verbose {
				fmt.Println(out)
			}
		}
	}
	nviol := 0
	confirmedLabels := map[string]bool{}
	os.MkdirAll(filepath.Join(verifDir, "replays"), 0o755)
	for i := range viols {
		j := jobs[i]
		confirmed := false
		why := "native replay not run"
		if viols[i].cfg.GoPolicy == "explore" {
			// schedule-dependent: a native run cannot force the schedule; the
			// recorded decision vector is re-executed on the SSA of the real code
			ok, how := g.ReplaySchedule(j.Harness, viols[i].cfg, viols[i].trace, j.Label)
			confirmed, why = ok, "schedule re-executed on the real code's SSA: "+how
			j.Decisions = viols[i].trace
		} else if nativeRes != nil {
			r, ok := nativeRes[j.ID]
			if ok {
				why = fmt.Sprintf("native end=%s fails=%v", r.End, r.Fails)
				if j.Label == "no-panic" {
					confirmed = strings.HasPrefix(r.End, "PANIC")
				} else {
					for _, f := range r.Fails {
						if f == j.Label {
							confirmed = true
						}
					}
				}
			}
		}
		samples = append(samples, sampleOut{Harness: j.Harness, Kind: "counterexample", Label: j.Label, Verdict: "sat", Vector: j.Vector, Observes: j.Observes, Note: why})
		if confirmed {
			confirmedLabels[j.Harness+"\x00"+j.Label] = true
			nviol++
			path := filepath.Join(verifDir, "replays", fmt.Sprintf("%s_%s_%s.json", id, j.Harness, sanitize(j.Label)))
			jb, _ := json.MarshalIndent(j, "", " ")
			os.WriteFile(path, jb, 0o644)
			fmt.Printf("VIOLATION property=%s replay=%s\n", id, path)
			fmt.Printf("    harness=%s assertion=%q observes=%v (%d paths hit it)\n", j.Harness, j.Label, j.Observes, 0+countOf(results, j.Harness, j.Label))
			exit = 1
		} else {
			problems = append(problems, fmt.Sprintf("%s: counterexample for %q did not reproduce natively (%s) — encoding or stub suspected, not reported as violation", j.Harness, j.Label, why))
		}
	}
	for _, j := range valJobs {
		exp := valExpect[j.ID]
		if nativeRes == nil {
			break
		}
		r, ok := nativeRes[j.ID]
		if !ok {
			problems = append(problems, "validation job missing: "+j.ID)
			continue
		}
		want := exp.End
		got := r.End
		if strings.HasPrefix(got, "PANIC") {
			got = "PANIC"
		}
		// a sample that fails natively where a violation was already confirmed
		// and reported agrees with the engine (the engine assumes an earlier
		// assertion when deciding later ones on the same path, so it reports
		// the first failure of a path; the native run lists its consequences too)
		unexplained := len(r.Fails)
		for _, f := range r.Fails {
			if confirmedLabels[j.Harness+"\x00"+f] {
				unexplained = 0
			}
		}
		if got == "TIMEOUT" && confirmedLabels[j.Harness+"\x00no-deadlock"] {
			// a native hang where a deadlock was confirmed and reported
			validated++
			continue
		}
		if got != want || strings.Join(r.Observes, ",") != strings.Join(exp.Observes, ",") || unexplained > 0 {
			problems = append(problems, fmt.Sprintf("translator validation mismatch on %s: engine end=%s obs=%v, native end=%s obs=%v fails=%v vector=%v", j.Harness, want, exp.Observes, r.End, r.Observes, r.Fails, j.Vector))
			continue
		}
		validated++
		if len(samples) < 40 {
			samples = append(samples, sampleOut{Harness: j.Harness, Kind: "path-witness validated natively", Vector: j.Vector, Observes: exp.Observes})
		}
	}
	if exit == 0 && len(problems) > 0 {
		exit = 2
	}
	for _, p := range problems {
		fmt.Println("INCONCLUSIVE:", p)
	}
	wall := time.Since(t0).Seconds()
	writeEvidence(spec, tier, seed, results, samples, wall, nviol, problems, stats, validated, g)
	if exit == 0 {
		fmt.Printf("OK property=%s tier=%s wall=%.1fs\n", id, tier, wall)
	}
	return exit
}

func countOf(rs []*HarnessResult, h, label string) int {
	for _, r := range rs {
		if r.Name == h {
			return r.ViolCount[label]
		}
	}
	return 0
}

func sanitize(s string) string {
	var sb strings.Builder
	for _, c := range s {
		if (c >= 'a' && c <= 'z') || (c >= 'A' && c <= 'Z') || (c >= '0' && c <= '9') || c == '-' {
			sb.WriteRune(c)
		} else {
			sb.WriteByte('_')
		}
	}
	r := sb.String()
	if len(r) > 60 {
		r = r[:60]
	}
	return r
}

func writeEvidence(spec *CheckSpec, tier string, seed int, results []*HarnessResult, samples []sampleOut, wall float64, nviol int, problems []string, stats *SolverStats, validated int, g *Engine) {
	paths, queries, assertsOK, decisions := 0, 0, 0, 0
	ends := map[string]int{}
	var harnessSumm []map[string]interface{}
	funcs := map[string]FuncInfo{}
	spawned := map[string]bool{}
	for _, r := range results {
		paths += r.Paths
		queries += r.Queries
		decisions += r.Decisions
		assertsOK += r.AssertsOK
		for k, v := range r.Ends {
			ends[k] += v
		}
		reached := []string{}
		for l := range r.Reached {
			reached = append(reached, l)
		}
		sort.Strings(reached)
		var hs *HarnessSpec
		for i := range spec.Harnesses {
			if spec.Harnesses[i].Fn == r.Name {
				hs = &spec.Harnesses[i]
			}
		}
		var concreteOnly, symbolicSeen []string
		for k, u := range r.FieldUses {
			if u.Symbolic == 0 {
				concreteOnly = append(concreteOnly, k)
			} else {
				symbolicSeen = append(symbolicSeen, k)
			}
		}
		sort.Strings(concreteOnly)
		sort.Strings(symbolicSeen)
		if verboseAudit {
			fmt.Printf("  audit %s: scalar-symbolic fields touched by repository code: %v\n  audit %s: fields touched but never holding a symbolic scalar (structure, or a concretised input): %v\n", r.Name, symbolicSeen, r.Name, concreteOnly)
		}
		harnessSumm = append(harnessSumm, map[string]interface{}{
			"state_fields_touched_holding_symbolic_values": symbolicSeen,
			"state_fields_touched_concrete_on_every_path":  concreteOnly,
			"harness": r.Name, "lemma": hs.Lemma, "bounds": hs.Bounds, "paths": r.Paths, "path_ends": r.Ends,
			"assertions_discharged_unsat_or_concrete": r.AssertsOK, "violated_labels": r.ViolCount, "solver_queries": r.Queries,
			"ssa_instructions_executed": r.Steps, "path_decisions": r.Decisions, "branches_decided_by_interval_reasoning": r.RangeDecided, "reach_witnesses": reached, "wall_s": r.Wall, "sample_decision_vectors": r.SamplePaths,
		})
		for _, fi := range g.funcInfos(r.Funcs, true) {
			funcs[fi.Name] = fi
		}
		for s := range r.Spawned {
			spawned[s] = true
		}
		if len(samples) < 60 {
			for _, sp := range r.SamplePaths {
				samples = append(samples, sampleOut{Harness: r.Name, Kind: "explored path (decision vector)", Decisions: sp})
				break
			}
		}
	}
	var fl []FuncInfo
	for _, f := range funcs {
		fl = append(fl, f)
	}
	sort.Slice(fl, func(i, j int) bool { return fl[i].Name < fl[j].Name })
	if len(samples) == 0 {
		samples = append(samples, sampleOut{Kind: "none", Note: "no path explored"})
	}
	cov := map[string]interface{}{
		"states":                        max(paths, 0),
		"transitions":                   queries + decisions,
		"solver_queries":                queries,
		"path_decisions":                decisions,
		"traces_validated_against_impl": validated,
		"samples":                       samples,
		"exhaustive":                    false,
		"explanation":                   "states = symbolic paths through the real SSA within the stated bounds; transitions = decisions taken along those paths (symbolic branches, harness case splits) + SMT queries discharged (feasibility + assertions); an assertion is decided for all values on its path by the solver, or by term simplification/constant folding when the path leaves it concrete",
		"harnesses":                     harnessSumm,
		"path_ends":                     ends,
		"assertions_discharged":         assertsOK,
		"functions_encoded":             fl,
		"functions_encoded_count":       len(fl),
		"goroutines_not_run":            keys(spawned),
		"inconclusive":                  problems,
		"outside_claim":                 spec.Outside,
	}
	if stats != nil {
		cov["solver"] = map[string]interface{}{"name": "z3 4.8.12 (z3 -in, one process per worker)", "queries": stats.Queries, "sat": stats.Sat, "unsat": stats.Unsat, "unknown": stats.Unknown,
			"solver_time_s": float64(stats.Nanos) / 1e9, "max_query_s": float64(stats.MaxNs) / 1e9}
	}
	if g != nil {
		cov["load_and_ssa_build_s"] = g.loadSecs
		if g.crossCheck {
			cov["solver_cross_check"] = map[string]interface{}{"solvers": "z3 5.1.0 (z3-new), cvc5 1.0.3", "assertion_batches_confirmed_unsat": g.crossAgree, "disagreements": g.crossDisagree,
				"cross_solver_time_s": float64(g.crossStats.Nanos) / 1e9}
		}
	}
	ev := map[string]interface{}{
		"property_id": spec.ID, "tier": tier, "seed": seed, "level": "model_checking",
		"coverage": cov, "assumptions": spec.Assumptions, "wall_s": wall, "violations": nviol,
	}
	b, _ := json.MarshalIndent(ev, "", " ")
	evDir := filepath.Join(verifDir, "evidence")
	if os.Getenv("VERIF_REPO") != "" {
		// a run against another tree (a seeded change in a scratch worktree) must
		// not overwrite the evidence of /repo
		evDir = filepath.Join(os.TempDir(), "verif-evidence-other-tree")
	}
	os.MkdirAll(evDir, 0o755)
	os.WriteFile(filepath.Join(evDir, spec.ID+".json"), b, 0o644)
}

func keys(m map[string]bool) []string {
	out := []string{}
	for k := range m {
		out = append(out, k)
	}
	sort.Strings(out)
	return out
}
