package main

// Path-forking symbolic interpreter over go/ssa. Exploration is stateless:
// a path is identified by its vector of decisions and is re-executed from the
// start; new alternatives found beyond the given prefix are returned to the
// scheduler.

import (
	"fmt"
	"go/constant"
	"go/token"
	"go/types"
	"os"
	"sort"
	"strings"

	"golang.org/x/tools/go/ssa"
)

type EndKind int

const (
	EndOK EndKind = iota
	EndHalt
	EndInfeasible // an assumption made the path infeasible
	EndPanic
	EndUnwind
	EndUnsupported
	EndDeadlock
)

func (k EndKind) String() string {
	return [...]string{"OK", "HALT", "INFEASIBLE", "PANIC", "UNWIND", "UNSUPPORTED", "DEADLOCK"}[k]
}

type pathEnd struct {
	kind EndKind
	msg  string
}

type NondetEntry struct {
	Name string `json:"name"`
	Kind string `json:"kind"` // u8,u16,u32,u64,bool,choice
	W    int    `json:"w"`
	term *Node
	Val  uint64 `json:"val"`
}

type AssertOutcome struct {
	Label     string
	Known     string // known-finding id if the failure lies inside a listed region
	Verdict   Verdict
	Inconcl   string
	Vector    []NondetEntry
	Observes  []string
	Pos       string
	QueryTime float64
}

type Frame struct {
	fn      *ssa.Function
	env     map[ssa.Value]Value
	defers  []func()
	visits  map[*ssa.BasicBlock]int
	parent  *Frame
	callPos token.Pos
}

type Exec struct {
	eng    *Engine
	tb     *TB
	solver *Solver
	cfg    *HarnessCfg

	pc          []*Node
	prefix      []uint64
	di          int
	trace       []uint64
	alts        [][]uint64
	altModels   []map[string]uint64
	prefixModel map[string]uint64
	nondet      []NondetEntry
	nvar        int
	reached     map[string]bool
	obs         []string

	globals     map[*ssa.Global]*Loc
	initDone    map[*ssa.Package]bool
	funcs       map[*ssa.Function]bool
	repoFn      map[*ssa.Function]bool
	fieldUses   map[*ssa.FieldAddr]*fieldUse
	steps       int
	depth       int
	nowCount    int
	lastNow     *Node
	// a deadlock after this marker is a listed known finding, not a new violation
	knownDeadlockID string
	lastNowInit bool
	uniq        map[string]*Loc // unique.Make canonical objects
	hidden      map[*Loc]Value  // hidden state for modelled library objects (atomic.Value, sync.Map, ...)
	coros       []*coro
	curCoro     *coro
	threads     []*thread
	curThread   *thread
	preemptions int
	freeChoices int
	spawned     []string

	backing       map[*Loc]backRef
	pin           []uint64
	knowns        []string
	obsNames      []string
	obsTerms      []*Node
	crcSeen       []crcRec
	txids         []*Node
	yieldBudget   int
	inYield       bool
	bounds        map[*Node]ival
	nRangeDecided int
	decimals      map[*Node][]*Node
	afterFuncs    []afterFunc
	timerTicks    int
	idCounter     int
	pending       []pendingAssert
	inInit        bool

	asserts   []AssertOutcome
	nAssertOK int
	nQueries  int
	lastModel map[string]uint64
	pendModel map[string]uint64
	pendFor   *Node
	curFrame  *Frame
}

func (e *Exec) unsupported(msg string) pathEnd { return pathEnd{EndUnsupported, msg + e.where()} }
func (e *Exec) panicEnd(msg string) pathEnd    { return pathEnd{EndPanic, msg + e.where()} }

func (e *Exec) where() string {
	var sb strings.Builder
	n := 0
	for f := e.curFrame; f != nil && n < 6; f = f.parent {
		sb.WriteString(" < ")
		sb.WriteString(f.fn.String())
		n++
	}
	return sb.String()
}

// ---------- decisions ----------

func (e *Exec) evalModel(c *Node) (bool, bool) {
	if e.lastModel == nil {
		return false, false
	}
	v, ok := e.tb.EvalDefault(c, e.lastModel)
	return v == 1, ok
}

func (e *Exec) assume(c *Node) {
	if c.IsTrue() {
		return
	}
	e.pc = append(e.pc, c)
	e.noteBounds(c)
	if sat, ok := e.evalModel(c); ok && sat {
		return // the cached model of the path condition still holds
	}
	if e.pendFor == c && e.pendModel != nil {
		e.lastModel = e.pendModel
	} else {
		e.lastModel = nil
	}
	e.pendFor, e.pendModel = nil, nil
}

// feasible decides pc ∧ extra. A cached model of pc that already satisfies
// extra answers without a query; a sat answer caches its model.
func (e *Exec) feasible(extra *Node) Verdict {
	if extra.IsFalse() {
		return Unsat
	}
	if sat, ok := e.evalModel(extra); ok && sat {
		return Sat
	}
	switch e.tri(extra) {
	case 0:
		e.nRangeDecided++
		return Unsat
	case 1:
		e.nRangeDecided++
		return Sat // implied by the (satisfiable) path condition
	}
	roots := append(append([]*Node{}, e.pc...), extra)
	q := e.tb.Query(roots)
	vars := e.tb.FreeVars(roots)
	names := make([]string, len(vars))
	for i, v := range vars {
		names[i] = v.name
	}
	e.nQueries++
	v, vals, _ := e.solver.Check(q, e.eng.feasTimeoutMs, names)
	if v == Sat && len(vals) == len(names) {
		m := make(map[string]uint64, len(names))
		for i, n := range names {
			m[n] = vals[i]
		}
		e.pendFor, e.pendModel = extra, m
	}
	return v
}

// branch decides a symbolic condition; forks when both sides are feasible.
func (e *Exec) branch(c *Node) bool {
	if c.IsConst() {
		return c.val == 1
	}
	if e.di < len(e.prefix) {
		d := e.prefix[e.di]
		e.di++
		e.trace = append(e.trace, d)
		if r := e.tri(c); r >= 0 && uint64(r) == d {
			// implied by the bounds (as when the decision was first taken): not added
		} else if d == 1 {
			e.assume(c)
		} else {
			e.assume(e.tb.BNot(c))
		}
		e.prefixDone()
		return d == 1
	}
	e.di++
	if r := e.tri(c); r >= 0 {
		// implied by interval bounds of the path condition: no solver call, no fork
		// (the condition follows from bounds already in the path condition, so
		// it is not added to it: queries stay small)
		e.nRangeDecided++
		e.trace = append(e.trace, uint64(r))
		return r == 1
	}
	ft := e.feasible(c)
	var mT map[string]uint64
	if e.pendFor == c {
		mT = e.pendModel
	}
	ff := Sat
	var mF map[string]uint64
	if ft != Unsat {
		nc := e.tb.BNot(c)
		ff = e.feasible(nc)
		if e.pendFor == nc {
			mF = e.pendModel
		} else if ff == Sat {
			mF = e.lastModel // answered from the cached model
		}
	}
	switch {
	case ft != Unsat && ff != Unsat:
		alt := append(append([]uint64{}, e.trace...), 0)
		e.alts = append(e.alts, alt)
		e.altModels = append(e.altModels, mF)
		e.trace = append(e.trace, 1)
		if mT != nil {
			e.pendFor, e.pendModel = c, mT
		}
		e.assume(c)
		return true
	case ft != Unsat:
		e.trace = append(e.trace, 1)
		e.assume(c)
		return true
	default:
		e.trace = append(e.trace, 0)
		e.assume(e.tb.BNot(c))
		return false
	}
}

// prefixDone: when the last recorded decision has been replayed, the model
// that made this alternative feasible becomes the cached model of the path.
func (e *Exec) prefixDone() {
	if e.di == len(e.prefix) && e.prefixModel != nil {
		e.lastModel = e.prefixModel
	}
}

// choice forks over n concrete alternatives (harness-directed case split).
func (e *Exec) choice(n int) int {
	if n <= 1 {
		return 0
	}
	if e.di < len(e.prefix) {
		d := e.prefix[e.di]
		e.di++
		e.trace = append(e.trace, d)
		e.prefixDone()
		return int(d)
	}
	e.di++
	for k := n - 1; k >= 1; k-- {
		alt := append(append([]uint64{}, e.trace...), uint64(k))
		e.alts = append(e.alts, alt)
		e.altModels = append(e.altModels, e.lastModel)
	}
	e.trace = append(e.trace, 0)
	return 0
}

// concretize: fork over the feasible values of a term.
func (e *Exec) concretize(t *Node) uint64 {
	if t.IsConst() {
		return t.val
	}
	for n := 0; ; n++ {
		if n > e.cfg.MaxConcretize {
			panic(pathEnd{EndUnwind, fmt.Sprintf("concretize: more than %d values", e.cfg.MaxConcretize) + e.where()})
		}
		var v uint64
		if e.di < len(e.prefix) {
			v = e.prefix[e.di]
			e.di++
			e.trace = append(e.trace, v)
		} else {
			e.di++
			roots := append([]*Node{}, e.pc...)
			// bind the term to a fresh variable so that everything it mentions is declared
			nv := e.tb.Var(fmt.Sprintf("cz!%d", e.nvar), t.w)
			e.nvar++
			q := e.tb.Query(append(roots, e.tb.Eq(nv, t)))
			ts := nv.name
			e.nQueries++
			verdict, vals, why := e.solver.Check(q, e.eng.feasTimeoutMs, []string{ts})
			if verdict != Sat {
				if verdict == Unsat {
					panic(pathEnd{EndInfeasible, "concretize: no value"})
				}
				panic(e.unsupported("concretize: solver " + verdict.String() + " " + why))
			}
			v = vals[0]
			e.trace = append(e.trace, v)
		}
		if e.branch(e.tb.Eq(t, e.tb.Const(t.w, v))) {
			return v
		}
	}
}

// ---------- running a harness ----------

func (e *Exec) fresh(kind string, w int) *Node {
	name := fmt.Sprintf("n%d_%s", len(e.nondet), kind)
	v := e.tb.Var(name, w)
	e.nondet = append(e.nondet, NondetEntry{Name: name, Kind: kind, W: w, term: v})
	return v
}

func (e *Exec) runHarness(fn *ssa.Function) (end pathEnd) {
	defer e.abortCoros()
	defer func() {
		if r := recover(); r != nil {
			if pe, ok := r.(pathEnd); ok {
				end = pe
				e.flushAsserts()
				return
			}
			if os.Getenv("VERIF_CRASH") != "" {
				panic(r)
			}
			// an engine fault is an engine limit, never a verdict
			end = pathEnd{EndUnsupported, fmt.Sprintf("engine fault: %v", r) + e.where()}
			return
		}
	}()
	if e.exploring() {
		main := e.newThread("harness", func() { e.call(fn, nil, nil, nil) }, true)
		e.runScheduler(main)
	} else {
		e.call(fn, nil, nil, nil)
	}
	e.flushAsserts()
	return pathEnd{EndOK, ""}
}

// ---------- calls ----------

func (e *Exec) call(fn *ssa.Function, args []Value, env []Value, caller *Frame) Value {
	if h := e.eng.lookupIntercept(fn); h != nil {
		return h(e, fn, args)
	}
	if fn.Blocks == nil {
		panic(e.unsupported("external function " + fn.String()))
	}
	e.depth++
	if e.depth > 400 {
		panic(pathEnd{EndUnwind, "call depth > 400" + e.where()})
	}
	e.funcs[fn] = true
	fr := &Frame{fn: fn, env: make(map[ssa.Value]Value, 32), parent: caller}
	saved := e.curFrame
	e.curFrame = fr
	for i, p := range fn.Params {
		fr.env[p] = args[i]
	}
	for i, fv := range fn.FreeVars {
		fr.env[fv] = env[i]
	}
	res := e.runFrame(fr)
	e.curFrame = saved
	e.depth--
	return res
}

func (e *Exec) runFrame(fr *Frame) Value {
	var prev *ssa.BasicBlock
	b := fr.fn.Blocks[0]
	for {
		// phis first (parallel assignment)
		nphi := 0
		if prev != nil {
			pi := -1
			for i, p := range b.Preds {
				if p == prev {
					pi = i
					break
				}
			}
			var vals []Value
			for _, ins := range b.Instrs {
				phi, ok := ins.(*ssa.Phi)
				if !ok {
					break
				}
				vals = append(vals, e.get(fr, phi.Edges[pi]))
				nphi++
			}
			for i := 0; i < nphi; i++ {
				fr.env[b.Instrs[i].(*ssa.Phi)] = vals[i]
			}
		}
		var next *ssa.BasicBlock
		for _, ins := range b.Instrs[nphi:] {
			e.steps++
			if e.steps > e.cfg.MaxSteps {
				panic(pathEnd{EndUnwind, fmt.Sprintf("step budget %d exhausted", e.cfg.MaxSteps) + e.where()})
			}
			switch x := ins.(type) {
			case *ssa.If:
				c := e.get(fr, x.Cond)
				cn, ok := c.(*Node)
				if !ok {
					panic(e.unsupported(fmt.Sprintf("branch on %T", c)))
				}
				var taken bool
				if cn.IsConst() {
					taken = cn.val == 1
				} else {
					if fr.visits == nil {
						fr.visits = map[*ssa.BasicBlock]int{}
					}
					fr.visits[b]++
					if fr.visits[b] > e.cfg.LoopBudget {
						panic(pathEnd{EndUnwind, fmt.Sprintf("symbolic branch in block %d of %s visited more than %d times", b.Index, fr.fn, e.cfg.LoopBudget)})
					}
					taken = e.branch(cn)
				}
				if taken {
					next = b.Succs[0]
				} else {
					next = b.Succs[1]
				}
			case *ssa.Jump:
				next = b.Succs[0]
			case *ssa.Return:
				e.runDefers(fr)
				switch len(x.Results) {
				case 0:
					return nil
				case 1:
					return e.get(fr, x.Results[0])
				default:
					t := make(TupleVal, len(x.Results))
					for i, r := range x.Results {
						t[i] = e.get(fr, r)
					}
					return t
				}
			case *ssa.Panic:
				v := e.get(fr, x.X)
				panic(e.panicEnd("explicit panic: " + e.describe(v)))
			default:
				e.exec(fr, ins)
			}
		}
		if next == nil {
			panic(e.unsupported("block without terminator"))
		}
		prev, b = b, next
	}
}

func (e *Exec) runDefers(fr *Frame) {
	for len(fr.defers) > 0 {
		d := fr.defers[len(fr.defers)-1]
		fr.defers = fr.defers[:len(fr.defers)-1]
		d()
	}
}

func (e *Exec) describe(v Value) string {
	switch x := v.(type) {
	case IfaceVal:
		if x.t == nil {
			return "nil"
		}
		if s, ok := x.v.(StringVal); ok {
			if c, ok := s.Concrete(); ok {
				return c
			}
		}
		return x.t.String()
	}
	return fmt.Sprintf("%T", v)
}

func (e *Exec) get(fr *Frame, v ssa.Value) Value {
	switch x := v.(type) {
	case *ssa.Const:
		return e.constVal(x)
	case *ssa.Function:
		return FuncVal{fn: x}
	case *ssa.Global:
		return PtrVal{loc: e.globalLoc(x)}
	case *ssa.Builtin:
		return FuncVal{builtin: x}
	}
	r, ok := fr.env[v]
	if !ok {
		panic(e.unsupported(fmt.Sprintf("value %s (%T) not defined in %s", v.Name(), v, fr.fn)))
	}
	return r
}

func (e *Exec) constVal(c *ssa.Const) Value {
	t := c.Type()
	if c.Value == nil {
		return e.zero(t)
	}
	if w, _, ok := intWidth(t); ok {
		if w == 0 {
			return e.tb.Bool(constant.BoolVal(c.Value))
		}
		v := constant.ToInt(c.Value)
		if i, exact := constant.Int64Val(v); exact {
			return e.tb.Const(w, uint64(i))
		}
		u, _ := constant.Uint64Val(v)
		return e.tb.Const(w, u)
	}
	if isString(t) {
		return e.strConst(constant.StringVal(c.Value))
	}
	if isFloat(t) {
		return Opaque{"float:" + c.Value.ExactString()}
	}
	panic(e.unsupported("const of type " + t.String()))
}

// ---------- globals and package initialisation ----------

func (e *Exec) globalLoc(g *ssa.Global) *Loc {
	if l, ok := e.globals[g]; ok {
		return l
	}
	e.ensureInit(g.Pkg)
	if l, ok := e.globals[g]; ok {
		return l
	}
	l := e.newLoc(g.Type().(*types.Pointer).Elem())
	l.name = g.String()
	e.globals[g] = l
	return l
}

// ensureInit runs the package initialiser of p (skipping the initialisers of
// its imports, which are run on demand when their globals are touched).
func (e *Exec) ensureInit(p *ssa.Package) {
	if p == nil || e.initDone[p] {
		return
	}
	e.initDone[p] = true
	if !e.eng.initPackages[p.Pkg.Path()] {
		return
	}
	// allocate all globals first
	for _, m := range p.Members {
		if g, ok := m.(*ssa.Global); ok {
			if _, ok := e.globals[g]; !ok {
				l := e.newLoc(g.Type().(*types.Pointer).Elem())
				l.name = g.String()
				e.globals[g] = l
			}
		}
	}
	init := p.Func("init")
	if init == nil || init.Blocks == nil {
		return
	}
	saved := e.curFrame
	savedDepth := e.depth
	savedInit := e.inInit
	e.inInit = true
	e.runInit(init)
	e.inInit = savedInit
	e.curFrame = saved
	e.depth = savedDepth
}

// runInit executes init tolerantly: an instruction that cannot be modelled is
// skipped (its result becomes Opaque), so later initialisers still run.
func (e *Exec) runInit(fn *ssa.Function) {
	fr := &Frame{fn: fn, env: map[ssa.Value]Value{}}
	e.curFrame = fr
	b := fn.Blocks[0]
	var prev *ssa.BasicBlock
	for steps := 0; steps < 100000; steps++ {
		var next *ssa.BasicBlock
		for _, ins := range b.Instrs {
			switch x := ins.(type) {
			case *ssa.Phi:
				for i, p := range b.Preds {
					if p == prev {
						fr.env[x] = e.get(fr, x.Edges[i])
					}
				}
			case *ssa.If:
				c, _ := e.get(fr, x.Cond).(*Node)
				if c != nil && c.IsConst() && c.val == 1 {
					next = b.Succs[0]
				} else {
					next = b.Succs[1]
				}
			case *ssa.Jump:
				next = b.Succs[0]
			case *ssa.Return:
				return
			case *ssa.Call:
				// skip initialisers of other packages
				if callee := x.Call.StaticCallee(); callee != nil && callee.Name() == "init" && callee.Pkg != fn.Pkg && callee.Signature.Recv() == nil {
					continue
				}
				e.execTolerant(fr, ins)
			default:
				e.execTolerant(fr, ins)
			}
		}
		if next == nil {
			return
		}
		prev, b = b, next
	}
}

func (e *Exec) execTolerant(fr *Frame, ins ssa.Instruction) {
	defer func() {
		if r := recover(); r != nil {
			if pe, ok := r.(pathEnd); ok && (pe.kind == EndUnsupported || pe.kind == EndPanic || pe.kind == EndUnwind) {
				e.curFrame = fr
				if v, ok := ins.(ssa.Value); ok {
					fr.env[v] = Opaque{"init-skipped: " + pe.msg}
				}
				return
			}
			panic(r)
		}
	}()
	e.exec(fr, ins)
}

// ---------- instructions ----------

func (e *Exec) exec(fr *Frame, ins ssa.Instruction) {
	switch x := ins.(type) {
	case *ssa.Alloc:
		l := e.newLoc(x.Type().(*types.Pointer).Elem())
		fr.env[x] = PtrVal{loc: l}
	case *ssa.BinOp:
		fr.env[x] = e.binop(x.Op, e.get(fr, x.X), e.get(fr, x.Y), x.X.Type(), x.Y.Type())
	case *ssa.UnOp:
		fr.env[x] = e.unop(fr, x)
	case *ssa.Call:
		fr.env[x] = e.doCall(fr, &x.Call, x.Pos())
	case *ssa.ChangeInterface:
		fr.env[x] = e.get(fr, x.X)
	case *ssa.ChangeType:
		fr.env[x] = e.get(fr, x.X)
	case *ssa.Convert:
		fr.env[x] = e.convert(e.get(fr, x.X), x.X.Type(), x.Type())
	case *ssa.MultiConvert:
		fr.env[x] = e.convert(e.get(fr, x.X), x.X.Type(), x.Type())
	case *ssa.Defer:
		e.doDefer(fr, x)
	case *ssa.Extract:
		t := e.get(fr, x.Tuple).(TupleVal)
		fr.env[x] = t[x.Index]
	case *ssa.Field:
		s := e.get(fr, x.X).(StructVal)
		fr.env[x] = s[x.Field]
	case *ssa.FieldAddr:
		p := e.get(fr, x.X).(PtrVal)
		l := e.derefLoc(p)
		fr.env[x] = PtrVal{loc: l.sub[x.Field]}
		e.noteFieldUse(fr, x, l.sub[x.Field])
	case *ssa.Go:
		e.doGo(fr, x)
	case *ssa.Index:
		fr.env[x] = e.index(fr, x)
	case *ssa.IndexAddr:
		fr.env[x] = e.indexAddr(fr, x)
	case *ssa.Lookup:
		fr.env[x] = e.lookup(fr, x)
	case *ssa.MakeChan:
		n := e.concreteInt(e.get(fr, x.Size))
		fr.env[x] = ChanVal{&ChanObj{cap: n, et: x.Type().Underlying().(*types.Chan).Elem()}}
	case *ssa.MakeClosure:
		env := make([]Value, len(x.Bindings))
		for i, b := range x.Bindings {
			env[i] = e.get(fr, b)
		}
		fr.env[x] = FuncVal{fn: x.Fn.(*ssa.Function), env: env}
	case *ssa.MakeInterface:
		fr.env[x] = IfaceVal{t: x.X.Type(), v: e.get(fr, x.X)}
	case *ssa.MakeMap:
		mt := x.Type().Underlying().(*types.Map)
		fr.env[x] = MapVal{&MapObj{kt: mt.Key(), vt: mt.Elem()}}
	case *ssa.MakeSlice:
		n := e.concreteInt(e.get(fr, x.Len))
		c := e.concreteInt(e.get(fr, x.Cap))
		if n < 0 || c < n {
			panic(e.panicEnd("makeslice: len out of range"))
		}
		if c > e.cfg.MaxAlloc {
			panic(e.unsupported(fmt.Sprintf("make slice cap %d > MaxAlloc", c)))
		}
		et := x.Type().Underlying().(*types.Slice).Elem()
		fr.env[x] = SliceVal{arr: e.newArrayLoc(et, c), off: 0, len: n, cap: c, elem: et}
	case *ssa.MapUpdate:
		e.mapUpdate(e.get(fr, x.Map).(MapVal), e.get(fr, x.Key), e.get(fr, x.Value))
	case *ssa.Next:
		fr.env[x] = e.next(fr, x)
	case *ssa.Range:
		fr.env[x] = e.rangeStart(fr, x)
	case *ssa.RunDefers:
		e.runDefers(fr)
	case *ssa.Select:
		fr.env[x] = e.doSelect(fr, x)
	case *ssa.Send:
		e.chanSend(e.get(fr, x.Chan).(ChanVal), e.get(fr, x.X), true)
	case *ssa.Slice:
		fr.env[x] = e.slice(fr, x)
	case *ssa.SliceToArrayPointer:
		s := e.get(fr, x.X).(SliceVal)
		n := int(x.Type().(*types.Pointer).Elem().Underlying().(*types.Array).Len())
		if s.len < n {
			panic(e.panicEnd("slice to array pointer: length too short"))
		}
		if s.arr == nil {
			fr.env[x] = PtrVal{}
		} else {
			fr.env[x] = PtrVal{loc: e.arrayView(s.arr, s.off, n, s.elem)}
		}
	case *ssa.Store:
		p := e.get(fr, x.Addr).(PtrVal)
		e.store(p, e.get(fr, x.Val))
	case *ssa.TypeAssert:
		fr.env[x] = e.typeAssert(fr, x)
	case *ssa.DebugRef:
	default:
		panic(e.unsupported(fmt.Sprintf("instruction %T", ins)))
	}
}

func (e *Exec) arrayView(arr *Loc, off, n int, et types.Type) *Loc {
	if off == 0 && n == len(arr.sub) {
		return arr
	}
	return &Loc{typ: types.NewArray(et, int64(n)), agg: true, sub: arr.sub[off : off+n]}
}

func (e *Exec) derefLoc(p PtrVal) *Loc {
	if p.loc != nil {
		return p.loc
	}
	if p.arr != nil {
		// concretise a symbolic element pointer
		i := e.concretize(p.idx)
		return p.arr.sub[i]
	}
	panic(e.panicEnd("nil pointer dereference"))
}

func (e *Exec) load(p PtrVal) Value {
	if p.loc != nil {
		return e.loadLoc(p.loc)
	}
	if p.arr == nil {
		panic(e.panicEnd("nil pointer dereference"))
	}
	// symbolic index: ite chain over scalar elements
	n := len(p.arr.sub)
	if n == 0 {
		panic(e.panicEnd("index out of range"))
	}
	first, ok := p.arr.sub[0].v.(*Node)
	if !ok || p.arr.sub[0].agg || n > e.cfg.MaxIteIndex {
		return e.loadLoc(e.derefLoc(p))
	}
	r := first
	// build from the end so that low indices are outermost
	r = p.arr.sub[n-1].v.(*Node)
	for i := n - 2; i >= 0; i-- {
		r = e.tb.Ite(e.tb.Eq(p.idx, e.tb.Const(64, uint64(i))), p.arr.sub[i].v.(*Node), r)
	}
	return r
}

func (e *Exec) store(p PtrVal, v Value) {
	if p.loc != nil {
		e.storeLoc(p.loc, v)
		return
	}
	if p.arr == nil {
		panic(e.panicEnd("nil pointer dereference (store)"))
	}
	n := len(p.arr.sub)
	nv, ok := v.(*Node)
	if !ok || n > e.cfg.MaxIteIndex {
		e.storeLoc(e.derefLoc(p), v)
		return
	}
	for i := 0; i < n; i++ {
		old, ok := p.arr.sub[i].v.(*Node)
		if !ok {
			e.storeLoc(e.derefLoc(p), v)
			return
		}
		p.arr.sub[i].v = e.tb.Ite(e.tb.Eq(p.idx, e.tb.Const(64, uint64(i))), nv, old)
	}
}

func (e *Exec) concreteInt(v Value) int {
	n, ok := v.(*Node)
	if !ok {
		panic(e.unsupported(fmt.Sprintf("expected integer, got %T", v)))
	}
	if n.IsConst() {
		return int(sext64(n.val, n.w))
	}
	return int(sext64(e.concretize(n), n.w))
}

func (e *Exec) asIndex(v Value, t types.Type) *Node {
	n := v.(*Node)
	_, signed, _ := intWidth(t)
	return e.tb.Resize(n, 64, signed)
}

// boundsCheck: idx (64-bit, signed interpretation) must be in [0, n).
func (e *Exec) boundsCheck(idx *Node, n int, what string) {
	ok := e.tb.Cmp(OUlt, idx, e.tb.Const(64, uint64(n)))
	if !e.branch(ok) {
		panic(e.panicEnd(what + ": index out of range"))
	}
}

func (e *Exec) indexAddr(fr *Frame, x *ssa.IndexAddr) Value {
	base := e.get(fr, x.X)
	idx := e.asIndex(e.get(fr, x.Index), x.Index.Type())
	var arr *Loc
	off, n := 0, 0
	switch b := base.(type) {
	case PtrVal:
		arr = e.derefLoc(b)
		n = len(arr.sub)
	case SliceVal:
		arr, off, n = b.arr, b.off, b.len
	default:
		panic(e.unsupported(fmt.Sprintf("IndexAddr on %T", base)))
	}
	e.boundsCheck(idx, n, "IndexAddr")
	if idx.IsConst() {
		return PtrVal{loc: arr.sub[off+int(idx.val)]}
	}
	view := e.arrayView(arr, off, n, nil)
	if view.typ == nil || off != 0 || n != len(arr.sub) {
		view = &Loc{typ: arr.typ, agg: true, sub: arr.sub[off : off+n]}
	}
	return PtrVal{arr: view, idx: idx}
}

func (e *Exec) index(fr *Frame, x *ssa.Index) Value {
	base := e.get(fr, x.X)
	idx := e.asIndex(e.get(fr, x.Index), x.Index.Type())
	switch b := base.(type) {
	case ArrayVal:
		e.boundsCheck(idx, len(b), "Index")
		if idx.IsConst() {
			return b[idx.val]
		}
		return e.selectVal(idx, []Value(b))
	case StringVal:
		e.boundsCheck(idx, len(b.b), "Index(string)")
		if idx.IsConst() {
			return b.b[idx.val]
		}
		vs := make([]Value, len(b.b))
		for i, n := range b.b {
			vs[i] = n
		}
		return e.selectVal(idx, vs)
	}
	panic(e.unsupported(fmt.Sprintf("Index on %T", base)))
}

func (e *Exec) selectVal(idx *Node, vs []Value) Value {
	if _, ok := vs[0].(*Node); !ok || len(vs) > e.cfg.MaxIteIndex {
		return vs[e.concretize(idx)]
	}
	r := vs[len(vs)-1].(*Node)
	for i := len(vs) - 2; i >= 0; i-- {
		r = e.tb.Ite(e.tb.Eq(idx, e.tb.Const(64, uint64(i))), vs[i].(*Node), r)
	}
	return r
}

func (e *Exec) slice(fr *Frame, x *ssa.Slice) Value {
	base := e.get(fr, x.X)
	geti := func(v ssa.Value, def int) int {
		if v == nil {
			return def
		}
		return e.concreteInt(e.get(fr, v))
	}
	switch b := base.(type) {
	case StringVal:
		lo := geti(x.Low, 0)
		hi := geti(x.High, len(b.b))
		if lo < 0 || hi < lo || hi > len(b.b) {
			panic(e.panicEnd(fmt.Sprintf("string slice bounds out of range [%d:%d] len %d", lo, hi, len(b.b))))
		}
		return StringVal{b: b.b[lo:hi]}
	case SliceVal:
		lo := geti(x.Low, 0)
		hi := geti(x.High, b.len)
		mx := geti(x.Max, b.cap)
		if lo < 0 || hi < lo || mx < hi || mx > b.cap {
			panic(e.panicEnd(fmt.Sprintf("slice bounds out of range [%d:%d:%d] cap %d", lo, hi, mx, b.cap)))
		}
		if b.arr == nil {
			return SliceVal{elem: b.elem}
		}
		return SliceVal{arr: b.arr, off: b.off + lo, len: hi - lo, cap: mx - lo, elem: b.elem}
	case PtrVal:
		arr := e.derefLoc(b)
		n := len(arr.sub)
		lo := geti(x.Low, 0)
		hi := geti(x.High, n)
		mx := geti(x.Max, n)
		if lo < 0 || hi < lo || mx < hi || mx > n {
			panic(e.panicEnd(fmt.Sprintf("slice bounds out of range [%d:%d:%d] of array %d", lo, hi, mx, n)))
		}
		et := arr.typ.Underlying().(*types.Array).Elem()
		return SliceVal{arr: arr, off: lo, len: hi - lo, cap: mx - lo, elem: et}
	}
	panic(e.unsupported(fmt.Sprintf("Slice on %T", base)))
}

// ---------- operators ----------

func (e *Exec) unop(fr *Frame, x *ssa.UnOp) Value {
	v := e.get(fr, x.X)
	switch x.Op {
	case token.MUL:
		return e.load(v.(PtrVal))
	case token.NOT:
		return e.tb.BNot(e.scalar(v))
	case token.SUB:
		if _, ok := v.(Opaque); ok {
			return v
		}
		return e.tb.Neg(e.scalar(v))
	case token.XOR:
		return e.tb.Not(e.scalar(v))
	case token.ARROW:
		r, ok := e.chanRecv(v.(ChanVal), true)
		if x.CommaOk {
			return TupleVal{r, e.tb.Bool(ok)}
		}
		return r
	}
	panic(e.unsupported("unop " + x.Op.String()))
}

func (e *Exec) scalar(v Value) *Node {
	n, ok := v.(*Node)
	if !ok {
		panic(e.unsupported(fmt.Sprintf("expected scalar, got %T", v)))
	}
	return n
}

func (e *Exec) binop(op token.Token, a, b Value, ta, tb types.Type) Value {
	switch op {
	case token.EQL:
		return e.valueEq(a, b)
	case token.NEQ:
		return e.tb.BNot(e.valueEq(a, b))
	}
	if sa, ok := a.(StringVal); ok {
		sb := b.(StringVal)
		switch op {
		case token.ADD:
			return StringVal{b: append(append([]*Node{}, sa.b...), sb.b...)}
		case token.LSS:
			return e.strLess(sa, sb)
		case token.GTR:
			return e.strLess(sb, sa)
		case token.LEQ:
			return e.tb.BNot(e.strLess(sb, sa))
		case token.GEQ:
			return e.tb.BNot(e.strLess(sa, sb))
		}
		panic(e.unsupported("string op " + op.String()))
	}
	if _, ok := a.(Opaque); ok {
		return Opaque{"float-op"}
	}
	if _, ok := b.(Opaque); ok {
		return Opaque{"float-op"}
	}
	x, y := e.scalar(a), e.scalar(b)
	_, signed, _ := intWidth(ta)
	t := e.tb
	switch op {
	case token.ADD:
		return t.Bin(OAdd, x, y)
	case token.SUB:
		return t.Bin(OSub, x, y)
	case token.MUL:
		return t.Bin(OMul, x, y)
	case token.QUO, token.REM:
		if !e.branch(t.BNot(t.Eq(y, t.Const(y.w, 0)))) {
			panic(e.panicEnd("integer divide by zero"))
		}
		if op == token.QUO {
			if signed {
				return t.Bin(OSDiv, x, y)
			}
			return t.Bin(OUDiv, x, y)
		}
		if signed {
			return t.Bin(OSRem, x, y)
		}
		return t.Bin(OURem, x, y)
	case token.AND:
		if x.w == 0 {
			return t.BAnd(x, y)
		}
		return t.Bin(OAnd, x, y)
	case token.OR:
		if x.w == 0 {
			return t.BOr(x, y)
		}
		return t.Bin(OOr, x, y)
	case token.XOR:
		return t.Bin(OXor, x, y)
	case token.AND_NOT:
		return t.Bin(OAnd, x, t.Not(y))
	case token.SHL, token.SHR:
		// shift count: any unsigned (or non-negative signed) integer
		_, ysigned, _ := intWidth(tb)
		if ysigned && !y.IsConst() {
			if !e.branch(t.Cmp(OSle, t.Const(y.w, 0), y)) {
				panic(e.panicEnd("negative shift amount"))
			}
		}
		var cnt *Node
		switch {
		case y.w == x.w:
			cnt = y
		case y.w < x.w:
			cnt = t.ZExt(y, x.w)
		default:
			big := t.Cmp(OUle, t.Const(y.w, uint64(x.w)), y)
			cnt = t.Ite(big, t.Const(x.w, uint64(x.w)), t.Extract(y, x.w-1, 0))
		}
		if op == token.SHL {
			return t.Bin(OShl, x, cnt)
		}
		if signed {
			return t.Bin(OAShr, x, cnt)
		}
		return t.Bin(OLShr, x, cnt)
	case token.LSS:
		if signed {
			return t.Cmp(OSlt, x, y)
		}
		return t.Cmp(OUlt, x, y)
	case token.LEQ:
		if signed {
			return t.Cmp(OSle, x, y)
		}
		return t.Cmp(OUle, x, y)
	case token.GTR:
		if signed {
			return t.Cmp(OSlt, y, x)
		}
		return t.Cmp(OUlt, y, x)
	case token.GEQ:
		if signed {
			return t.Cmp(OSle, y, x)
		}
		return t.Cmp(OUle, y, x)
	}
	panic(e.unsupported("binop " + op.String()))
}

func (e *Exec) valueEq(a, b Value) *Node {
	t := e.tb
	switch x := a.(type) {
	case *Node:
		y, ok := b.(*Node)
		if !ok {
			panic(e.unsupported(fmt.Sprintf("eq scalar vs %T", b)))
		}
		return t.Eq(x, y)
	case StringVal:
		return e.strEq(x, b.(StringVal))
	case PtrVal:
		y, ok := b.(PtrVal)
		if !ok {
			panic(e.unsupported(fmt.Sprintf("eq ptr vs %T", b)))
		}
		if x.arr != nil || y.arr != nil {
			if x.arr != nil {
				x = PtrVal{loc: e.derefLoc(x)}
			}
			if y.arr != nil {
				y = PtrVal{loc: e.derefLoc(y)}
			}
		}
		return t.Bool(x.loc == y.loc)
	case IfaceVal:
		y, ok := b.(IfaceVal)
		if !ok {
			panic(e.unsupported(fmt.Sprintf("eq iface vs %T", b)))
		}
		if x.t == nil || y.t == nil {
			return t.Bool(x.t == nil && y.t == nil)
		}
		if !types.Identical(x.t, y.t) {
			return t.False()
		}
		return e.valueEq(x.v, y.v)
	case StructVal:
		y := b.(StructVal)
		r := t.True()
		for i := range x {
			r = t.BAnd(r, e.valueEq(x[i], y[i]))
		}
		return r
	case ArrayVal:
		y := b.(ArrayVal)
		r := t.True()
		for i := range x {
			r = t.BAnd(r, e.valueEq(x[i], y[i]))
		}
		return r
	case SliceVal: // only comparison with nil is legal
		y := b.(SliceVal)
		return t.Bool((x.arr == nil) == (y.arr == nil))
	case MapVal:
		return t.Bool(x.m == b.(MapVal).m)
	case ChanVal:
		return t.Bool(x.c == b.(ChanVal).c)
	case FuncVal:
		y := b.(FuncVal)
		return t.Bool(x.fn == y.fn && x.builtin == y.builtin && x.native == y.native && len(x.env) == 0 && len(y.env) == 0)
	case Opaque:
		panic(e.unsupported("comparison of unmodelled value " + x.tag))
	}
	panic(e.unsupported(fmt.Sprintf("eq on %T", a)))
}

func (e *Exec) convert(v Value, from, to types.Type) Value {
	fu, tu := from.Underlying(), to.Underlying()
	if wt, _, ok := intWidth(to); ok && wt > 0 {
		if _, fsigned, ok := intWidth(from); ok {
			return e.tb.Resize(e.scalar(v), wt, fsigned)
		}
		if isFloat(from) {
			return Opaque{"float->int"}
		}
		if p, ok := v.(PtrVal); ok { // unsafe.Pointer -> uintptr
			_ = p
			panic(e.unsupported("pointer to uintptr conversion"))
		}
	}
	if isFloat(to) {
		return Opaque{"->float"}
	}
	if isString(to) {
		switch x := v.(type) {
		case StringVal:
			return x
		case SliceVal:
			if b, ok := x.elem.Underlying().(*types.Basic); ok && b.Kind() == types.Uint8 {
				return StringVal{b: e.bytesOfSlice(x)}
			}
			// []rune -> string: concrete only
			panic(e.unsupported("[]rune to string"))
		case *Node:
			if x.IsConst() {
				return e.strConst(string(rune(sext64(x.val, x.w))))
			}
			panic(e.unsupported("symbolic rune to string"))
		}
	}
	if sl, ok := tu.(*types.Slice); ok {
		if s, ok := v.(StringVal); ok {
			if b, ok := sl.Elem().Underlying().(*types.Basic); ok && b.Kind() == types.Uint8 {
				r := e.sliceFromBytes(s.b)
				r.elem = sl.Elem()
				return r
			}
			if c, ok := s.Concrete(); ok { // []rune(string)
				rs := []rune(c)
				arr := e.newArrayLoc(sl.Elem(), len(rs))
				for i, r := range rs {
					arr.sub[i].v = e.tb.Const(32, uint64(r))
				}
				return SliceVal{arr: arr, len: len(rs), cap: len(rs), elem: sl.Elem()}
			}
			panic(e.unsupported("symbolic string to []rune"))
		}
		if s, ok := v.(SliceVal); ok {
			s.elem = sl.Elem()
			return s
		}
	}
	// pointer <-> unsafe.Pointer and identical underlying types
	switch v.(type) {
	case PtrVal:
		_ = fu
		return v
	}
	if types.Identical(fu, tu) {
		return v
	}
	panic(e.unsupported(fmt.Sprintf("convert %s -> %s", from, to)))
}

// ---------- type assertions ----------

func (e *Exec) implements(dyn types.Type, iface *types.Interface) bool {
	return types.Implements(dyn, iface)
}

func (e *Exec) typeAssert(fr *Frame, x *ssa.TypeAssert) Value {
	iv, ok := e.get(fr, x.X).(IfaceVal)
	if !ok {
		panic(e.unsupported("TypeAssert on non-interface value"))
	}
	var okk bool
	var res Value
	if it, isIface := x.AssertedType.Underlying().(*types.Interface); isIface {
		okk = iv.t != nil && e.implements(iv.t, it)
		if okk {
			res = iv
		} else {
			res = IfaceVal{}
		}
	} else {
		okk = iv.t != nil && types.Identical(iv.t, x.AssertedType)
		if okk {
			res = iv.v
		} else {
			res = e.zero(x.AssertedType)
		}
	}
	if x.CommaOk {
		return TupleVal{res, e.tb.Bool(okk)}
	}
	if !okk {
		panic(e.panicEnd(fmt.Sprintf("interface conversion: %v is not %s", iv.t, x.AssertedType)))
	}
	return res
}

// ---------- calls ----------

func (e *Exec) doCall(fr *Frame, c *ssa.CallCommon, pos token.Pos) Value {
	args := make([]Value, 0, len(c.Args)+1)
	if c.IsInvoke() {
		recv, ok := e.get(fr, c.Value).(IfaceVal)
		if !ok {
			panic(e.unsupported("invoke on non-interface"))
		}
		if recv.t == nil {
			panic(e.panicEnd("nil interface method call ." + c.Method.Name()))
		}
		fn := e.eng.prog.LookupMethod(recv.t, c.Method.Pkg(), c.Method.Name())
		if fn == nil {
			panic(e.unsupported(fmt.Sprintf("method %s not found on %s", c.Method.Name(), recv.t)))
		}
		args = append(args, recv.v)
		for _, a := range c.Args {
			args = append(args, e.get(fr, a))
		}
		return e.call(fn, args, nil, fr)
	}
	for _, a := range c.Args {
		args = append(args, e.get(fr, a))
	}
	switch f := c.Value.(type) {
	case *ssa.Builtin:
		return e.builtin(fr, f, args, c)
	case *ssa.Function:
		return e.call(f, args, nil, fr)
	}
	fv, ok := e.get(fr, c.Value).(FuncVal)
	if !ok {
		panic(e.unsupported("call of non-function value"))
	}
	return e.callFuncVal(fv, args, fr)
}

func (e *Exec) callFuncVal(fv FuncVal, args []Value, fr *Frame) Value {
	if fv.native != "" {
		return e.eng.natives[fv.native](e, args)
	}
	if fv.fn == nil {
		if fv.builtin != nil {
			panic(e.unsupported("builtin as value"))
		}
		panic(e.panicEnd("call of nil function"))
	}
	return e.call(fv.fn, args, fv.env, fr)
}

func (e *Exec) doDefer(fr *Frame, d *ssa.Defer) {
	c := &d.Call
	var thunk func()
	if c.IsInvoke() {
		recv := e.get(fr, c.Value)
		args := []Value{}
		for _, a := range c.Args {
			args = append(args, e.get(fr, a))
		}
		thunk = func() {
			iv := recv.(IfaceVal)
			if iv.t == nil {
				panic(e.panicEnd("deferred nil interface method call"))
			}
			fn := e.eng.prog.LookupMethod(iv.t, c.Method.Pkg(), c.Method.Name())
			e.call(fn, append([]Value{iv.v}, args...), nil, fr)
		}
	} else {
		args := make([]Value, len(c.Args))
		for i, a := range c.Args {
			args[i] = e.get(fr, a)
		}
		switch f := c.Value.(type) {
		case *ssa.Builtin:
			thunk = func() { e.builtin(fr, f, args, c) }
		case *ssa.Function:
			thunk = func() { e.call(f, args, nil, fr) }
		default:
			fv := e.get(fr, c.Value)
			thunk = func() { e.callFuncVal(fv.(FuncVal), args, fr) }
		}
	}
	fr.defers = append(fr.defers, thunk)
}

func (e *Exec) doGo(fr *Frame, g *ssa.Go) {
	c := &g.Call
	var name string
	var thunk func()
	if c.IsInvoke() {
		recv := e.get(fr, c.Value).(IfaceVal)
		args := []Value{recv.v}
		for _, a := range c.Args {
			args = append(args, e.get(fr, a))
		}
		fn := e.eng.prog.LookupMethod(recv.t, c.Method.Pkg(), c.Method.Name())
		name = fn.String()
		thunk = func() { e.call(fn, args, nil, nil) }
	} else {
		args := make([]Value, len(c.Args))
		for i, a := range c.Args {
			args[i] = e.get(fr, a)
		}
		switch f := c.Value.(type) {
		case *ssa.Function:
			name = f.String()
			thunk = func() { e.call(f, args, nil, nil) }
		default:
			fv := e.get(fr, c.Value).(FuncVal)
			if fv.fn != nil {
				name = fv.fn.String()
			}
			thunk = func() { e.callFuncVal(fv, args, nil) }
		}
	}
	e.spawned = append(e.spawned, name)
	if e.cfg.GoRunMatch != "" && strings.HasSuffix(name, e.cfg.GoRunMatch) {
		thunk()
		return
	}
	switch e.cfg.GoPolicy {
	case "run":
		thunk()
	case "queue":
		e.spawnCoro(name, thunk)
	case "explore":
		e.newThread(name, thunk, false)
		e.syncPoint("go " + name)
	default: // "skip": goroutine bodies are outside the claim
	}
}

// ---------- builtins ----------

func (e *Exec) builtin(fr *Frame, b *ssa.Builtin, args []Value, c *ssa.CallCommon) Value {
	t := e.tb
	switch b.Name() {
	case "len":
		switch x := args[0].(type) {
		case StringVal:
			return t.Const(64, uint64(len(x.b)))
		case SliceVal:
			return t.Const(64, uint64(x.len))
		case MapVal:
			if x.m == nil {
				return t.Const(64, 0)
			}
			return e.mapLen(x.m)
		case ChanVal:
			if x.c == nil {
				return t.Const(64, 0)
			}
			return t.Const(64, uint64(len(x.c.buf)))
		case ArrayVal:
			return t.Const(64, uint64(len(x)))
		case PtrVal:
			return t.Const(64, uint64(len(e.derefLoc(x).sub)))
		}
	case "cap":
		switch x := args[0].(type) {
		case SliceVal:
			return t.Const(64, uint64(x.cap))
		case ChanVal:
			if x.c == nil {
				return t.Const(64, 0)
			}
			return t.Const(64, uint64(x.c.cap))
		case ArrayVal:
			return t.Const(64, uint64(len(x)))
		case PtrVal:
			return t.Const(64, uint64(len(e.derefLoc(x).sub)))
		}
	case "append":
		s := args[0].(SliceVal)
		var add []Value
		switch y := args[1].(type) {
		case SliceVal:
			for _, l := range y.locs() {
				add = append(add, e.loadLoc(l))
			}
		case StringVal:
			for _, n := range y.b {
				add = append(add, n)
			}
		}
		if len(add) == 0 {
			return s
		}
		if s.arr != nil && s.len+len(add) <= s.cap {
			for i, v := range add {
				e.storeLoc(s.arr.sub[s.off+s.len+i], v)
			}
			s.len += len(add)
			return s
		}
		et := s.elem
		if et == nil {
			et = c.Args[0].Type().Underlying().(*types.Slice).Elem()
		}
		n := s.len + len(add)
		ncap := n
		if e.cfg.AppendSlack > 0 {
			ncap = n + e.cfg.AppendSlack
		}
		arr := e.newArrayLoc(et, ncap)
		for i, l := range s.locs() {
			e.storeLoc(arr.sub[i], e.loadLoc(l))
		}
		for i, v := range add {
			e.storeLoc(arr.sub[s.len+i], v)
		}
		return SliceVal{arr: arr, off: 0, len: n, cap: ncap, elem: et}
	case "copy":
		d := args[0].(SliceVal)
		var src []Value
		switch y := args[1].(type) {
		case SliceVal:
			for _, l := range y.locs() {
				src = append(src, e.loadLoc(l))
			}
		case StringVal:
			for _, n := range y.b {
				src = append(src, n)
			}
		}
		n := d.len
		if len(src) < n {
			n = len(src)
		}
		dl := d.locs()
		for i := 0; i < n; i++ {
			e.storeLoc(dl[i], src[i])
		}
		return t.Const(64, uint64(n))
	case "delete":
		e.mapDelete(args[0].(MapVal), args[1])
		return nil
	case "panic":
		panic(e.panicEnd("panic: " + e.describe(args[0])))
	case "recover":
		return IfaceVal{}
	case "print", "println":
		return nil
	case "close":
		e.syncPoint("close")
		ch := args[0].(ChanVal)
		if ch.c == nil {
			panic(e.panicEnd("close of nil channel"))
		}
		if ch.c.closed {
			panic(e.panicEnd("close of closed channel"))
		}
		ch.c.closed = true
		e.syncPoint("after close") // the close may have enabled another thread
		return nil
	case "min", "max":
		_, signed, _ := intWidth(c.Args[0].Type())
		r := e.scalar(args[0])
		for _, a := range args[1:] {
			y := e.scalar(a)
			var lt *Node
			if signed {
				lt = t.Cmp(OSlt, y, r)
			} else {
				lt = t.Cmp(OUlt, y, r)
			}
			if b.Name() == "max" {
				lt = t.BNot(t.BOr(lt, t.Eq(y, r)))
			}
			r = t.Ite(lt, y, r)
		}
		return r
	case "clear":
		switch x := args[0].(type) {
		case MapVal:
			if x.m != nil {
				x.m.entries = nil
			}
		case SliceVal:
			for _, l := range x.locs() {
				e.storeLoc(l, e.zero(x.elem))
			}
		}
		return nil
	case "ssa:wrapnilchk":
		if p, ok := args[0].(PtrVal); ok && p.IsNil() {
			panic(e.panicEnd("nil pointer in method wrapper"))
		}
		return args[0]
	case "String": // unsafe.String(ptr, len)
		p := args[0].(PtrVal)
		n := e.concreteInt(args[1])
		if n == 0 {
			return StringVal{}
		}
		locs := e.locsFrom(p, n)
		b := make([]*Node, n)
		for i, l := range locs {
			b[i] = l.v.(*Node)
		}
		return StringVal{b: b}
	case "StringData":
		s := args[0].(StringVal)
		if len(s.b) == 0 {
			return PtrVal{}
		}
		sl := e.sliceFromBytes(s.b)
		e.backing[sl.arr.sub[0]] = backRef{sl.arr, 0}
		return PtrVal{loc: sl.arr.sub[0]}
	case "SliceData":
		s := args[0].(SliceVal)
		if s.arr == nil || s.cap == 0 {
			return PtrVal{}
		}
		e.backing[s.arr.sub[s.off]] = backRef{s.arr, s.off}
		return PtrVal{loc: s.arr.sub[s.off]}
	case "Slice": // unsafe.Slice(ptr, len)
		p := args[0].(PtrVal)
		n := e.concreteInt(args[1])
		if p.IsNil() {
			return SliceVal{elem: c.Args[0].Type().Underlying().(*types.Pointer).Elem()}
		}
		br, ok := e.backing[p.loc]
		if !ok {
			panic(e.unsupported("unsafe.Slice of unknown pointer"))
		}
		return SliceVal{arr: br.arr, off: br.off, len: n, cap: len(br.arr.sub) - br.off, elem: c.Args[0].Type().Underlying().(*types.Pointer).Elem()}
	}
	panic(e.unsupported("builtin " + b.Name() + fmt.Sprintf(" on %T", args[0])))
}

type backRef struct {
	arr *Loc
	off int
}

func (e *Exec) locsFrom(p PtrVal, n int) []*Loc {
	br, ok := e.backing[p.loc]
	if !ok {
		if n == 1 {
			return []*Loc{p.loc}
		}
		panic(e.unsupported("unsafe pointer arithmetic on unknown pointer"))
	}
	return br.arr.sub[br.off : br.off+n]
}

// ---------- maps ----------

func (e *Exec) keyEq(a, b Value) *Node { return e.valueEq(a, b) }

func (e *Exec) mapLen(m *MapObj) *Node {
	n := 0
	for _, en := range m.entries {
		if !en.deleted {
			n++
		}
	}
	return e.tb.Const(64, uint64(n))
}

// find the entry equal to k (forking on symbolic key equality).
func (e *Exec) mapFind(m *MapObj, k Value) *mapEntry {
	if m == nil {
		return nil
	}
	for _, en := range m.entries {
		if en.deleted {
			continue
		}
		if e.branch(e.keyEq(en.k, k)) {
			return en
		}
	}
	return nil
}

func (e *Exec) mapUpdate(mv MapVal, k, v Value) {
	if mv.m == nil {
		panic(e.panicEnd("assignment to entry in nil map"))
	}
	if en := e.mapFind(mv.m, k); en != nil {
		en.v = v
		return
	}
	mv.m.entries = append(mv.m.entries, &mapEntry{k: k, v: v})
}

func (e *Exec) mapDelete(mv MapVal, k Value) {
	if mv.m == nil {
		return
	}
	if en := e.mapFind(mv.m, k); en != nil {
		en.deleted = true
	}
}

func (e *Exec) lookup(fr *Frame, x *ssa.Lookup) Value {
	base := e.get(fr, x.X)
	switch b := base.(type) {
	case StringVal:
		idx := e.asIndex(e.get(fr, x.Index), x.Index.Type())
		e.boundsCheck(idx, len(b.b), "string index")
		if idx.IsConst() {
			return b.b[idx.val]
		}
		vs := make([]Value, len(b.b))
		for i, n := range b.b {
			vs[i] = n
		}
		return e.selectVal(idx, vs)
	case MapVal:
		k := e.get(fr, x.Index)
		en := e.mapFind(b.m, k)
		var v Value
		if en != nil {
			v = en.v
		} else {
			v = e.zero(x.X.Type().Underlying().(*types.Map).Elem())
		}
		if x.CommaOk {
			return TupleVal{v, e.tb.Bool(en != nil)}
		}
		return v
	}
	panic(e.unsupported(fmt.Sprintf("Lookup on %T", base)))
}

type rangeIter struct {
	entries []*mapEntry
	str     StringVal
	isStr   bool
	pos     int
}

func (e *Exec) rangeStart(fr *Frame, x *ssa.Range) Value {
	switch b := e.get(fr, x.X).(type) {
	case MapVal:
		it := &rangeIter{}
		if b.m != nil {
			for _, en := range b.m.entries {
				if !en.deleted {
					it.entries = append(it.entries, en)
				}
			}
			if e.cfg.SortMapStrings {
				sortEntries(it.entries)
			}
			if e.cfg.MapOrderFork && len(it.entries) > 1 {
				// rotate start: a bounded sample of Go's randomised order
				k := e.choice(len(it.entries))
				it.entries = append(append([]*mapEntry{}, it.entries[k:]...), it.entries[:k]...)
			}
		}
		return it
	case StringVal:
		return &rangeIter{str: b, isStr: true}
	}
	panic(e.unsupported("range over unsupported type"))
}

func sortEntries(es []*mapEntry) {
	sort.SliceStable(es, func(i, j int) bool {
		a, ok1 := es[i].k.(StringVal)
		b, ok2 := es[j].k.(StringVal)
		if !ok1 || !ok2 {
			return false
		}
		as, ok1 := a.Concrete()
		bs, ok2 := b.Concrete()
		return ok1 && ok2 && as < bs
	})
}

func (e *Exec) next(fr *Frame, x *ssa.Next) Value {
	it := e.get(fr, x.Iter).(*rangeIter)
	t := e.tb
	if it.isStr {
		if it.pos >= len(it.str.b) {
			return TupleVal{t.False(), t.Const(64, 0), t.Const(32, 0)}
		}
		// UTF-8 decoding over symbolic bytes: a cascade of range branches that
		// mirrors unicode/utf8.DecodeRuneInString (lead-byte class, accepted
		// ranges of the second byte, continuation bytes); the rune value stays a
		// term. Invalid or truncated sequences yield (U+FFFD, width 1).
		r, size := e.decodeRuneSym(it.str.b[it.pos:])
		p := it.pos
		it.pos += size
		return TupleVal{t.True(), t.Const(64, uint64(p)), r}
	}
	for it.pos < len(it.entries) {
		en := it.entries[it.pos]
		it.pos++
		if en.deleted {
			continue
		}
		return TupleVal{t.True(), en.k, en.v}
	}
	kt := x.Type().(*types.Tuple).At(1).Type()
	vt := x.Type().(*types.Tuple).At(2).Type()
	var kz, vz Value
	if _, ok := kt.Underlying().(*types.Basic); ok && kt.Underlying().(*types.Basic).Kind() == types.Invalid {
		kz = nil
	} else {
		kz = e.zeroOrNil(kt)
	}
	vz = e.zeroOrNil(vt)
	return TupleVal{t.False(), kz, vz}
}

func (e *Exec) zeroOrNil(t types.Type) (v Value) {
	defer func() {
		if r := recover(); r != nil {
			v = nil
		}
	}()
	return e.zero(t)
}

// inRange: lo <= b <= hi as a branch.
func (e *Exec) inRange(b *Node, lo, hi uint64) bool {
	t := e.tb
	return e.branch(t.BAnd(t.Cmp(OUle, t.Const(8, lo), b), t.Cmp(OUle, b, t.Const(8, hi))))
}

func (e *Exec) decodeRuneSym(b []*Node) (*Node, int) {
	t := e.tb
	bad := t.Const(32, 0xFFFD)
	b0 := b[0]
	if e.branch(t.Cmp(OUlt, b0, t.Const(8, 0x80))) {
		return t.ZExt(b0, 32), 1
	}
	cont := func(x *Node) *Node { return t.ZExt(t.Bin(OAnd, x, t.Const(8, 0x3F)), 32) }
	shl := func(x *Node, k uint64) *Node { return t.Bin(OShl, x, t.Const(32, k)) }
	or := func(x, y *Node) *Node { return t.Bin(OOr, x, y) }
	switch {
	case e.inRange(b0, 0xC2, 0xDF):
		if len(b) < 2 || !e.inRange(b[1], 0x80, 0xBF) {
			return bad, 1
		}
		return or(shl(t.ZExt(t.Bin(OAnd, b0, t.Const(8, 0x1F)), 32), 6), cont(b[1])), 2
	case e.inRange(b0, 0xE0, 0xEF):
		if len(b) < 3 {
			return bad, 1
		}
		lo, hi := uint64(0x80), uint64(0xBF)
		if e.branch(t.Eq(b0, t.Const(8, 0xE0))) {
			lo = 0xA0
		} else if e.branch(t.Eq(b0, t.Const(8, 0xED))) {
			hi = 0x9F
		}
		if !e.inRange(b[1], lo, hi) || !e.inRange(b[2], 0x80, 0xBF) {
			return bad, 1
		}
		return or(or(shl(t.ZExt(t.Bin(OAnd, b0, t.Const(8, 0x0F)), 32), 12), shl(cont(b[1]), 6)), cont(b[2])), 3
	case e.inRange(b0, 0xF0, 0xF4):
		if len(b) < 4 {
			return bad, 1
		}
		lo, hi := uint64(0x80), uint64(0xBF)
		if e.branch(t.Eq(b0, t.Const(8, 0xF0))) {
			lo = 0x90
		} else if e.branch(t.Eq(b0, t.Const(8, 0xF4))) {
			hi = 0x8F
		}
		if !e.inRange(b[1], lo, hi) || !e.inRange(b[2], 0x80, 0xBF) || !e.inRange(b[3], 0x80, 0xBF) {
			return bad, 1
		}
		return or(or(or(shl(t.ZExt(t.Bin(OAnd, b0, t.Const(8, 0x07)), 32), 18), shl(cont(b[1]), 12)), shl(cont(b[2]), 6)), cont(b[3])), 4
	}
	return bad, 1
}

func decodeRune(b []byte) (rune, int) {
	s := string(b)
	for _, r := range s {
		if r == 0xFFFD {
			// invalid encoding: width 1 (unless it is a literal U+FFFD)
			if len(b) >= 3 && b[0] == 0xEF && b[1] == 0xBF && b[2] == 0xBD {
				return r, 3
			}
			return r, 1
		}
		return r, len(string(r))
	}
	return 0xFFFD, 1
}

// ---------- channels (sequential model) ----------

func (e *Exec) chanSend(ch ChanVal, v Value, blocking bool) bool {
	if blocking && e.exploring() && e.curThread != nil {
		e.exploreSend(ch, v)
		return true
	}
	if ch.c == nil {
		if blocking {
			panic(pathEnd{EndDeadlock, "send on nil channel" + e.where()})
		}
		return false
	}
	if ch.c.closed {
		panic(e.panicEnd("send on closed channel"))
	}
	limit := ch.c.cap
	if limit == 0 && e.cfg.UnbufferedAsOne {
		limit = 1
	}
	if len(ch.c.buf) < limit {
		ch.c.buf = append(ch.c.buf, v)
		return true
	}
	if blocking {
		if e.yield() {
			return e.chanSend(ch, v, blocking)
		}
		panic(pathEnd{EndDeadlock, "send would block" + e.where()})
	}
	return false
}

func (e *Exec) chanRecv(ch ChanVal, blocking bool) (Value, bool) {
	if blocking && e.exploring() && e.curThread != nil {
		return e.exploreRecv(ch)
	}
	if ch.c == nil {
		if blocking {
			panic(pathEnd{EndDeadlock, "receive on nil channel" + e.where()})
		}
		return nil, false
	}
	if ch.c.timer && e.timerTicks > 0 {
		e.timerTicks--
		return e.eng.intercepts["time.Now"](e, nil, nil), true
	}
	if len(ch.c.buf) > 0 {
		v := ch.c.buf[0]
		ch.c.buf = ch.c.buf[1:]
		return v, true
	}
	if ch.c.closed {
		return e.zero(ch.c.et), false
	}
	if blocking {
		if e.yield() {
			return e.chanRecv(ch, blocking)
		}
		panic(pathEnd{EndDeadlock, "receive would block" + e.where()})
	}
	return nil, false
}

// yield: the running thread is about to block; see coro.go.
func (e *Exec) yield() bool { return e.blocked() }

func (e *Exec) chanReady(ch ChanVal, send bool) bool {
	if ch.c == nil {
		return false
	}
	if ch.c.timer && !send {
		return e.timerTicks > 0
	}
	if send {
		limit := ch.c.cap
		if limit == 0 && e.cfg.UnbufferedAsOne {
			limit = 1
		}
		return ch.c.closed || len(ch.c.buf) < limit
	}
	return len(ch.c.buf) > 0 || ch.c.closed
}

func (e *Exec) doSelect(fr *Frame, x *ssa.Select) Value {
	if e.exploring() && e.curThread != nil {
		return e.exploreSelect(fr, x)
	}
	// result tuple: (index int, recvOk bool, r_0 T_0, ... r_n-1 T_n-1) for recv states
	var ready []int
	for i, st := range x.States {
		ch := e.get(fr, st.Chan).(ChanVal)
		if e.chanReady(ch, st.Dir == types.SendOnly) {
			ready = append(ready, i)
		}
	}
	t := e.tb
	res := TupleVal{nil, t.False()}
	for _, st := range x.States {
		if st.Dir == types.RecvOnly {
			res = append(res, e.zero(st.Chan.Type().Underlying().(*types.Chan).Elem()))
		}
	}
	if len(ready) == 0 {
		if !x.Blocking {
			res[0] = t.Const(64, ^uint64(0))
			return res
		}
		if e.yield() {
			return e.doSelect(fr, x)
		}
		panic(pathEnd{EndDeadlock, "select would block" + e.where()})
	}
	pick := ready[0]
	if len(ready) > 1 {
		pick = ready[e.choice(len(ready))]
	}
	st := x.States[pick]
	ch := e.get(fr, st.Chan).(ChanVal)
	res[0] = t.Const(64, uint64(pick))
	if st.Dir == types.SendOnly {
		e.chanSend(ch, e.get(fr, st.Send), true)
		return res
	}
	v, ok := e.chanRecv(ch, true)
	res[1] = t.Bool(ok)
	ri := 2
	for i, s := range x.States {
		if s.Dir == types.RecvOnly {
			if i == pick {
				res[ri] = v
			}
			ri++
		}
	}
	return res
}
