package ice

// C12 — UDP mux delivers each datagram to the right connection and to no other.
// C13 — users of a shared mux cannot disturb each other (refcount part).

import (
	"io"
	"net"
	"net/netip"
	"os"
	"sync"
	"time"

	"github.com/pion/stun/v3"
)

func init() {
	verifRegister("verifC12Sequence", verifC12Sequence)
	verifRegister("verifC12DualStack", verifC12DualStack)
	verifRegister("verifC12LastWriter", verifC12LastWriter)
	verifRegister("verifC12ClosedHandle", verifC12ClosedHandle)
	verifRegister("verifC12Universal", verifC12Universal)
	verifRegister("verifC12ShortBuffer", verifC12ShortBuffer)
	verifRegister("verifC13Refcount", verifC13Refcount)
	verifRegister("verifC13AbortProtocol", verifC13AbortProtocol)
}

type verifInDatagram struct {
	data []byte
	from *net.UDPAddr
}

// verifMuxSocket: the shared UDP socket under the mux. Inbound datagrams are
// fed through a channel (ReadFrom blocks when there is none); writes are recorded.
type verifMuxSocket struct {
	in        chan verifInDatagram
	sent      []verifDatagram
	local     *net.UDPAddr
	closed    int
	deadlines []time.Time
	failSetDL bool
	writeMode int
	// blockTag != 0: a WriteTo whose first payload byte equals blockTag blocks
	// until a non-zero write deadline is armed, then fails like a timed-out write
	blockTag    byte
	deadlineSet bool
	armed       chan struct{}
	mu          sync.Mutex
}

func (s *verifMuxSocket) ReadFrom(p []byte) (int, net.Addr, error) {
	d, ok := <-s.in
	if !ok {
		return 0, nil, io.EOF
	}
	n := copy(p, d.data)
	return n, d.from, nil
}
func (s *verifMuxSocket) WriteTo(p []byte, addr net.Addr) (int, error) {
	if s.writeMode == 1 {
		return 0, errVerifWrite
	}
	if s.blockTag != 0 && len(p) > 0 && p[0] == s.blockTag {
		// a write that cannot complete: it returns when (or as soon as) the
		// write deadline lies in the past, as a real socket does
		s.mu.Lock()
		expired := s.deadlineSet
		ch := s.armed
		if ch == nil {
			ch = make(chan struct{})
			s.armed = ch
		}
		s.mu.Unlock()
		if !expired {
			<-ch
		}
		return 0, os.ErrDeadlineExceeded
	}
	// a write deadline in the past fails every write that starts while it is
	// armed, whoever armed it (the poller checks the deadline before the
	// system call)
	s.mu.Lock()
	expired := s.deadlineSet
	s.mu.Unlock()
	if expired {
		return 0, os.ErrDeadlineExceeded
	}
	cp := append([]byte{}, p...)
	s.sent = append(s.sent, verifDatagram{cp, addr})
	return len(p), nil
}
func (s *verifMuxSocket) Close() error                      { s.closed++; return nil }
func (s *verifMuxSocket) LocalAddr() net.Addr               { return s.local }
func (s *verifMuxSocket) SetDeadline(t time.Time) error     { return nil }
func (s *verifMuxSocket) SetReadDeadline(t time.Time) error { return nil }
func (s *verifMuxSocket) SetWriteDeadline(t time.Time) error {
	if s.failSetDL {
		return errVerifWrite
	}
	s.mu.Lock()
	s.deadlines = append(s.deadlines, t)
	s.deadlineSet = !t.IsZero()
	if s.deadlineSet {
		if s.armed == nil {
			s.armed = make(chan struct{})
		}
		close(s.armed) // every blocked write times out
		s.armed = make(chan struct{})
	}
	s.mu.Unlock()
	return nil
}

func verifNewMux() (*UDPMuxDefault, *verifMuxSocket) {
	sock := &verifMuxSocket{in: make(chan verifInDatagram, 8), local: &net.UDPAddr{IP: net.IPv4(10, 0, 0, 1).To4(), Port: 5000}}
	m := NewUDPMuxDefault(UDPMuxParams{Logger: verifNopLogger{}, UDPConn: sock})
	return m, sock
}

type verifQueued struct {
	data []byte
	src  netip.AddrPort
}

func verifQueueOf(c *udpMuxedConn) []verifQueued {
	var out []verifQueued
	for p := c.bufTail; p != nil; p = p.next {
		out = append(out, verifQueued{append([]byte{}, p.buf...), p.sourceAddrPort})
	}
	return out
}

func verifUnderlying(h net.PacketConn) *udpMuxedConn {
	sp, _ := h.(*sharedPacketConn)
	if ap, ok := h.(*sharedAddrPortConn); ok { // the AddrPort flavour wraps a plain shared handle
		sp = ap.sharedPacketConn
	}
	if sp == nil {
		return nil
	}
	c, _ := sp.underlying.(*udpMuxedConn)
	return c
}

// verifMuxSocketAP: the same shared socket, additionally offering the
// netip.AddrPort read/write methods (as *net.UDPConn does): the mux then hands
// out sharedAddrPortConn handles and prefers the AddrPort paths.
type verifMuxSocketAP struct{ *verifMuxSocket }

func (s verifMuxSocketAP) ReadFromAddrPort(p []byte) (int, netip.AddrPort, error) {
	n, from, err := s.verifMuxSocket.ReadFrom(p)
	if err != nil {
		return 0, netip.AddrPort{}, err
	}
	ua, _ := from.(*net.UDPAddr)
	return n, ua.AddrPort(), nil
}

func (s verifMuxSocketAP) WriteToAddrPort(p []byte, a netip.AddrPort) (int, error) {
	return s.verifMuxSocket.WriteTo(p, net.UDPAddrFromAddrPort(a))
}

func verifNewMuxAP() (*UDPMuxDefault, *verifMuxSocket) {
	sock := &verifMuxSocket{in: make(chan verifInDatagram, 8), local: &net.UDPAddr{IP: net.IPv4(10, 0, 0, 1).To4(), Port: 5000}}
	m := NewUDPMuxDefault(UDPMuxParams{Logger: verifNopLogger{}, UDPConn: verifMuxSocketAP{sock}})
	return m, sock
}

// verifHandleWrite / verifHandleRead use the AddrPort methods of a handle when
// it has them (what candidateBase does), the net.Addr ones otherwise.
func verifHandleWrite(h net.PacketConn, p []byte, to *net.UDPAddr) (int, error) {
	if ap, ok := h.(AddrPortReaderWriter); ok {
		return ap.WriteToAddrPort(p, to.AddrPort())
	}
	return h.WriteTo(p, to)
}

func verifHandleRead(h net.PacketConn, p []byte) (int, error) {
	if ap, ok := h.(AddrPortReaderWriter); ok {
		n, _, err := ap.ReadFromAddrPort(p)
		return n, err
	}
	n, _, err := h.ReadFrom(p)
	return n, err
}

var verifMuxUfrags = []string{"u0", "u1"}

var verifMuxAddrs = []*net.UDPAddr{
	{IP: net.IPv4(20, 0, 0, 1).To4(), Port: 2000},
	{IP: net.IPv4(20, 0, 0, 2).To4(), Port: 2001},
	{IP: net.IPv4(20, 0, 0, 1).To16(), Port: 2000}, // IPv4-mapped form of address 0
	{IP: net.ParseIP("2001:db8::7"), Port: 2007},
}

func verifCanon(a *net.UDPAddr) netip.AddrPort {
	ap := a.AddrPort()
	return netip.AddrPortFrom(ap.Addr().Unmap(), ap.Port())
}

// reference model of the routing table
type verifRefConn struct {
	c       *udpMuxedConn
	ufrag   string
	live    bool // registered in the mux and not closed
	handles int
	queue   []verifQueued
}

func verifC12Sequence() {
	m, sock := verifNewMux()
	verifRunGoroutines()
	var conns []*verifRefConn
	var handles []net.PacketConn
	var handleConn []*verifRefConn
	owner := map[netip.AddrPort]*verifRefConn{}
	muxClosed := false
	staleWrite := false // a write went through a handle whose connection had been removed from the mux
	nOps := 3           // (4 operations exhausted a 400k-path budget in 27 min in the thorough tier: not claimed)
	nAddrs := 3         // two IPv4 addresses + the IPv4-mapped form of the first (IPv6 peers: verifC12DualStack)

	find := func(c *udpMuxedConn) *verifRefConn {
		for _, r := range conns {
			if r.c == c {
				return r
			}
		}
		return nil
	}
	byUfrag := func(u string) *verifRefConn {
		for _, r := range conns {
			if r.live && r.ufrag == u {
				return r
			}
		}
		return nil
	}
	dropOwners := func(r *verifRefConn) {
		for k, v := range owner {
			if v == r {
				delete(owner, k)
			}
		}
	}

	for op := -1; op < nOps; op++ {
		kind := 0
		if op >= 0 { // the sequence starts with one GetConn (pre-state: a connection exists)
			kind = verifChoice(6)
		}
		switch kind {
		case 0: // GetConn
			u := verifMuxUfrags[0]
			if op >= 0 {
				u = verifMuxUfrags[verifChoice(2)]
			}
			h, err := m.GetConn(u, sock.local)
			if muxClosed {
				verifAssert(err != nil, "closed-mux-hands-out-no-connection")
				continue
			}
			verifAssert(err == nil && h != nil, "GetConn-ok")
			if err != nil {
				continue
			}
			uc := verifUnderlying(h)
			verifAssert(uc != nil, "handle-wraps-a-muxed-conn")
			r := find(uc)
			if want := byUfrag(u); want != nil {
				verifAssert(r == want, "same-ufrag=>same-underlying-connection")
			} else {
				verifAssert(r == nil, "new-ufrag=>fresh-connection")
				r = &verifRefConn{c: uc, ufrag: u, live: true}
				conns = append(conns, r)
			}
			if r != nil {
				r.handles++
				handles = append(handles, h)
				handleConn = append(handleConn, r)
			}
		case 1: // write through a handle
			if len(handles) == 0 {
				continue
			}
			hi := verifChoice(len(handles))
			a := verifMuxAddrs[verifChoice(nAddrs)]
			payload := verifBytes(2)
			n0 := len(sock.sent)
			n, err := handles[hi].WriteTo(payload, a)
			r := handleConn[hi]
			if err == nil {
				verifReach("written")
				verifAssert(n == 2 && len(sock.sent) == n0+1 && verifBytesEq(sock.sent[n0].data, payload), "write-goes-out-once,unmodified")
				// the known deviation: a write through a still-open handle after
				// RemoveConnByUfrag binds the address to the removed connection again
				if r.live {
					if prev := owner[verifCanon(a)]; prev != nil && prev != r {
						_ = prev
					}
					owner[verifCanon(a)] = r
				} else {
					verifReach("write-after-removal")
					staleWrite = true
					owner[verifCanon(a)] = r // what the code does (finding C12-write-after-remove); checked at delivery
				}
			} else {
				verifAssert(len(sock.sent) == n0, "failed-write-sends-nothing")
			}
		case 2: // inbound datagram
			a := verifMuxAddrs[verifChoice(nAddrs)]
			kind := verifChoice(3)
			var data []byte
			ufrag := ""
			switch kind {
			case 0:
				data = verifBytes(3)
				verifAssume(true)
			default:
				if kind == 1 {
					ufrag = verifMuxUfrags[verifChoice(2)]
				} else {
					ufrag = verifString(2) // arbitrary 2-byte ufrag
				}
				msg, err := stun.Build(stun.BindingRequest, stun.NewTransactionIDSetter(verifTxID()), stun.NewUsername(ufrag+":rr"))
				verifAssert(err == nil, "build")
				data = msg.Raw
			}
			before := map[*verifRefConn]int{}
			for _, r := range conns {
				before[r] = len(verifQueueOf(r.c))
			}
			if muxClosed {
				continue
			}
			sock.in <- verifInDatagram{data: data, from: a}
			verifRunGoroutines()
			// expected destination
			var want *verifRefConn
			if o := owner[verifCanon(a)]; o != nil {
				want = o
			} else if kind != 0 && !verifCanon(a).Addr().Is6() {
				for _, r := range conns {
					if r.live && verifStrEq(r.ufrag, ufrag) { // forks on the symbolic ufrag
						want = r
					}
				}
			}
			delivered := 0
			for _, r := range conns {
				q := verifQueueOf(r.c)
				grew := len(q) - before[r]
				if r == want {
					stale := !r.live
					verifAssertKnown(!stale, "removed-or-closed-connection-receives-nothing", "C12-write-after-remove", stale)
					if !stale || grew == 1 {
						verifAssert(grew == 1 || (stale && grew == 0), "expected-connection-got-exactly-one-datagram")
					}
					if grew == 1 {
						verifReach("delivered")
						last := q[len(q)-1]
						verifAssert(verifBytesEq(last.data, data), "delivered-bytes-identical")
						verifAssert(last.src == a.AddrPort(), "delivered-with-the-true-source-address")
						r.queue = append(r.queue, verifQueued{data, a.AddrPort()})
					}
				} else {
					verifAssert(grew == 0, "no-other-connection-receives-it")
				}
				delivered += grew
			}
			verifAssert(delivered <= 1, "at-most-one-connection-per-datagram")
			if want == nil {
				verifReach("dropped")
			}
			// per-connection FIFO
			for _, r := range conns {
				q := verifQueueOf(r.c)
				if r.c.closed {
					continue
				}
				verifAssert(len(q) == len(r.queue), "queue-length=deliveries")
				for i := range q {
					if i < len(r.queue) {
						verifAssert(verifBytesEq(q[i].data, r.queue[i].data), "arrival-order-kept-per-connection")
					}
				}
			}
		case 3: // RemoveConnByUfrag
			u := verifMuxUfrags[verifChoice(2)]
			m.RemoveConnByUfrag(u)
			if r := byUfrag(u); r != nil {
				verifReach("removed")
				r.live = false
				dropOwners(r)
			}
			for k, v := range m.addressMap {
				if muxClosed {
					break // a closed mux dispatches nothing: its leftover table has no observable effect
				}
				if rr := find(v); rr != nil {
					verifAssertKnown(rr.live, "after-removal-no-address-binding-points-at-the-removed-connection", "C12-write-after-remove", staleWrite)
				}
				_ = k
			}
		case 4: // close a handle
			if len(handles) == 0 {
				continue
			}
			hi := verifChoice(len(handles))
			r := handleConn[hi]
			sp, _ := handles[hi].(*sharedPacketConn)
			already := sp != nil && sp.ctx.Err() != nil
			verifAssert(handles[hi].Close() == nil, "close-ok")
			verifRunGoroutines()
			if !already {
				r.handles--
			}
			if r.handles == 0 {
				verifReach("last-handle-closed")
				verifAssert(r.c.closed, "last-handle=>underlying-closed")
				r.live = false
				r.queue = nil
				dropOwners(r)
				for _, v := range m.addressMap {
					if muxClosed {
						break
					}
					verifAssertKnown(v != r.c, "closed-connection-has-no-address-binding", "C12-write-after-remove", staleWrite)
				}
			} else {
				verifAssert(!r.c.closed || !r.live, "siblings-keep-the-underlying-open")
			}
		case 5: // close the mux
			verifAssert(m.Close() == nil, "mux-close-ok")
			verifRunGoroutines()
			if !muxClosed {
				verifReach("mux-closed")
				verifAssert(sock.closed == 1, "socket-closed-once")
			}
			muxClosed = true
			for _, r := range conns {
				if r.live {
					verifAssert(r.c.closed, "mux-close-closes-every-registered-connection")
				}
				r.live = false
				r.queue = nil
				dropOwners(r)
			}
		}
		// every connection the reference holds live is the one the mux has on
		// record for its ufrag (nothing but its own removal, its last handle's
		// Close or the mux's Close unregisters it)
		if !muxClosed {
			for _, r := range conns {
				if r.live {
					verifAssertKnown(m.connsIPv4[r.ufrag] == r.c, "a-live-connection-stays-registered-for-its-ufrag", "C12-stale-close-unregisters-successor", true)
				}
			}
		}
		// Inv_mux: address map and per-connection address lists agree, keys canonical
		for k, v := range m.addressMap {
			verifAssert(k == netip.AddrPortFrom(k.Addr().Unmap(), k.Port()), "address-map-keys-canonical")
			has := false
			for _, x := range v.addresses {
				if x == k {
					has = true
				}
			}
			verifAssert(has, "map-entry-listed-by-its-connection")
		}
	}
	verifReach("done")
}

// A mux on the unspecified address serves one ufrag on both IP families (the
// agent asks once per local address). Removing the ufrag — or closing the mux —
// must retire BOTH connections: nothing is delivered to either afterwards,
// neither from an address they had written to nor by ufrag, and the tables hold
// no reference to them.
func verifC12DualStack() {
	sock := &verifMuxSocket{in: make(chan verifInDatagram, 8), local: &net.UDPAddr{IP: net.IPv6unspecified, Port: 5000}}
	m := NewUDPMuxDefault(UDPMuxParams{Logger: verifNopLogger{}, UDPConn: sock, Net: &verifNet{}})
	verifRunGoroutines()
	local4 := &net.UDPAddr{IP: net.IPv4(10, 0, 0, 1).To4(), Port: 5000}
	local6 := &net.UDPAddr{IP: net.ParseIP("fd00::1"), Port: 5000}
	peer4 := verifMuxAddrs[0]
	peer6 := verifMuxAddrs[3]
	h4, err4 := m.GetConn("u0", local4)
	h6, err6 := m.GetConn("u0", local6)
	verifAssert(err4 == nil && err6 == nil, "GetConn-ok(both-families)")
	c4, c6 := verifUnderlying(h4), verifUnderlying(h6)
	verifAssert(c4 != nil && c6 != nil && c4 != c6, "one-connection-per-family")
	hAgain, _ := m.GetConn("u0", local6)
	verifAssert(verifUnderlying(hAgain) == c6, "same-ufrag-and-family=>same-connection")
	_ = hAgain.Close()
	wrote := verifChoice(2) == 1
	if wrote { // bind a peer address to each connection
		_, e1 := h4.WriteTo([]byte{1, 2}, peer4)
		_, e2 := h6.WriteTo([]byte{3, 4}, peer6)
		verifAssert(e1 == nil && e2 == nil, "writes-ok")
	}
	// before the removal each family's traffic reaches its own connection
	deliver := func(from *net.UDPAddr, stunFor string) {
		var data []byte
		if stunFor == "" {
			data = verifBytes(3)
		} else {
			msg, err := stun.Build(stun.BindingRequest, stun.NewTransactionIDSetter(verifTxID()), stun.NewUsername(stunFor+":rr"))
			verifAssert(err == nil, "build")
			data = msg.Raw
		}
		sock.in <- verifInDatagram{data: data, from: from}
		verifRunGoroutines()
	}
	n4, n6 := len(verifQueueOf(c4)), len(verifQueueOf(c6))
	deliver(&net.UDPAddr{IP: net.IPv4(20, 0, 0, 9).To4(), Port: 2009}, "u0")
	deliver(&net.UDPAddr{IP: net.ParseIP("2001:db8::9"), Port: 2009}, "u0")
	verifAssert(len(verifQueueOf(c4)) == n4+1 && len(verifQueueOf(c6)) == n6+1, "each-family's-request-reaches-its-own-connection")
	how := verifChoice(3)
	switch how {
	case 0:
		m.RemoveConnByUfrag("u0")
		verifReach("removed")
	case 1:
		verifAssert(m.Close() == nil, "mux-close-ok")
		verifRunGoroutines()
		verifReach("mux-closed")
	default: // the agent closes its handles (last handle closes the connection, whose watcher removes the ufrag)
		verifAssert(h4.Close() == nil && h6.Close() == nil, "close-ok")
		verifRunGoroutines()
		verifReach("handles-closed")
	}
	_, in4 := m.connsIPv4["u0"]
	_, in6 := m.connsIPv6["u0"]
	verifAssert(!in4 && !in6, "ufrag-gone-from-both-family-tables")
	if how != 1 { // a closed mux dispatches nothing; its leftover table has no effect
		for _, v := range m.addressMap {
			verifAssert(v != c4 && v != c6, "no-address-binding-points-at-a-removed-connection")
		}
	}
	n4, n6 = len(verifQueueOf(c4)), len(verifQueueOf(c6))
	if how != 1 {
		switch verifChoice(4) {
		case 0:
			deliver(peer4, "")
		case 1:
			deliver(peer6, "")
		case 2:
			deliver(&net.UDPAddr{IP: net.IPv4(20, 0, 0, 8).To4(), Port: 2008}, "u0")
		default:
			deliver(&net.UDPAddr{IP: net.ParseIP("2001:db8::8"), Port: 2008}, "u0")
		}
		verifAssert(len(verifQueueOf(c4)) == n4 && len(verifQueueOf(c6)) == n6, "removed-connections-receive-nothing(either-family)")
		hNew, err := m.GetConn("u0", local6)
		verifAssert(err == nil && verifUnderlying(hNew) != c6 && verifUnderlying(hNew) != c4, "GetConn-after-removal-returns-a-fresh-connection")
	}
	verifReach("done")
}

// Last writer wins, for every history of writes: two connections write to two
// remote addresses in any order; afterwards a datagram from each address is
// delivered to the connection that wrote to it LAST (and to no other), the
// address table agrees, and removing that connection's ufrag unbinds the
// address again.
func verifC12LastWriter() {
	m, sock := verifNewMux()
	verifRunGoroutines()
	hs := make([]net.PacketConn, 2)
	cs := make([]*udpMuxedConn, 2)
	for i := range hs {
		h, err := m.GetConn(verifMuxUfrags[i], sock.local)
		verifAssert(err == nil, "GetConn-ok")
		hs[i], cs[i] = h, verifUnderlying(h)
	}
	addrs := verifMuxAddrs[:2]
	last := []int{-1, -1}
	nWrites := 3 + verifTier()
	for k := 0; k < nWrites; k++ {
		hi, ai := verifChoice(2), verifChoice(2)
		_, err := hs[hi].WriteTo([]byte{byte(k), 1}, addrs[ai])
		verifAssert(err == nil, "write-ok")
		last[ai] = hi
		// the table follows every write at once
		verifAssert(m.addressMap[verifCanon(addrs[ai])] == cs[hi], "address-binding-follows-the-most-recent-writer")
	}
	for ai, a := range addrs {
		n0, n1 := len(verifQueueOf(cs[0])), len(verifQueueOf(cs[1]))
		payload := verifBytes(3)
		sock.in <- verifInDatagram{data: payload, from: a}
		verifRunGoroutines()
		g0, g1 := len(verifQueueOf(cs[0]))-n0, len(verifQueueOf(cs[1]))-n1
		switch last[ai] {
		case -1:
			verifReach("never-written")
			verifAssert(g0 == 0 && g1 == 0, "datagram-from-an-unbound-address-is-dropped")
		case 0:
			verifAssert(g0 == 1 && g1 == 0, "datagram-goes-to-the-last-writer-only")
		default:
			verifReach("taken-over-or-kept")
			verifAssert(g0 == 0 && g1 == 1, "datagram-goes-to-the-last-writer-only")
		}
	}
	// removing the last writer of address 0 unbinds it (nothing falls back to the earlier writer)
	if lw := last[0]; lw >= 0 {
		m.RemoveConnByUfrag(verifMuxUfrags[lw])
		_, bound := m.addressMap[verifCanon(addrs[0])]
		verifAssert(!bound, "removing-the-last-writer-unbinds-the-address")
		n0, n1 := len(verifQueueOf(cs[0])), len(verifQueueOf(cs[1]))
		sock.in <- verifInDatagram{data: []byte{9, 9, 9}, from: addrs[0]}
		verifRunGoroutines()
		verifAssert(len(verifQueueOf(cs[0])) == n0 && len(verifQueueOf(cs[1])) == n1, "after-removal-the-address-reaches-nobody")
	}
	verifReach("done")
}

// Per-connection FIFO with readers whose buffer may be too small: three
// datagrams arrive; reads with a large or a too-small buffer in any order.
// Every delivered datagram is complete and unmodified, no datagram is
// delivered twice, and the delivered ones appear in arrival order (a datagram
// that did not fit is reported as a short buffer and never comes back later).
func verifC12ShortBuffer() {
	m, sock := verifNewMux()
	verifRunGoroutines()
	h, err := m.GetConn("u0", sock.local)
	verifAssert(err == nil, "GetConn-ok")
	c := verifUnderlying(h)
	peer := verifMuxAddrs[0]
	_, err = h.WriteTo([]byte{0}, peer) // bind the peer's address to this connection
	verifAssert(err == nil, "write-ok")
	var sentIn [][]byte
	for k := 1; k <= 3; k++ {
		d := append([]byte{byte(k)}, verifBytes(2+verifChoice(2))...) // 3 or 4 bytes, tagged by arrival order
		sentIn = append(sentIn, d)
		sock.in <- verifInDatagram{data: d, from: peer}
		verifRunGoroutines()
	}
	verifAssert(len(verifQueueOf(c)) == 3, "three-datagrams-queued")
	lastTag := 0
	delivered := 0
	for r := 0; r < 6; r++ {
		if len(verifQueueOf(c)) == 0 {
			break
		}
		size := 8
		if r < 3+verifTier() { // the first reads use either buffer, the rest drain with a large one
			size = []int{2, 8}[verifChoice(2)]
		}
		buf := make([]byte, size)
		n, from, rerr := h.ReadFrom(buf)
		if rerr != nil {
			verifReach("short-buffer")
			verifAssert(rerr == io.ErrShortBuffer && n == 0 && size == 2, "only-a-too-small-buffer-fails-a-read")
			continue
		}
		verifAssert(size == 8 && n >= 3 && from != nil && from.String() == peer.String(), "delivered-with-the-peer's-address")
		tag := int(buf[0])
		verifAssert(tag > lastTag && tag <= 3, "delivered-datagrams-keep-their-arrival-order(nothing-comes-back-later)")
		if tag >= 1 && tag <= 3 {
			verifAssert(verifBytesEq(buf[:n], sentIn[tag-1]), "delivered-datagram-complete-and-unmodified")
		}
		lastTag = tag
		delivered++
	}
	verifAssert(len(verifQueueOf(c)) == 0, "every-datagram-was-delivered-or-reported-short-exactly-once")
	if delivered > 0 {
		verifReach("delivered")
	}
	verifReach("done")
}

// The universal mux reads the shared socket through a wrapper that looks at
// STUN responses of the servers it asked for its mapped address. The wrapper
// only observes: every datagram the socket returned goes on to the dispatcher
// unchanged, the response of a known STUN server included (the peer of a
// connection and the STUN server may be the same transport address), and the
// mapped address is still learned from it.
func verifC12Universal() {
	sock := &verifMuxSocket{in: make(chan verifInDatagram, 8), local: &net.UDPAddr{IP: net.IPv4(10, 0, 0, 1).To4(), Port: 5000}}
	var under net.PacketConn = sock
	if verifChoice(2) == 1 {
		verifReach("addrport-socket")
		under = verifMuxSocketAP{sock}
	}
	m := NewUniversalUDPMuxDefault(UniversalUDPMuxParams{Logger: verifNopLogger{}, UDPConn: under})
	verifRunGoroutines()
	server := verifMuxAddrs[0]
	known := verifChoice(2) == 1
	if known {
		m.mu.Lock()
		m.xorMappedMap[verifCanon(server)] = &xorMapped{expiresAt: verifNow().Add(25 * time.Second), waitAddrReceived: make(chan struct{})}
		m.mu.Unlock()
	}
	h, err := m.GetConn("u0", sock.local)
	verifAssert(err == nil, "GetConn-ok")
	c := verifUnderlying(h)
	_, err = verifHandleWrite(h, []byte{0, 1}, server) // the connection talks to that address
	verifAssert(err == nil, "write-ok")

	var id [stun.TransactionIDSize]byte
	copy(id[:], verifBytes(stun.TransactionIDSize))
	var first []byte
	kind := verifChoice(3)
	switch kind {
	case 0:
		msg, berr := stun.Build(stun.NewTransactionIDSetter(id), stun.BindingSuccess,
			&stun.XORMappedAddress{IP: net.IPv4(203, 0, 113, 7).To4(), Port: 40000})
		verifAssert(berr == nil, "build")
		first = msg.Raw
	case 1:
		msg, berr := stun.Build(stun.NewTransactionIDSetter(id), stun.BindingSuccess)
		verifAssert(berr == nil, "build")
		first = msg.Raw
	default:
		first = verifBytes(3)
		verifAssume(!verifLooksSTUN(first))
	}
	second := []byte{7, 7, 7}
	n0 := len(verifQueueOf(c))
	sock.in <- verifInDatagram{data: first, from: server}
	verifRunGoroutines()
	sock.in <- verifInDatagram{data: second, from: server}
	verifRunGoroutines()
	q := verifQueueOf(c)[n0:]
	if known && kind == 0 {
		verifReach("response-of-a-known-stun-server")
		m.mu.Lock()
		e := m.xorMappedMap[verifCanon(server)]
		verifAssert(e != nil && e.addr != nil && e.addr.Port == 40000, "mapped-address-learned-from-the-response")
		m.mu.Unlock()
	}
	verifAssert(len(q) == 2, "every-datagram-of-the-bound-address-reaches-the-last-writer")
	if len(q) == 2 {
		verifAssert(verifBytesEq(q[0].data, first) && verifBytesEq(q[1].data, second), "byte-identical-and-in-arrival-order")
		verifAssert(q[0].src == verifCanon(server) && q[1].src == verifCanon(server), "true-source-address")
	}
	verifReach("done")
}

// A closed connection receives nothing: two handles of one ufrag, one is
// closed while a datagram for that ufrag is (or becomes) queued; a read on the
// closed handle fails and takes nothing, the datagram stays for the handle
// that is still open, which reads it unchanged.
func verifC12ClosedHandle() {
	m, sock := verifNewMux()
	if verifChoice(2) == 1 {
		m, sock = verifNewMuxAP()
		verifReach("addrport-handles")
	}
	verifRunGoroutines()
	h0, err0 := m.GetConn("u0", sock.local)
	h1, err1 := m.GetConn("u0", sock.local)
	verifAssert(err0 == nil && err1 == nil, "GetConn-ok")
	hs := []net.PacketConn{h0, h1}
	c := verifUnderlying(h0)
	peer := verifMuxAddrs[0]
	_, err := verifHandleWrite(hs[verifChoice(2)], []byte{0, 1}, peer)
	verifAssert(err == nil, "write-ok")
	ci := verifChoice(2)
	payload := verifBytes(3)
	queuedFirst := verifChoice(2) == 1
	if queuedFirst {
		sock.in <- verifInDatagram{data: payload, from: peer}
		verifRunGoroutines()
	}
	verifAssert(hs[ci].Close() == nil, "close-ok")
	verifRunGoroutines()
	if !queuedFirst {
		verifReach("arrives-after-the-close")
		sock.in <- verifInDatagram{data: payload, from: peer}
		verifRunGoroutines()
	}
	verifAssert(len(verifQueueOf(c)) == 1, "datagram-queued-for-the-ufrag")
	buf := make([]byte, 8)
	n, rerr := verifHandleRead(hs[ci], buf)
	verifAssert(rerr != nil && n == 0, "closed-handle-receives-nothing")
	verifAssert(len(verifQueueOf(c)) == 1, "closed-handle's-read-takes-nothing-from-the-queue")
	n, rerr = verifHandleRead(hs[1-ci], buf)
	verifAssert(rerr == nil && n == 3 && verifBytesEq(buf[:n], payload), "open-handle-reads-it-unchanged")
	verifReach("done")
}
