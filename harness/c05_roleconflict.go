package ice

// C05 — role conflicts resolve by tie-breaker (RFC 8445 §7.3.1.1).

import (
	"context"
	"net/netip"

	"github.com/pion/stun/v3"
)

func init() {
	verifRegister("verifC05RoleConflict", verifC05RoleConflict)
	verifRegister("verifC05Pairwise", verifC05Pairwise)
	verifRegister("verifC05Late487", verifC05Late487)
	verifRegister("verifC05RoleAtStart", verifC05RoleAtStart)
}

func verifC05RoleConflict() {
	controlling := verifChoice(2) == 1
	lite := false
	w := verifNewWorld(controlling, lite, 1, 1)
	w.pairAll()
	a := w.a
	a.tieBreaker = verifU64()
	// any candidate priorities (the tie bit of the pair priority depends on which is greater)
	w.locals[0].priorityOverride = uint32(verifInt(1, 1<<31-1))
	verifBaseOf(w.remotes[0]).priorityOverride = uint32(verifInt(1, 1<<31-1))
	// arbitrary pair state, bookkeeping and selection: a conflict must leave all of it alone
	for _, p := range a.checklist {
		p.state = CandidatePairState(verifInt(1, 4))
		p.nominated = verifBool()
		p.nominateOnBindingSuccess = verifBool()
		p.renominateOnBindingSuccess = verifBool()
		p.bindingRequestCount = uint16(verifInt(0, 9))
	}
	if verifChoice(2) == 1 {
		sp := a.checklist[0]
		verifAssume(verifAnd(sp.state == CandidatePairStateSucceeded, sp.nominated))
		a.selectedPair.Store(sp)
		a.connectionState = ConnectionStateConnected
	}
	if cs, ok := a.selector.(*controllingSelector); ok && verifChoice(2) == 1 {
		np := a.checklist[0]
		verifAssume(verifAnd(np.state == CandidatePairStateSucceeded, np.nominated))
		cs.nominatedPair = np
	}
	remoteTB := verifU64()
	ctrl := verifChoice(4)
	useCand := verifChoice(2) == 1
	id := verifTxID()
	msg := verifBindingRequest(id, ctrl, remoteTB, useCand, 12345)
	src := verifAddrPortOf(w.remotes[0])
	unknownSrc := verifChoice(2) == 1 // the request may come from an address that is not a known remote yet
	if unknownSrc {
		src = netip.AddrPortFrom(netip.AddrFrom4([4]byte{30, 0, 0, 1}), 3000)
		verifReach("unknown-source")
	}

	before := w.snap()
	selBefore := a.selector
	prioBefore := make([]uint64, len(a.checklist))
	for i, p := range a.checklist {
		prioBefore[i] = p.priority() // (the pair priorities have been read before: ordering the checklist does that)
	}
	a.handleInbound(msg, w.locals[0], src)
	after := w.snap()
	// the pair priority is the RFC 8445 formula for the CURRENT role at every
	// moment, before and after a switch (the peer computes the mirrored value)
	for i, p := range a.checklist {
		if i < len(prioBefore) {
			g, d := uint64(p.Local.Priority()), uint64(p.Remote.Priority())
			if !after.controlling {
				g, d = d, g
			}
			mn, mx, gt := g, d, uint64(0)
			if d < g {
				mn, mx, gt = d, g, 1
			}
			verifAssert(p.priority() == (1<<32-1)*mn+2*mx+gt, "pair-priority=formula-for-the-current-role,also-after-a-switch")
		}
	}

	// oracle: which role does the request claim (ICE-CONTROLLING wins when both are present)
	claimsControlling := ctrl == 1 || ctrl == 3
	hasRole := ctrl != 0
	conflict := hasRole && (claimsControlling == controlling)

	if conflict {
		verifReach("conflict")
		keep := verifOr(verifAnd(controlling, a.tieBreaker >= remoteTB), verifAnd(!controlling, a.tieBreaker < remoteTB))
		flipped := after.controlling != before.controlling
		verifAssert(flipped == verifNot(keep), "role-flips-iff-tie-breaker-loses")
		verifAssert(verifImplies(flipped, a.selector != selBefore), "selector-replaced-on-switch")
		if flipped { // forks
			ncs, isCtl := a.selector.(*controllingSelector)
			verifAssert(isCtl == after.controlling, "the-new-selector-is-the-one-of-the-new-role")
			if isCtl {
				verifAssert(ncs.nominatedPair == nil, "the-new-controlling-selector-starts-without-a-nomination-in-progress")
			}
			// RFC 8445 §7.3.1.1: after a switch the pair priorities are recomputed
			// (G and D swap), so that both sides keep ordering pairs identically
			for _, p := range a.checklist {
				verifAssertKnown(p.iceRoleControlling == after.controlling, "after-a-role-switch-the-listed-pairs-compute-their-priority-for-the-new-role", "C05-pairs-keep-old-role-after-switch", true)
			}
		}
		verifAssert(verifImplies(verifNot(flipped), a.selector == selBefore), "selector-kept-when-role-kept")
		nSent := after.sent - before.sent
		verifAssert(verifIteInt(keep, 1, 0) == nSent, "487-sent-iff-role-kept,nothing-sent-on-switch")
		if nSent == 1 {
			verifReach("487")
			r := verifParseSent(w.conns[0], 0)
			verifAssert(r != nil, "reply-decodes")
			if r != nil {
				verifAssert(r.Type.Class == stun.ClassErrorResponse && r.Type.Method == stun.MethodBinding, "reply-is-binding-error")
				verifAssert(r.TransactionID == id, "reply-echoes-transaction-id")
				var ec stun.ErrorCodeAttribute
				err := ec.GetFrom(r)
				verifAssert(err == nil && ec.Code == stun.CodeRoleConflict, "reply-carries-487")
				verifAssert(stun.NewShortTermIntegrity(verifLocalPwd).Check(r) == nil, "reply-is-integrity-protected-with-the-local-password")
				verifAssert(verifMustAddrPort(w.conns[0].sent[0].to.String()) == src, "reply-goes-to-the-request's-source")
			}
		} else {
			verifReach("switch")
		}
		// never treated as a connectivity check (an unknown source may be
		// learnt as a peer-reflexive candidate, with fresh pairs: the existing
		// pairs and the selection are untouched either way)
		same := len(after.pairs) >= len(before.pairs)
		for i := range before.pairs {
			if i < len(after.pairs) {
				same = verifAnd(same, verifPairSnapEq(before.pairs[i], after.pairs[i]))
			}
		}
		verifAssert(same, "conflict=>no-change-to-existing-pairs")
		for i := len(before.pairs); i < len(after.pairs); i++ {
			np := after.pairs[i]
			verifAssert(unknownSrc && np.state != CandidatePairStateSucceeded && !np.nominated && !np.nomOnSucc, "conflict=>a-pair-learnt-from-an-unknown-source-carries-no-check-result-or-nomination")
		}
		verifAssert(before.selected == after.selected, "conflict=>no-selection")
		if !unknownSrc {
			verifAssert(verifPairsUnchanged(before, after), "conflict=>no-pair-change")
			verifAssert(before.nRemotes == after.nRemotes, "conflict=>no-candidate-added")
		}
	} else {
		verifReach("no-conflict")
		verifAssert(after.controlling == before.controlling, "no-conflict=>role-kept")
		verifAssert(after.sent-before.sent >= 1, "no-conflict=>request-is-processed(success-response)")
		r := verifParseSent(w.conns[0], 0)
		verifAssert(r != nil && r.Type.Class == stun.ClassSuccessResponse, "no-conflict=>binding-success")
	}
	verifReach("done")
}

// Two agents started in the same role with distinct tie-breakers: exactly one
// of "A handles B's request" / "B handles A's request" switches role.
func verifC05Pairwise() {
	controlling := verifChoice(2) == 1
	tbA, tbB := verifU64(), verifU64()
	verifAssume(tbA != tbB)
	run := func(own, peer uint64) bool {
		w := verifNewWorld(controlling, false, 1, 1)
		w.pairAll()
		w.a.tieBreaker = own
		ctrl := 2
		if controlling {
			ctrl = 1
		}
		msg := verifBindingRequest(verifTxID(), ctrl, peer, false, 1)
		w.a.handleInbound(msg, w.locals[0], verifAddrPortOf(w.remotes[0]))
		return w.a.isControlling.Load() != controlling
	}
	flipA := run(tbA, tbB)
	flipB := run(tbB, tbA)
	verifAssert(flipA != flipB, "exactly-one-side-switches")
	verifReach("done")
}

// A 487 answer to one of the agent's own checks. The roles are settled by the
// requests alone (the receiver of a conflicting request decides and, if it
// keeps its role, says so with a 487); the 487 itself is an error response and
// changes nothing at the agent that receives it — in particular an agent that
// has already given way to the peer's conflicting request is not flipped back
// by the late 487 to a check it sent before. Correctly signed, transaction
// outstanding, from the address the check went to: still nothing changes.
func verifC05Late487() {
	controlling := verifChoice(2) == 1
	w := verifNewWorld(controlling, false, 1, 1)
	w.pairAll()
	a := w.a
	a.tieBreaker = verifU64()
	for _, p := range a.checklist {
		p.state = CandidatePairState(verifInt(1, 4))
		p.nominated = verifBool()
		p.bindingRequestCount = uint16(verifInt(0, 9))
	}
	id := verifTxID()
	dst := verifAddrPortOf(w.remotes[0])
	a.pendingBindingRequests = append(a.pendingBindingRequests, bindingRequest{timestamp: verifNow(), transactionID: id,
		destination: dst, networkType: NetworkTypeUDP4, isUseCandidate: verifChoice(2) == 1})
	code := stun.CodeRoleConflict
	if verifChoice(2) == 1 {
		code = stun.CodeBadRequest
	}
	msg, err := stun.Build(stun.NewTransactionIDSetter(id), stun.NewType(stun.MethodBinding, stun.ClassErrorResponse),
		code, stun.NewShortTermIntegrity(verifRemotePwd), stun.Fingerprint)
	verifAssert(err == nil, "build-487")
	before := w.snap()
	selBefore := a.selector
	a.handleInbound(msg, w.locals[0], dst)
	after := w.snap()
	verifAssert(after.controlling == before.controlling && a.selector == selBefore, "an-error-response-never-changes-the-role")
	verifAssert(verifNothingChanged(before, after), "an-error-response-changes-nothing")
	verifReach("done")
}

// The role an agent is started in reaches the pairs that exist already:
// candidates may be exchanged before Dial/Accept, so pairs are formed while the
// agent still has its default role. Once the connectivity checks start, every
// listed pair computes its priority for the started role — the value the peer
// computes for the mirrored pair (RFC 8445 §6.1.2.3: G is the controlling
// agent's candidate priority on both sides).
func verifC05RoleAtStart() {
	w := verifNewWorld(false, false, 1, 1) // a fresh agent: the default role, not started
	a := w.a
	a.loop = verifLoop()
	w.locals[0].priorityOverride = uint32(verifInt(1, 1<<31-1))
	verifBaseOf(w.remotes[0]).priorityOverride = uint32(verifInt(1, 1<<31-1))
	w.pairAll()
	controlling := verifChoice(2) == 1
	startedCtx, startedFn := context.WithCancel(context.Background())
	a.startedCh, a.startedFn = startedCtx.Done(), startedFn
	err := a.startConnectivityChecks(controlling, verifRemoteUfrag, verifRemotePwd)
	verifAssert(err == nil, "start")
	verifAssert(a.isControlling.Load() == controlling, "started-role")
	for _, p := range a.checklist {
		g, d := uint64(p.Local.Priority()), uint64(p.Remote.Priority())
		if !controlling {
			g, d = d, g
		}
		mn, mx, gt := g, d, uint64(0)
		if d < g {
			mn, mx, gt = d, g, 1
		}
		verifAssertKnown(p.priority() == (1<<32-1)*mn+2*mx+gt, "pairs-formed-before-the-start-compute-their-priority-for-the-started-role", "C17-pairs-formed-before-start-keep-default-role", controlling)
	}
	if controlling {
		verifReach("started-controlling")
	}
	verifReach("done")
}
