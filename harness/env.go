package ice

// Harness vocabulary. The bodies below are the NATIVE (replay / translator
// validation) semantics: nondeterministic values come from a vector. The
// symbolic engine intercepts every function in this file by name and never
// executes these bodies.

import (
	"fmt"
	"time"
)

func verifAfter() <-chan time.Time { return time.After(150 * time.Millisecond) }

var (
	verifVec      []uint64
	verifPos      int
	verifFails    []string
	verifObs      []string
	verifReachedL []string
	verifTierVal  int
)

type verifAssumeFailed struct{}
type verifHalted struct{}

func verifNext() uint64 {
	var v uint64
	if verifPos < len(verifVec) {
		v = verifVec[verifPos]
	}
	verifPos++
	return v
}

func verifU8() uint8   { return uint8(verifNext()) }
func verifU16() uint16 { return uint16(verifNext()) }
func verifU32() uint32 { return uint32(verifNext()) }
func verifU64() uint64 { return verifNext() }
func verifI64() int64  { return int64(verifNext()) }
func verifBool() bool  { return verifNext()&1 == 1 }

// verifInt: arbitrary int in [lo, hi] (an assumption, part of the stated bound).
func verifInt(lo, hi int) int {
	v := int(verifNext())
	if v < lo || v > hi {
		panic(verifAssumeFailed{})
	}
	return v
}

// verifChoice: case split over 0..n-1 (the engine forks; the value is concrete
// on each path).
func verifChoice(n int) int {
	if n <= 0 {
		verifNext()
		return 0
	}
	return int(verifNext() % uint64(n))
}

func verifBytes(n int) []byte {
	b := make([]byte, n)
	for i := range b {
		b[i] = verifU8()
	}
	return b
}

func verifString(n int) string { return string(verifBytes(n)) }

func verifAssume(c bool) {
	if !c {
		panic(verifAssumeFailed{})
	}
}

func verifAssert(c bool, label string) {
	if !c {
		verifFails = append(verifFails, label)
	}
}

// verifAssertKnown: like verifAssert; when knownID is listed as an open finding
// in /verif/known_findings.json, failures inside `region` are reported as
// KNOWN-FINDING and only failures outside it are violations.
func verifAssertKnown(c bool, label, knownID string, region bool) {
	if !c {
		if region && verifKnownIDs[knownID] {
			return // a listed known finding, inside its region
		}
		verifFails = append(verifFails, label)
	}
}

// verifKnownIDs: ids of the open findings in /verif/known_findings.json (set by the runner).
var verifKnownIDs = map[string]bool{}

func verifReach(label string) { verifReachedL = append(verifReachedL, label) }

func verifObserve(name string, v uint64) { verifObs = append(verifObs, fmt.Sprintf("%s=%d", name, v)) }

func verifHalt() { panic(verifHalted{}) }

// Non-short-circuit connectives (a && b in Go is control flow and would fork).
func verifAnd(a, b bool) bool     { return a && b }
func verifOr(a, b bool) bool      { return a || b }
func verifNot(a bool) bool        { return !a }
func verifImplies(a, b bool) bool { return !a || b }
func verifIteU64(c bool, a, b uint64) uint64 {
	if c {
		return a
	}
	return b
}
func verifIteU32(c bool, a, b uint32) uint32 {
	if c {
		return a
	}
	return b
}
func verifIteInt(c bool, a, b int) int {
	if c {
		return a
	}
	return b
}
func verifIteBool(c bool, a, b bool) bool {
	if c {
		return a
	}
	return b
}

// verifConcrete: fork over the feasible values of x (bounded case split).
func verifConcrete(x int) int { return x }

// verifSymbolic reports whether the harness runs under the symbolic engine.
func verifSymbolic() bool { return false }

func verifStrEq(a, b string) bool { return a == b }
func verifBytesEq(a, b []byte) bool {
	return string(a) == string(b)
}

// verifTier: 0 = quick, 1 = thorough (a configuration constant, not an input).
func verifTier() int { return verifTierVal }

// verifRunGoroutines: let spawned goroutines take their turns (engine: queued
// goroutines run until they block; native: a short sleep).
func verifRunGoroutines() { time.Sleep(25 * time.Millisecond) }

func verifB2U(b bool) uint64 {
	return verifIteU64(b, 1, 0)
}

// verifTimerTicks(k): under the engine the next k receives from a time.Timer
// channel are ready; natively real timers run.
func verifTimerTicks(k int) {}

// verifRunUntilBlocked runs f until it blocks (engine) / in a goroutine for a
// short while (native).
func verifRunUntilBlocked(f func()) {
	done := make(chan struct{})
	go func() { defer close(done); f() }()
	select {
	case <-done:
	case <-verifAfter():
	}
}

// verifFireAfterFuncs fires the armed time.AfterFunc callbacks and returns how
// many there were (engine); natively it waits long enough for the short
// timers the harnesses configure (<= 400 ms) to fire and returns -1.
func verifFireAfterFuncs() int { time.Sleep(650 * time.Millisecond); return -1 }

// verifSettle: let goroutines spawned by the call under test finish (native);
// under the engine such goroutines run synchronously (stated per harness).
func verifSettle() { time.Sleep(30 * time.Millisecond) }

// verifDecimal: a number in [0, max] given by minDigits..maxDigits decimal digits (no
// leading zero). Under the engine %d prints exactly these digits.
func verifDecimal(minDigits, maxDigits int, max uint64) uint64 {
	n := minDigits + verifChoice(maxDigits-minDigits+1)
	var v uint64
	for i := 0; i < n; i++ {
		d := verifU8()
		if d > 9 || (i == 0 && n > 1 && d == 0) {
			panic(verifAssumeFailed{})
		}
		v = v*10 + uint64(d)
	}
	if v > max {
		panic(verifAssumeFailed{})
	}
	return v
}

func verifYieldNative() { time.Sleep(time.Microsecond) }

// verifYield: a scheduling point inside harness callbacks (natively: a tiny sleep).
func verifYield() { verifYieldNative() }

// verifQuiesce: under schedule exploration the caller waits until no other
// goroutine can run and gets the number of goroutines that have not ended
// (the goroutine census); natively goroutines get a moment to wind down and
// the census is not taken (0).
func verifQuiesce() int { time.Sleep(30 * time.Millisecond); return 0 }

// verifStepBegin marks the end of the pre-state construction (the engine's
// state-field audit starts counting here); no effect natively.
func verifStepBegin() {}

// verifAdvanceClock: time passes between two harness steps. Engine: the
// symbolic clock jumps by d; natively the harness really waits (keep d small).
func verifAdvanceClock(d time.Duration) { time.Sleep(d) }

// verifLetOthersRun: the caller waits until no other goroutine can run any more
// (engine); natively a short sleep.
func verifLetOthersRun() { time.Sleep(30 * time.Millisecond) }

// verifKnownDeadlock: from here on a deadlock of the explored path is the listed
// known finding id (engine); natively nothing.
func verifKnownDeadlock(id string) {}
