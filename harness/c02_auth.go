package ice

// C02 — unauthenticated or mismatched STUN never influences the agent.

import (
	"github.com/pion/stun/v3"
)

func init() {
	verifRegister("verifC02Inbound", verifC02Inbound)
	verifRegister("verifC02AfterRestart", verifC02AfterRestart)
}

var verifAllClasses = []stun.MessageClass{stun.ClassRequest, stun.ClassIndication, stun.ClassSuccessResponse, stun.ClassErrorResponse}

func verifC02Inbound() {
	// quick: 1 local + 1 remote; thorough: 2 locals + 1 remote, lite agents included
	s := verifInboundStep(verifStepCfg{nLocal: 1 + verifTier(), nRemote: 1, lite: verifTier(), classes: verifAllClasses})
	w := s.w
	unchanged := verifNothingChanged(s.before, s.after)
	binding := s.isBinding()

	// (1) anything that is not Binding request/indication/success changes nothing
	if !binding || s.class == stun.ClassErrorResponse {
		verifReach("not-handled")
		verifAssert(unchanged, "non-binding-or-error-response=>nothing-changes")
		return
	}

	switch s.class {
	case stun.ClassRequest:
		auth := verifAnd(s.usernameOK(), s.keyKind == 1)
		if !auth { // forks on the symbolic username
			verifReach("request-unauthenticated")
			verifAssert(unchanged, "request-with-wrong-username-or-integrity=>nothing-changes")
			return
		}
		verifReach("request-authenticated")
		verifAssert(s.after.sent > s.before.sent, "authenticated-request-is-answered")

	case stun.ClassSuccessResponse:
		if s.keyKind != 2 {
			verifReach("response-bad-integrity")
			verifAssert(unchanged, "response-not-signed-with-remote-password=>nothing-changes")
			return
		}
		known, isKnown := s.knownRemote()
		if !isKnown {
			verifReach("response-unknown-source")
			verifAssert(unchanged, "signed-response-from-unknown-source=>nothing-changes")
			return
		}
		verifReach("response-authenticated")
		pairsSame := verifPairsUnchanged(s.before, s.after)
		selSame := s.before.selected == s.after.selected
		if !verifAnd(pairsSame, selSame) {
			verifReach("response-changed-pair-state")
			ok, _ := s.matchingPending()
			verifAssert(ok, "pair-state-changes-only-for-an-outstanding-same-transport-same-address-transaction")
			// only the pair (receiving local, that remote) may change
			local := w.locals[s.localIdx]
			for i, ps := range s.before.pairs {
				if ps.p.Local == Candidate(local) && ps.p.Remote == known {
					continue
				}
				verifAssert(verifPairSnapEq(ps, s.after.pairs[i]), "other-pairs-untouched-by-a-response")
			}
		}
		verifAssert(s.after.sent == s.before.sent, "a-response-is-never-answered")
		verifAssert(s.after.nRemotes == s.before.nRemotes, "a-response-adds-no-candidate")

	case stun.ClassIndication:
		verifReach("indication")
		verifAssert(verifPairsUnchanged(s.before, s.after), "indication=>no-pair-change")
		verifAssert(s.before.selected == s.after.selected && s.before.sent == s.after.sent && s.before.nRemotes == s.after.nRemotes &&
			s.before.nStates == s.after.nStates && s.before.nSelPairs == s.after.nSelPairs && s.before.nPending == s.after.nPending,
			"indication=>no-send-no-candidate-no-selection-no-callback")
		verifAssert(verifI64sEq(s.before.lastSent, s.after.lastSent), "indication=>last-sent-untouched")
		known, isKnown := s.knownRemote()
		if !isKnown {
			verifReach("indication-unknown-source")
			verifAssert(unchanged, "indication-from-unknown-source=>nothing-changes")
		} else {
			// only the known remote's last-received may be refreshed
			for i, c := range w.allCands() {
				if c == known {
					continue
				}
				verifAssert(s.before.lastRecv[i] == s.after.lastRecv[i], "indication-refreshes-only-the-known-remote")
			}
		}
	}
	verifReach("done")
}

// Messages that were valid under the credentials of a generation ended by
// Restart change nothing afterwards.
func verifC02AfterRestart() {
	controlling := verifChoice(2) == 1
	w := verifNewWorld(controlling, false, 1, 1)
	w.pairAll()
	a := w.a
	a.loop = verifLoop()
	id := verifTxID()
	// an outstanding transaction of the old generation
	a.pendingBindingRequests = append(a.pendingBindingRequests, bindingRequest{timestamp: verifNow(), transactionID: id,
		destination: w.remotes[0].addrPort(), networkType: NetworkTypeUDP4, isUseCandidate: true})
	oldLocal := w.locals[0]
	src := w.remotes[0].addrPort()

	err := a.Restart("newufrag", "newpasswordnewpassword12")
	verifAssert(err == nil, "restart-ok")
	verifAssert(len(a.checklist) == 0 && len(a.pendingBindingRequests) == 0 && a.getSelectedPair() == nil && w.remoteCount() == 0,
		"restart-clears-pairs-transactions-selection-remotes")

	// fresh generation: a new local candidate, remote credentials not yet set
	w.locals, w.conns = nil, nil
	nl := w.addLocal("10.0.0.9", 1009)
	_ = oldLocal
	var msg *stun.Message
	var e2 error
	kind := verifChoice(2)
	if kind == 0 {
		// request signed for the old generation
		msg = verifBindingRequest(verifTxID(), 0, 0, verifChoice(2) == 1, 7)
	} else {
		// response to the old transaction signed with the old remote password
		msg, e2 = stun.Build(stun.BindingSuccess, stun.NewTransactionIDSetter(id), stun.NewShortTermIntegrity(verifRemotePwd), stun.Fingerprint)
		verifAssert(e2 == nil, "build")
	}
	before := w.snap()
	a.handleInbound(msg, nl, src)
	after := w.snap()
	verifAssert(verifNothingChanged(before, after), "old-generation-message-after-restart=>nothing-changes")
	verifReach("done")
}
