package ice

// C02 — unauthenticated or mismatched STUN never influences the agent.

import (
	"github.com/pion/stun/v3"
)

func init() {
	verifRegister("verifC02Inbound", verifC02Inbound)
	verifRegister("verifC02AfterRestart", verifC02AfterRestart)
	verifRegister("verifC02TrailingAttributes", verifC02TrailingAttributes)
}

var verifAllClasses = []stun.MessageClass{stun.ClassRequest, stun.ClassIndication, stun.ClassSuccessResponse, stun.ClassErrorResponse}

func verifC02Inbound() {
	// quick: 1 local + 1 remote; thorough: 2 locals + 1 remote, lite agents included
	s := verifInboundStep(verifStepCfg{nLocal: 1 + verifTier(), nRemote: 1, lite: verifTier(), classes: verifAllClasses})
	w := s.w
	unchanged := verifNothingChanged(s.before, s.after)
	binding := s.isBinding()

	// (1) anything that is not Binding request/indication/success changes nothing
	if !binding || s.class == stun.ClassErrorResponse {
		verifReach("not-handled")
		verifAssert(unchanged, "non-binding-or-error-response=>nothing-changes")
		return
	}

	switch s.class {
	case stun.ClassRequest:
		auth := verifAnd(s.usernameOK(), s.keyKind == 1)
		if !auth { // forks on the symbolic username
			verifReach("request-unauthenticated")
			verifAssert(unchanged, "request-with-wrong-username-or-integrity=>nothing-changes")
			return
		}
		verifReach("request-authenticated")
		verifAssert(s.after.sent > s.before.sent, "authenticated-request-is-answered")

	case stun.ClassSuccessResponse:
		if s.keyKind != 2 {
			verifReach("response-bad-integrity")
			verifAssert(unchanged, "response-not-signed-with-remote-password=>nothing-changes")
			return
		}
		known, isKnown := s.knownRemote()
		if !isKnown {
			verifReach("response-unknown-source")
			verifAssert(unchanged, "signed-response-from-unknown-source=>nothing-changes")
			return
		}
		verifReach("response-authenticated")
		pairsSame := verifPairsUnchanged(s.before, s.after)
		selSame := s.before.selected == s.after.selected
		if !verifAnd(pairsSame, selSame) {
			verifReach("response-changed-pair-state")
			ok, _ := s.matchingPending()
			verifAssert(ok, "pair-state-changes-only-for-an-outstanding-same-transport-same-address-transaction")
			// only the pair (receiving local, that remote) may change
			local := w.locals[s.localIdx]
			for i, ps := range s.before.pairs {
				if ps.p.Local == Candidate(local) && ps.p.Remote == known {
					continue
				}
				verifAssert(verifPairSnapEq(ps, s.after.pairs[i]), "other-pairs-untouched-by-a-response")
			}
		}
		verifAssert(s.after.sent == s.before.sent, "a-response-is-never-answered")
		verifAssert(s.after.nRemotes == s.before.nRemotes, "a-response-adds-no-candidate")

	case stun.ClassIndication:
		verifReach("indication")
		verifAssert(verifPairsUnchanged(s.before, s.after), "indication=>no-pair-change")
		verifAssert(s.before.selected == s.after.selected && s.before.sent == s.after.sent && s.before.nRemotes == s.after.nRemotes &&
			s.before.nStates == s.after.nStates && s.before.nSelPairs == s.after.nSelPairs && s.before.nPending == s.after.nPending,
			"indication=>no-send-no-candidate-no-selection-no-callback")
		verifAssert(verifI64sEq(s.before.lastSent, s.after.lastSent), "indication=>last-sent-untouched")
		known, isKnown := s.knownRemote()
		if !isKnown {
			verifReach("indication-unknown-source")
			verifAssert(unchanged, "indication-from-unknown-source=>nothing-changes")
		} else {
			// only the known remote's last-received may be refreshed
			for i, c := range w.allCands() {
				if c == known {
					continue
				}
				verifAssert(s.before.lastRecv[i] == s.after.lastRecv[i], "indication-refreshes-only-the-known-remote")
			}
		}
	}
	verifReach("done")
}

// Messages that were valid under the credentials of a generation ended by
// Restart change nothing afterwards.
func verifC02AfterRestart() {
	controlling := verifChoice(2) == 1
	w := verifNewWorld(controlling, false, 1, 1)
	w.pairAll()
	a := w.a
	a.loop = verifLoop()
	id := verifTxID()
	// an outstanding transaction of the old generation
	a.pendingBindingRequests = append(a.pendingBindingRequests, bindingRequest{timestamp: verifNow(), transactionID: id,
		destination: w.remotes[0].addrPort(), networkType: NetworkTypeUDP4, isUseCandidate: true})
	oldLocal := w.locals[0]
	src := w.remotes[0].addrPort()

	err := a.Restart("newufrag", "newpasswordnewpassword12")
	verifAssert(err == nil, "restart-ok")
	verifAssert(len(a.checklist) == 0 && len(a.pendingBindingRequests) == 0 && a.getSelectedPair() == nil && w.remoteCount() == 0,
		"restart-clears-pairs-transactions-selection-remotes")

	// fresh generation: a new local candidate, remote credentials not yet set
	w.locals, w.conns = nil, nil
	nl := w.addLocal("10.0.0.9", 1009)
	_ = oldLocal
	var msg *stun.Message
	var e2 error
	kind := verifChoice(2)
	if kind == 0 {
		// request signed for the old generation
		msg = verifBindingRequest(verifTxID(), 0, 0, verifChoice(2) == 1, 7)
	} else {
		// response to the old transaction signed with the old remote password
		msg, e2 = stun.Build(stun.BindingSuccess, stun.NewTransactionIDSetter(id), stun.NewShortTermIntegrity(verifRemotePwd), stun.Fingerprint)
		verifAssert(e2 == nil, "build")
	}
	before := w.snap()
	a.handleInbound(msg, nl, src)
	after := w.snap()
	verifAssert(verifNothingChanged(before, after), "old-generation-message-after-restart=>nothing-changes")
	verifReach("done")
}

// Attributes that FOLLOW MESSAGE-INTEGRITY are not covered by it (RFC 5389
// §15.4: they MUST be ignored, FINGERPRINT excepted): anybody on the path can
// append them to a genuine, correctly signed request. Whatever is appended —
// USE-CANDIDATE, a nomination value, a role attribute — the request is handled
// exactly like the plain check it authentically is: no nomination, no
// selection, no change of the stored nomination value, no role switch.
func verifC02TrailingAttributes() {
	s := verifInboundStep(verifStepCfg{nLocal: 1, nRemote: 1, onlyAuth: true, trailing: true, renomination: true, smallPrio: true, maxPend: 1,
		classes: []stun.MessageClass{stun.ClassRequest}})
	appended := s.useCand || s.nomKind != 0 || s.ctrl != 0
	if !appended {
		verifReach("nothing-appended")
	} else {
		verifReach("appended")
	}
	const kf = "C02-attributes-after-integrity-honoured"
	verifAssertKnown(s.after.controlling == s.before.controlling, "a-role-attribute-behind-MESSAGE-INTEGRITY-switches-no-role", kf, appended)
	verifAssertKnown(s.after.selected == s.before.selected, "USE-CANDIDATE-or-a-nomination-value-behind-MESSAGE-INTEGRITY-selects-nothing", kf, appended)
	verifAssertKnown(s.after.lastNom == s.before.lastNom || (s.after.lastNom != nil && s.before.lastNom != nil && *s.after.lastNom == *s.before.lastNom), "the-stored-nomination-value-is-untouched", kf, appended)
	for i, ps := range s.before.pairs {
		if i < len(s.after.pairs) {
			q := s.after.pairs[i]
			verifAssertKnown(verifAnd(q.nominated == ps.nominated, verifAnd(q.nomOnSucc == ps.nomOnSucc, q.renomOnSucc == ps.renomOnSucc)), "no-nomination-is-recorded-on-any-pair", kf, appended)
		}
	}
	// the genuine part is still honoured: the check is answered
	n := 0
	for _, m := range s.newDatagrams() {
		if m != nil && m.Type.Class == stun.ClassSuccessResponse && m.TransactionID == s.id {
			n++
		}
	}
	verifAssertKnown(n == 1, "the-authentic-check-is-answered", kf, appended)
	verifReach("done")
}
