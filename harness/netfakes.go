package ice

// Fake transport.Net and UDP sockets shared by the gathering, socket, close,
// notifier and mux harnesses.

import (
	"errors"
	"net"
	"syscall"

	"github.com/pion/transport/v4"
)

// ---- fake transport.Net ----

type verifUDPConn struct {
	verifPacketConn
	port int
}

func (c *verifUDPConn) RemoteAddr() net.Addr                          { return nil }
func (c *verifUDPConn) SetReadBuffer(int) error                       { return nil }
func (c *verifUDPConn) SetWriteBuffer(int) error                      { return nil }
func (c *verifUDPConn) Read([]byte) (int, error)                      { return 0, errVerifWrite }
func (c *verifUDPConn) ReadFromUDP([]byte) (int, *net.UDPAddr, error) { return 0, nil, errVerifWrite }
func (c *verifUDPConn) ReadMsgUDP(b, o []byte) (int, int, int, *net.UDPAddr, error) {
	return 0, 0, 0, nil, errVerifWrite
}
func (c *verifUDPConn) Write([]byte) (int, error)                    { return 0, errVerifWrite }
func (c *verifUDPConn) WriteToUDP([]byte, *net.UDPAddr) (int, error) { return 0, errVerifWrite }
func (c *verifUDPConn) WriteMsgUDP(b, o []byte, a *net.UDPAddr) (int, int, error) {
	return 0, 0, errVerifWrite
}

type verifNet struct {
	ifaces   []*transport.Interface
	ifErr    bool
	outcome  func(port int) int // 0 ok, 1 busy, 2 address unavailable
	listened []int
	conns    []*verifUDPConn
	nextEph  int
	busyIP   string // every port of this local address is taken
}

var errVerifBusy = errors.New("verif: port busy")

func (n *verifNet) Interfaces() ([]*transport.Interface, error) {
	if n.ifErr {
		return nil, errVerifWrite
	}
	return n.ifaces, nil
}
func (n *verifNet) ListenUDP(network string, a *net.UDPAddr) (transport.UDPConn, error) {
	port := a.Port
	n.listened = append(n.listened, port)
	if n.busyIP != "" && a.IP.String() == n.busyIP {
		return nil, errVerifBusy
	}
	if n.outcome != nil {
		switch n.outcome(port) {
		case 1:
			return nil, errVerifBusy
		case 2:
			return nil, syscall.EADDRNOTAVAIL
		}
	}
	if port == 0 {
		n.nextEph++
		port = 40000 + n.nextEph
	}
	c := &verifUDPConn{port: port}
	c.local = &net.UDPAddr{IP: a.IP, Port: port, Zone: a.Zone}
	n.conns = append(n.conns, c)
	return c, nil
}
func (n *verifNet) ListenPacket(string, string) (net.PacketConn, error) {
	return nil, transport.ErrNotSupported
}
func (n *verifNet) ListenTCP(string, *net.TCPAddr) (transport.TCPListener, error) {
	return nil, transport.ErrNotSupported
}
func (n *verifNet) Dial(string, string) (net.Conn, error) { return nil, transport.ErrNotSupported }
func (n *verifNet) DialUDP(string, *net.UDPAddr, *net.UDPAddr) (transport.UDPConn, error) {
	return nil, transport.ErrNotSupported
}
func (n *verifNet) DialTCP(string, *net.TCPAddr, *net.TCPAddr) (transport.TCPConn, error) {
	return nil, transport.ErrNotSupported
}
func (n *verifNet) ResolveIPAddr(string, string) (*net.IPAddr, error) {
	return nil, transport.ErrNotSupported
}
func (n *verifNet) ResolveUDPAddr(string, string) (*net.UDPAddr, error) {
	return nil, transport.ErrNotSupported
}
func (n *verifNet) ResolveTCPAddr(string, string) (*net.TCPAddr, error) {
	return nil, transport.ErrNotSupported
}
func (n *verifNet) InterfaceByIndex(int) (*transport.Interface, error) {
	return nil, transport.ErrInterfaceNotFound
}
func (n *verifNet) InterfaceByName(string) (*transport.Interface, error) {
	return nil, transport.ErrInterfaceNotFound
}
func (n *verifNet) CreateDialer(*net.Dialer) transport.Dialer                   { return nil }
func (n *verifNet) CreateListenConfig(*net.ListenConfig) transport.ListenConfig { return nil }
