package ice

// C04 — connection-state lifecycle and liveness timing.

import (
	"context"
	"github.com/pion/stun/v3"
	"net"
	"time"
)

func init() {
	verifRegister("verifC04TimingFn", verifC04TimingFn)
	verifRegister("verifC04Validate", verifC04Validate)
	verifRegister("verifC04InitialDeadline", verifC04InitialDeadline)
	verifRegister("verifC04DeadlineRearm", verifC04DeadlineRearm)
	verifRegister("verifC04FailedIsTerminal", verifC04FailedIsTerminal)
	verifRegister("verifC04ConfigTimeouts", verifC04ConfigTimeouts)
	verifRegister("verifC04Tick", verifC04Tick)
	verifRegister("verifC04Update", verifC04Update)
	verifRegister("verifC04Restart", verifC04Restart)
}

const verifMaxDur = int64(1) << 62 // excludes int64 overflow of dt+ft (~146 years)

// oracle: the state the silence calls for, and what is reported given the
// current state (both thresholds passed at once => Disconnected first).
func verifOracleLiveness(dt, ft, silence time.Duration, cur ConnectionState) ConnectionState {
	failed := verifAnd(ft != 0, silence > dt+ft)
	disc := verifAnd(dt != 0, silence > dt)
	viaDisc := verifAnd(failed, verifAnd(disc, verifAnd(cur != ConnectionStateDisconnected, cur != ConnectionStateFailed)))
	r := ConnectionStateConnected
	r = ConnectionState(verifIteInt(disc, int(ConnectionStateDisconnected), int(r)))
	r = ConnectionState(verifIteInt(failed, int(ConnectionStateFailed), int(r)))
	r = ConnectionState(verifIteInt(viaDisc, int(ConnectionStateDisconnected), int(r)))
	return r
}

func verifDur() time.Duration {
	d := verifI64()
	verifAssume(verifAnd(d >= 0, d < verifMaxDur))
	return time.Duration(d)
}

// (a) the pure timing decision, for all durations.
func verifC04TimingFn() {
	dt, ft, silence := verifDur(), verifDur(), verifDur()
	cur := ConnectionState(verifInt(int(ConnectionStateNew), int(ConnectionStateClosed)))
	a := &Agent{disconnectedTimeout: dt, failedTimeout: ft, connectionState: cur}
	total := ft
	if ft != 0 {
		total += dt
	}
	got := a.connectionStateForDisconnection(silence, total)
	want := verifOracleLiveness(dt, ft, silence, cur)
	verifObserve("state", uint64(got))
	verifAssert(got == want, "state=f(silence,disconnected-timeout,failed-timeout)")
	verifAssert(verifImplies(dt == 0, got != ConnectionStateDisconnected), "zero-disables-disconnected")
	verifAssert(verifImplies(ft == 0, got != ConnectionStateFailed), "zero-disables-failed")
	verifAssert(verifImplies(verifAnd(got == ConnectionStateFailed, cur == ConnectionStateConnected), dt == 0), "connected->failed-directly-only-when-disconnected-timeout-disabled")
	verifReach("done")
}

func verifC04World(state ConnectionState, withSel bool) (*verifWorld, *CandidatePair) {
	w := verifNewWorld(verifChoice(2) == 1, false, 1, 1)
	w.pairAll()
	a := w.a
	a.connectionState = state
	a.loop = verifLoop()
	for _, p := range a.checklist {
		p.nominateOnBindingSuccess, p.renominateOnBindingSuccess = verifBool(), verifBool()
		p.bindingRequestCount = uint16(verifInt(0, 9))
	}
	var sp *CandidatePair
	if withSel {
		sp = a.checklist[0]
		sp.state, sp.nominated = CandidatePairStateSucceeded, true
		a.selectedPair.Store(sp)
	}
	return w, sp
}

// (a') validateSelectedPair wires the timeouts into the decision and the state.
func verifC04Validate() {
	cur := ConnectionStateConnected
	if verifChoice(2) == 1 {
		cur = ConnectionStateDisconnected
	}
	w, sp := verifC04World(cur, true)
	a := w.a
	a.disconnectedTimeout = time.Duration(verifInt(0, int(time.Hour)))
	a.failedTimeout = time.Duration(verifInt(0, int(time.Hour)))
	// a lite agent may carry the lite default instead of an explicit
	// disconnected timeout: the thresholds that count are the stored ones
	a.lite, a.disconnectedTimeoutExplicit = verifBool(), verifBool()
	verifAssume(verifImplies(a.lite, !a.isControlling.Load()))
	silence := time.Duration(verifInt(int(time.Millisecond), int(3*time.Hour)))
	verifBaseOf(sp.Remote).setLastReceived(verifNow().Add(-silence))
	verifAssume(verifBaseOf(sp.Remote).lastReceived.Load() != 0) // 0 is the 'never received' sentinel (an instant exactly at timeRef)
	before := w.snap()
	verifStepBegin()
	ok := a.validateSelectedPair()
	after := w.snap()
	verifAssert(ok, "selected-pair-present")
	// the handler reads the clock slightly later than the harness: exact only
	// outside a 100 ms band above each threshold
	dt, ft := a.disconnectedTimeout, a.failedTimeout
	margin := 100 * time.Millisecond
	nearDT := verifAnd(silence <= dt, silence+margin > dt)
	nearFT := verifAnd(silence <= dt+ft, silence+margin > dt+ft)
	want := verifOracleLiveness(dt, ft, silence, cur)
	verifAssert(verifOr(verifOr(nearDT, nearFT), after.state == want), "state-after-validation=f(silence)")
	verifAssert(verifImplies(after.state == before.state, after.nStates == before.nStates), "no-notification-without-change")
	verifAssert(verifImplies(after.state != before.state, after.nStates == before.nStates+1), "one-notification-per-change")
	if after.state == ConnectionStateFailed {
		verifReach("failed")
		verifAssert(len(a.checklist) == 0 && len(a.pairsByID) == 0 && len(a.pendingBindingRequests) == 0 && a.getSelectedPair() == nil &&
			after.nLocals == 0 && after.nRemotes == 0, "failed=>pairs,transactions,selection,candidates-released")
		verifAssert(before.state == ConnectionStateDisconnected || dt == 0, "failed-only-from-disconnected-unless-disabled")
	} else {
		verifAssert(after.selected == before.selected, "selection-kept")
	}
	verifReach("done")
}

// (a”) the initial checking deadline.
func verifC04InitialDeadline() {
	dt, ft := verifDur(), verifDur()
	lite, explicit := verifBool(), verifBool()
	a := &Agent{disconnectedTimeout: dt, failedTimeout: ft, lite: lite, disconnectedTimeoutExplicit: explicit}
	got := a.initialCheckingTimeout()
	base := time.Duration(verifIteU64(verifAnd(lite, !explicit), uint64(defaultDisconnectedTimeout), uint64(dt)))
	want := time.Duration(verifIteU64(ft == 0, 0, uint64(base+ft)))
	verifAssert(got == want, "initial-deadline=0-iff-failed-timeout-0,else-disconnected'+failed")
	verifReach("done")
}

func verifEdgeAllowed(from, to ConnectionState, dtZero bool) bool {
	if from == to {
		return true
	}
	switch from {
	case ConnectionStateNew:
		return to == ConnectionStateChecking || to == ConnectionStateClosed
	case ConnectionStateChecking:
		return to == ConnectionStateConnected || to == ConnectionStateFailed || to == ConnectionStateClosed
	case ConnectionStateConnected:
		return to == ConnectionStateDisconnected || to == ConnectionStateClosed || (to == ConnectionStateFailed && dtZero)
	case ConnectionStateDisconnected:
		return to == ConnectionStateConnected || to == ConnectionStateFailed || to == ConnectionStateClosed
	case ConnectionStateFailed:
		return to == ConnectionStateClosed
	}
	return false
}

// (b) check ticks issued through the real connectivityChecks loop.
func verifC04Tick() {
	states := []ConnectionState{ConnectionStateChecking, ConnectionStateConnected, ConnectionStateDisconnected, ConnectionStateFailed}
	cur := states[verifChoice(len(states))]
	withSel := cur == ConnectionStateConnected || cur == ConnectionStateDisconnected
	w, sp := verifC04World(cur, withSel)
	a := w.a
	if verifChoice(2) == 1 {
		a.disconnectedTimeout = 0
	}
	switch verifChoice(3) {
	case 0:
		a.failedTimeout = 0
	case 1:
		a.failedTimeout = time.Nanosecond // a deadline any later clock reading exceeds
		if a.disconnectedTimeout != 0 {
			a.disconnectedTimeout = time.Nanosecond
		}
	}
	if cur == ConnectionStateFailed {
		// Failed released everything
		a.checklist, a.pairsByID = []*CandidatePair{}, map[uint64]*CandidatePair{}
		a.deleteAllCandidates()
	}
	if sp != nil {
		silence := time.Duration(verifInt(int(time.Millisecond), int(time.Minute)))
		verifBaseOf(sp.Remote).setLastReceived(verifNow().Add(-silence))
		verifAssume(verifBaseOf(sp.Remote).lastReceived.Load() != 0)
	}
	nTicks := 1 + verifChoice(2)
	before := w.snap()
	dtZero := a.disconnectedTimeout == 0
	// the first tick is requested through the force channel, further ones by the timer
	a.requestConnectivityCheck()
	verifTimerTicks(nTicks - 1)
	verifRunUntilBlocked(a.connectivityChecks)
	after := w.snap()
	states2 := w.notifiedStates()

	prev := before.state
	for _, s := range states2 {
		verifAssert(s != prev, "no-consecutive-repeats-in-notifications")
		verifAssert(verifEdgeAllowed(prev, s, dtZero), "notified-transition-is-an-edge-of-the-lifecycle")
		prev = s
	}
	verifAssert(prev == after.state, "last-notification=current-state")
	if after.state == ConnectionStateConnected || after.state == ConnectionStateDisconnected {
		verifAssert(after.selected != nil, "connected/disconnected-only-with-a-selected-pair")
	}
	if before.state == ConnectionStateFailed {
		verifReach("failed-stays")
		verifAssert(verifNothingChanged(before, after), "while-failed-a-tick-does-nothing")
	}
	if before.state == ConnectionStateChecking && after.state == ConnectionStateFailed {
		verifReach("checking->failed")
		verifAssert(a.failedTimeout != 0, "checking->failed-only-with-a-deadline")
	}
	if after.state == ConnectionStateFailed && before.state != ConnectionStateFailed {
		verifReach("->failed")
		verifAssert(len(a.checklist) == 0 && a.getSelectedPair() == nil && after.nLocals == 0 && after.nRemotes == 0 && len(a.pendingBindingRequests) == 0,
			"failed=>everything-released")
	}
	if before.state == ConnectionStateChecking && a.failedTimeout == 0 {
		verifAssert(after.state == ConnectionStateChecking, "no-deadline=>stays-checking-without-a-selection")
	}
	verifReach("done")
}

// (c) updateConnectionState: one notification per change, carrying the new
// state; on Failed the notification is enqueued after the release.
func verifC04Update() {
	cur := ConnectionState(verifInt(int(ConnectionStateNew), int(ConnectionStateClosed)))
	next := ConnectionState(verifInt(int(ConnectionStateNew), int(ConnectionStateClosed)))
	w, _ := verifC04World(cur, verifChoice(2) == 1)
	a := w.a
	// the agent's mux is part of the environment and may be slow: natively its
	// RemoveConnByUfrag lets other goroutines (the notifier's drainer) run, so
	// a notification enqueued before the release is observed before it
	mux := &verifSlowMux{}
	a.udpMux = mux
	releasedAtNotify := true
	a.connectionStateNotifier.connectionStateFunc = func(s ConnectionState) {
		w.states = append(w.states, s)
		verifReach("handler-ran")
		if s == ConnectionStateFailed {
			releasedAtNotify = len(a.checklist) == 0 && len(a.pairsByID) == 0 && len(a.pendingBindingRequests) == 0 &&
				a.getSelectedPair() == nil && len(a.localCandidates) == 0 && len(a.remoteCandidates) == 0
		}
	}
	n0 := len(w.notifiedStates())
	verifStepBegin()
	a.updateConnectionState(next)
	got := w.notifiedStates()
	if cur == next {
		verifAssert(len(got) == n0, "same-state=>no-notification")
	} else {
		verifReach("changed")
		verifAssert(len(got) == n0+1 && got[len(got)-1] == next, "exactly-one-notification-carrying-the-new-state")
		verifAssert(a.connectionState == next, "state-updated")
	}
	verifAssert(releasedAtNotify, "failed-notified-only-after-release")
	if cur != next && next == ConnectionStateFailed {
		verifAssert(mux.removed == 1, "failed=>ufrag-removed-from-the-mux")
	}
	verifReach("done")
}

// Restart: Connected|Disconnected|Failed -> Checking, New stays New; nothing else.
func verifC04Restart() {
	states := []ConnectionState{ConnectionStateNew, ConnectionStateChecking, ConnectionStateConnected, ConnectionStateDisconnected, ConnectionStateFailed}
	cur := states[verifChoice(len(states))]
	w, _ := verifC04World(cur, cur == ConnectionStateConnected || cur == ConnectionStateDisconnected)
	a := w.a
	err := a.Restart("freshufrag", "freshpasswordfreshpasswd")
	verifAssert(err == nil, "restart-ok")
	if cur == ConnectionStateNew {
		verifAssert(a.connectionState == ConnectionStateNew, "new-stays-new")
	} else {
		verifAssert(a.connectionState == ConnectionStateChecking, "restart=>checking")
	}
	verifAssert(a.getSelectedPair() == nil && len(a.checklist) == 0, "restart-clears-selection-and-pairs")
	st := w.notifiedStates()
	if cur == ConnectionStateNew || cur == ConnectionStateChecking {
		verifAssert(len(st) == 0, "no-notification-when-state-unchanged")
	} else {
		verifAssert(len(st) == 1 && st[0] == ConnectionStateChecking, "one-checking-notification")
	}
	verifReach("done")
}

// verifSlowMux: a UDPMux whose RemoveConnByUfrag takes its time.
type verifSlowMux struct{ removed int }

func (m *verifSlowMux) Close() error { return nil }
func (m *verifSlowMux) GetConn(string, net.Addr) (net.PacketConn, error) {
	return nil, errVerifWrite
}
func (m *verifSlowMux) RemoveConnByUfrag(string)       { m.removed++; verifSettle() }
func (m *verifSlowMux) GetListenAddresses() []net.Addr { return nil }

// (b') the initial checking deadline counts from the moment Checking was
// entered — and again from the Restart that re-enters it: fail on the deadline,
// restart, and the next ticks must leave the agent Checking until a full
// deadline has elapsed once more.
func verifC04DeadlineRearm() {
	w, _ := verifC04World(ConnectionStateChecking, false)
	a := w.a
	a.disconnectedTimeout, a.failedTimeout = 100*time.Millisecond, 100*time.Millisecond // deadline: 200 ms
	a.checkInterval = time.Hour                                                         // ticks come from the harness only
	go a.connectivityChecks()
	tick := func() ConnectionState {
		a.requestConnectivityCheck()
		verifRunGoroutines()
		var st ConnectionState
		verifAssert(a.loop.Run(a.loop, func(context.Context) { st = a.connectionState }) == nil, "loop-open")
		return st
	}
	verifAssert(tick() == ConnectionStateChecking, "first-tick:still-checking")
	verifAdvanceClock(300 * time.Millisecond)
	verifAssert(tick() == ConnectionStateFailed, "no-pair-within-the-deadline=>failed")
	verifReach("failed-on-deadline")
	verifAssert(a.Restart("freshufrag", "freshpasswordfreshpasswd") == nil, "restart-ok")
	verifAssert(tick() == ConnectionStateChecking, "Restart-re-enters-Checking-and-re-arms-the-deadline")
	verifAdvanceClock(120 * time.Millisecond)
	verifAssert(tick() == ConnectionStateChecking, "within-the-new-deadline:still-checking")
	verifAdvanceClock(150 * time.Millisecond)
	verifAssert(tick() == ConnectionStateFailed, "the-new-deadline-elapsed=>failed-again")
	a.loop.Close()
	verifRunGoroutines()
	verifReach("done")
}

// (d) Failed is left only through Restart (or Close): a gathering cycle that
// is still running when the agent fails delivers its candidate late, the peer
// trickles a candidate and nominates the resulting pair — the failed agent must
// stay Failed (no Connected without Restart) and hold no candidate of the
// failed generation.
func verifC04FailedIsTerminal() {
	w, _ := verifC04World(ConnectionStateChecking, false)
	a := w.a
	a.isControlling.Store(false)
	a.setSelector()
	gctx, gcancel := context.WithCancel(context.Background())
	a.gatherCandidateCancel = gcancel // a gathering cycle is in progress
	a.updateConnectionState(ConnectionStateFailed)
	verifAssert(a.connectionState == ConnectionStateFailed && len(a.localCandidates) == 0, "failed:everything-released")
	// 1. the cycle finishes late and hands its host candidate over
	late, err := NewCandidateHost(&CandidateHostConfig{Network: udp, Address: "10.0.0.9", Port: 1009, Component: ComponentRTP})
	verifAssert(err == nil, "constructor")
	conn := &verifPacketConn{local: &net.UDPAddr{IP: net.ParseIP("10.0.0.9"), Port: 1009}}
	addErr := a.addCandidate(gctx, late, conn)
	nLocal := 0
	for _, cs := range a.localCandidates {
		nLocal += len(cs)
	}
	verifAssertKnown(addErr != nil && nLocal == 0, "a-failed-agent-takes-no-candidate-from-the-cycle-that-was-running-when-it-failed", "C04-failed-agent-keeps-gathering", true)
	if nLocal == 0 {
		verifReach("late-candidate-refused")
		verifReach("done")
		return
	}
	// 2. (only reachable while the finding is open) the peer trickles a candidate and nominates the pair
	remote, err := NewCandidateHost(&CandidateHostConfig{Network: udp, Address: "20.0.0.9", Port: 2009, Component: ComponentRTP})
	verifAssert(err == nil, "constructor")
	a.addRemoteCandidate(remote)
	req, err := stun.Build(stun.BindingRequest, stun.NewTransactionIDSetter(verifTxID()), stun.NewUsername(verifExpectedUsername), UseCandidate(),
		AttrControlling(1), PriorityAttr(5), stun.NewShortTermIntegrity(verifLocalPwd), stun.Fingerprint)
	verifAssert(err == nil, "build")
	a.handleInbound(req, late, remote.addrPort())
	var check *stun.Message
	for i := range conn.sent {
		if m := verifParseSent(conn, i); m != nil && m.Type.Class == stun.ClassRequest {
			check = m
		}
	}
	if check != nil {
		resp, err := stun.Build(stun.BindingSuccess, stun.NewTransactionIDSetter(check.TransactionID), stun.NewShortTermIntegrity(verifRemotePwd), stun.Fingerprint)
		verifAssert(err == nil, "build")
		a.handleInbound(resp, late, remote.addrPort())
	}
	verifAssertKnown(a.connectionState == ConnectionStateFailed, "Failed-is-left-only-through-Restart", "C04-failed-agent-keeps-gathering", true)
	verifReach("done")
}

// (a”') from the configuration to the thresholds the liveness decision uses:
// an absent timeout means the default (the lite default for lite agents), an
// explicit value — zero included, which disables the transition — is taken as
// given, for full and lite agents alike.
func verifC04ConfigTimeouts() {
	lite := verifBool()
	cfg := &AgentConfig{Lite: lite}
	dtKind, ftKind := verifChoice(3), verifChoice(3)
	dt := time.Duration(verifInt(1, int(time.Hour)))
	ft := time.Duration(verifInt(1, int(time.Hour)))
	zero := time.Duration(0)
	switch dtKind {
	case 1:
		cfg.DisconnectedTimeout = &zero
	case 2:
		cfg.DisconnectedTimeout = &dt
	}
	switch ftKind {
	case 1:
		cfg.FailedTimeout = &zero
	case 2:
		cfg.FailedTimeout = &ft
	}
	a := &Agent{lite: lite}
	cfg.initWithDefaults(a)
	a.applyICELiteDisconnectedTimeoutDefault()
	wantDT := time.Duration(verifIteU64(lite, uint64(defaultLiteDisconnectedTimeout), uint64(defaultDisconnectedTimeout)))
	switch dtKind {
	case 1:
		wantDT = 0
		verifReach("disconnected-disabled")
	case 2:
		wantDT = dt
	}
	wantFT := defaultFailedTimeout
	switch ftKind {
	case 1:
		wantFT = 0
	case 2:
		wantFT = ft
	}
	verifAssert(a.disconnectedTimeout == wantDT, "disconnected-timeout=configured-value(zero-disables,also-for-lite)-or-the-default")
	verifAssert(a.failedTimeout == wantFT, "failed-timeout=configured-value-or-the-default")
	// and the decision function sees exactly these thresholds
	silence := time.Duration(verifInt(0, int(3*time.Hour)))
	cur := ConnectionStateConnected
	total := time.Duration(verifIteU64(a.failedTimeout == 0, 0, uint64(a.disconnectedTimeout+a.failedTimeout)))
	a.connectionState = cur
	got := a.connectionStateForDisconnection(silence, total)
	verifAssert(got == verifOracleLiveness(wantDT, wantFT, silence, cur), "state=f(silence,configured-thresholds)")
	verifReach("done")
}
