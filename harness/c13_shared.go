package ice

import (
	"context"
	"errors"
	"github.com/pion/stun/v3"
	"io"
	"net"
	"os"
	"runtime"
	"sync"
	"sync/atomic"
	"time"
)

// C13(a) — reference counting of handles handed out for one ufrag.
func init() {
	verifRegister("verifC13AbortInterleaved", verifC13AbortInterleaved)
	verifRegister("verifC13AbortInterleavedAP", verifC13AbortInterleavedAP)
	verifRegister("verifC13PendingRead", verifC13PendingRead)
	verifRegister("verifC13TwoPendingReads", verifC13TwoPendingReads)
	verifRegister("verifC13TCPSiblingWrite", verifC13TCPSiblingWrite)
	verifRegister("verifC13GetAfterLastClose", verifC13GetAfterLastClose)
}

func verifC13Refcount() {
	m, sock := verifNewMux()
	if verifChoice(2) == 1 { // a socket with the AddrPort methods: handles of the AddrPort flavour
		m, sock = verifNewMuxAP()
		verifReach("addrport-handles")
	}
	verifRunGoroutines()
	n := 2 + verifChoice(2)
	var hs []net.PacketConn
	for i := 0; i < n; i++ {
		h, err := m.GetConn("u0", sock.local)
		verifAssert(err == nil, "GetConn-ok")
		hs = append(hs, h)
	}
	under := verifUnderlying(hs[0])
	for _, h := range hs {
		verifAssert(verifUnderlying(h) == under, "handles-share-one-underlying-connection")
	}
	closedH := make([]bool, n)
	open := n
	peer := verifMuxAddrs[0]
	nOps := 4 + verifTier()
	for op := 0; op < nOps; op++ {
		hi := verifChoice(n)
		switch verifChoice(3) {
		case 0: // Close (possibly repeated)
			verifAssert(hs[hi].Close() == nil, "close-returns-nil")
			if !closedH[hi] {
				closedH[hi] = true
				open--
			}
			verifRunGoroutines()
			verifAssert(under.closed == (open == 0), "underlying-closed-exactly-when-the-last-handle-closed")
		case 1: // write
			n0 := len(sock.sent)
			_, err := verifHandleWrite(hs[hi], []byte{1, 2}, peer)
			if closedH[hi] {
				verifReach("write-on-closed-handle")
				verifAssert(err == io.ErrClosedPipe && len(sock.sent) == n0, "closed-handle's-writes-fail")
			} else {
				verifReach("sibling-write")
				verifAssert(err == nil && len(sock.sent) == n0+1, "open-handle-still-writes")
			}
		case 2: // read with a packet queued
			if open == 0 {
				continue
			}
			verifAssert(under.writePacket([]byte{9}, peer.AddrPort(), peer) == nil, "queue-packet")
			buf := make([]byte, 4)
			nr, err := verifHandleRead(hs[hi], buf)
			if closedH[hi] {
				verifReach("read-on-closed-handle")
				verifAssert(err == io.ErrClosedPipe && nr == 0, "closed-handle's-reads-fail")
				// drain through an open sibling so the queue stays bounded
				for j := range hs {
					if !closedH[j] {
						_, e2 := verifHandleRead(hs[j], buf)
						verifAssert(e2 == nil, "sibling-reads-the-packet")
						break
					}
				}
			} else {
				verifReach("sibling-read")
				verifAssert(err == nil && nr == 1 && buf[0] == 9, "open-handle-still-reads")
			}
		}
	}
	verifAssert(under.refs.Load() == int32(open), "refcount=open-handles")
	verifReach("done")
}

// C13(b) — the write-abort protocol at method granularity: abort with no writer
// in flight is a no-op; an armed deadline is cleared by the last finishing
// writer and the state word returns to 0; a failed arming clears the flags;
// the in-flight count never underflows; a write that starts while an abort is
// pending does not enter.
func verifC13AbortProtocol() {
	m, sock := verifNewMux()
	sock.failSetDL = verifChoice(2) == 1
	inFlight := 0
	aborted := false
	nOps := 4 + 2*verifTier()
	for op := 0; op < nOps; op++ {
		switch verifChoice(3) {
		case 0: // a writer enters
			entered := false
			ctx, cancel := context.WithCancel(context.Background())
			verifRunUntilBlocked(func() {
				if m.startWriteContext(ctx) == nil {
					entered = true
				}
			})
			cancel() // a writer that is still waiting gives up (natively the spin loop ends here)
			verifSettle()
			if aborted {
				verifReach("start-while-blocked")
				verifAssert(!entered, "a-write-starting-while-an-abort-is-pending-does-not-enter")
				if !entered {
					continue
				}
			}
			verifAssert(entered, "writer-enters")
			inFlight++
		case 1: // a writer leaves
			if inFlight == 0 {
				st := m.writeState.Load()
				verifAssert(m.finishWrite(nil) == nil && m.writeState.Load() == st, "finish-without-writer-is-a-no-op(no-underflow)")
				continue
			}
			nd := len(sock.deadlines)
			_ = m.finishWrite(nil)
			inFlight--
			if aborted && inFlight == 0 {
				verifReach("last-writer-after-abort")
				verifAssert(len(sock.deadlines) == nd+1 && sock.deadlines[nd].IsZero(), "last-writer-clears-the-write-deadline")
				verifAssert(m.writeState.Load() == 0, "state-word-back-to-zero")
				aborted = false
			} else {
				verifAssert(len(sock.deadlines) == nd, "deadline-untouched-while-writers-remain")
			}
		case 2: // abort
			nd := len(sock.deadlines)
			st := m.writeState.Load()
			err := m.abortWrite()
			switch {
			case inFlight == 0 || aborted:
				verifReach("abort-noop")
				verifAssert(err == nil && m.writeState.Load() == st && len(sock.deadlines) == nd, "abort-without-writer(or-already-pending)-touches-nothing")
			case sock.failSetDL:
				verifReach("arming-failed")
				verifAssert(err != nil, "arming-failure-is-reported")
				verifAssert(m.writeState.Load()&(udpMuxWriteBlockedBit|udpMuxWriteDeadlineBit) == 0, "failed-arming-clears-the-flags")
			default:
				verifReach("armed")
				verifAssert(err == nil && len(sock.deadlines) == nd+1 && !sock.deadlines[nd].IsZero(), "abort-arms-the-deadline-once")
				verifAssert(m.writeState.Load()&udpMuxWriteBlockedBit != 0 && m.writeState.Load()&udpMuxWriteDeadlineBit != 0, "blocked-and-deadline-flags-set")
				aborted = true
			}
		}
		verifAssert(m.writeState.Load()&udpMuxWriteCountMask == uint64(inFlight), "in-flight-count-exact")
	}
	// drain: once the in-flight writes have returned the socket is usable again
	for inFlight > 0 {
		_ = m.finishWrite(nil)
		inFlight--
	}
	verifAssert(m.writeState.Load() == 0, "after-all-writers-returned-the-state-word-is-0")
	if len(sock.deadlines) > 0 {
		verifAssert(sock.deadlines[len(sock.deadlines)-1].IsZero(), "the-last-deadline-set-on-the-socket-is-'none'")
	}
	entered := false
	verifRunUntilBlocked(func() { entered = m.startWriteContext(context.Background()) == nil })
	verifSettle()
	verifAssert(entered, "later-writes-by-any-user-enter")
	verifReach("done")
}

// C13(b') — the write-abort protocol under interleavings: a context-bound
// write blocked in the socket, a concurrent plain write by another user and the
// cancellation of the first one's context, explored over schedules. Whatever
// the interleaving: everybody returns, the state word is back to 0, the last
// deadline set on the shared socket is "none", and later writes succeed.
func verifC13AbortInterleaved() { verifC13AbortInterleavedBody(false) }

// the sibling writes through the AddrPort path of an AddrPort-capable socket
func verifC13AbortInterleavedAP() { verifC13AbortInterleavedBody(true) }

func verifC13AbortInterleavedBody(apSibling bool) {
	m, sock := verifNewMux()
	if apSibling {
		m, sock = verifNewMuxAP()
		verifReach("addrport-sibling")
	}
	sock.blockTag = 0xB1
	peer := verifMuxAddrs[0]
	ctx, cancel := context.WithCancel(context.Background())
	defer cancel()
	var wg sync.WaitGroup
	var err1, err2 error
	wg.Add(3)
	var aDone atomic.Bool
	go func() {
		defer wg.Done()
		_, err1 = m.writeToContext(ctx, []byte{0xB1, 1}, peer)
		aDone.Store(true)
	}()
	// the sibling's write either runs freely (it may be in flight when the
	// abort arms the shared deadline, and then shares the blocked write's fate)
	// or starts only after the abort has armed the deadline: such a write has
	// to wait for the abort to be over and then goes out
	afterArming := apSibling && verifChoice(2) == 1 // (the ordered variant only in the AddrPort harness: budget)
	go func() {
		defer wg.Done()
		if afterArming {
			for {
				sock.mu.Lock()
				n := len(sock.deadlines)
				sock.mu.Unlock()
				if n > 0 || aDone.Load() { // (the cancellation may come before the write reached the socket: no abort then)
					break
				}
				runtime.Gosched()
			}
		}
		if apSibling {
			_, err2 = m.writeToUDPAddrPort([]byte{0x02, 2}, peer.AddrPort())
		} else {
			_, err2 = m.writeTo([]byte{0x02, 2}, peer)
		}
	}()
	go func() { defer wg.Done(); cancel() }()
	wg.Wait()

	verifAssert(err1 != nil, "the-cancelled-blocked-write-returns-an-error")
	// the sibling is not disturbed: its write waits while the abort has the
	// socket's deadline armed and then goes out
	if afterArming {
		verifReach("sibling-starts-during-or-after-the-abort")
		verifAssert(err2 == nil, "a-sibling's-write-that-starts-after-the-deadline-was-armed-waits-and-succeeds")
	} else {
		verifAssert(err2 == nil || errors.Is(err2, os.ErrDeadlineExceeded), "a-sibling's-write-in-flight-at-the-abort-succeeds-or-times-out")
	}
	verifAssert(m.writeState.Load() == 0, "after-all-writes-returned-the-state-word-is-0")
	sock.mu.Lock()
	n := len(sock.deadlines)
	lastZero := n == 0 || sock.deadlines[n-1].IsZero()
	sock.mu.Unlock()
	verifAssert(lastZero, "the-write-deadline-on-the-shared-socket-is-cleared")
	if n > 0 {
		verifReach("deadline-was-armed")
	}
	sock.blockTag = 0
	_, err3 := m.writeTo([]byte{0x03}, peer)
	verifAssert(err3 == nil, "later-writes-by-any-user-succeed")
	verifReach("done")
}

// C13(a') — closing one handle fails that handle's own PENDING read and leaves
// the sibling's pending read alone, with or without a read deadline armed on
// the closed handle, under explored interleavings of the reader and the closer.
func verifC13PendingRead() {
	m, sock := verifNewMux()
	hA, errA := m.GetConn("u0", sock.local)
	hB, errB := m.GetConn("u0", sock.local)
	verifAssert(errA == nil && errB == nil, "GetConn-ok")
	under := verifUnderlying(hA)
	peer := verifMuxAddrs[0]
	switch verifChoice(3) {
	case 1: // a read deadline far in the future on the handle that will be closed
		verifAssert(hA.SetReadDeadline(verifNow().Add(time.Hour)) == nil, "SetReadDeadline-ok")
		verifReach("deadline-armed")
	case 2: // ... or on the sibling
		verifAssert(hB.SetReadDeadline(verifNow().Add(time.Hour)) == nil, "SetReadDeadline-ok")
	}
	var wg sync.WaitGroup
	var nA int
	var rerrA error
	wg.Add(1)
	go func() {
		defer wg.Done()
		nA, _, rerrA = hA.ReadFrom(make([]byte, 4))
	}()
	closeOwn := verifChoice(2) == 0
	if closeOwn {
		// A is closed while its read is pending (or about to start); B stays open
		verifAssert(hA.Close() == nil, "close-returns-nil")
		wg.Wait() // a read that never returns is a deadlock outcome
		verifReach("own-close")
		verifAssert(rerrA != nil && nA == 0, "closing-a-handle-fails-its-own-pending-read")
		verifAssert(!under.closed, "sibling-keeps-the-underlying-open")
		verifAssert(under.writePacket([]byte{7}, peer.AddrPort(), peer) == nil, "queue-packet")
		buf := make([]byte, 4)
		nB, _, rerrB := hB.ReadFrom(buf)
		verifAssert(rerrB == nil && nB == 1 && buf[0] == 7, "sibling-still-reads")
	} else {
		// the sibling is closed: A's pending read is not disturbed and gets the next packet
		verifAssert(hB.Close() == nil, "close-returns-nil")
		verifAssert(!under.closed, "the-reader's-handle-keeps-the-underlying-open")
		verifAssert(under.writePacket([]byte{8}, peer.AddrPort(), peer) == nil, "queue-packet")
		wg.Wait()
		verifReach("sibling-close")
		verifAssert(rerrA == nil && nA == 1, "closing-a-sibling-does-not-disturb-a-pending-read")
	}
	verifReach("done")
}

// C13(a”) — both handles have a read pending when a datagram arrives and one
// of them is closed at about the same time: the wake-up that the datagram
// caused is not lost with the closed handle. Either the closed handle's read
// took the datagram before the close got to it, or the sibling's pending read
// gets it; the sibling's read never stays asleep over a queued datagram.
func verifC13TwoPendingReads() {
	m, sock := verifNewMux()
	hA, errA := m.GetConn("u0", sock.local)
	hB, errB := m.GetConn("u0", sock.local)
	verifAssert(errA == nil && errB == nil, "GetConn-ok")
	under := verifUnderlying(hA)
	peer := verifMuxAddrs[0]
	var wgA, wgB, wgC sync.WaitGroup
	var nA, nB int
	var rerrA, rerrB error
	bufA, bufB := make([]byte, 4), make([]byte, 4)
	wgA.Add(1)
	go func() { defer wgA.Done(); nA, _, rerrA = hA.ReadFrom(bufA) }()
	wgB.Add(1)
	go func() { defer wgB.Done(); nB, _, rerrB = hB.ReadFrom(bufB) }()
	for n := verifChoice(3); n > 0; n-- { // let the readers park (or not yet)
		runtime.Gosched()
	}
	wgC.Add(1)
	go func() { defer wgC.Done(); verifAssert(hA.Close() == nil, "close-returns-nil") }()
	verifAssert(under.writePacket([]byte{7}, peer.AddrPort(), peer) == nil, "queue-packet")
	wgC.Wait()
	wgA.Wait() // the closed handle's read returns: with the datagram or with an error
	if rerrA == nil {
		verifReach("closed-handle-took-it-first")
		verifAssert(nA == 1 && bufA[0] == 7, "datagram-intact")
		verifAssert(under.writePacket([]byte{8}, peer.AddrPort(), peer) == nil, "queue-next-packet")
	} else {
		verifReach("closed-handle's-read-failed")
		verifAssert(nA == 0, "a-failed-read-returns-nothing")
	}
	wgB.Wait() // a sibling that stays asleep over a queued datagram is a deadlock outcome
	verifAssert(rerrB == nil && nB == 1 && (bufB[0] == 7 || bufB[0] == 8), "the-sibling's-pending-read-gets-the-queued-datagram")
	verifAssert(len(verifQueueOf(under)) == 0, "nothing-is-left-queued")
	verifReach("done")
}

// C13 for the TCP mux: two handles of one ufrag share one tcpPacketConn and its
// TCP connections. One user goes away the way candidateBase.abortIO does —
// SetDeadline(now), then Close — and the sibling must stay fully usable: its
// writes to the peer still go out.
func verifC13TCPSiblingWrite() {
	lst := &verifListener{ch: make(chan net.Conn, 1), addr: &net.TCPAddr{IP: net.IPv4(10, 0, 0, 1).To4(), Port: 4000}}
	m := NewTCPMuxDefault(TCPMuxParams{Listener: lst, Logger: verifNopLogger{}, ReadBufferSize: 8})
	localIP := net.IPv4(10, 0, 0, 1).To4()
	hA, errA := m.GetConnByUfrag("u0", false, localIP)
	hB, errB := m.GetConnByUfrag("u0", false, localIP)
	verifAssert(errA == nil && errB == nil && verifUnderlyingTCP(hA) == verifUnderlyingTCP(hB), "two-handles-of-one-packet-conn")
	msg, err := stun.Build(stun.BindingRequest, stun.NewTransactionIDSetter(verifTxID()), stun.NewUsername("u0:peer"), PriorityAttr(verifU32()))
	verifAssert(err == nil, "build")
	peer := &net.TCPAddr{IP: net.IPv4(20, 0, 0, 7).To4(), Port: 7007}
	conn := &verifTCPConn{localTCP: &net.TCPAddr{IP: localIP, Port: 4000}}
	conn.data, conn.failAt, conn.remote = verifFrame(msg.Raw), -1, peer
	conn.hold = make(chan struct{})
	m.handleConn(conn)
	verifRunGoroutines()
	payload := verifBytes(2)
	n, werr := hB.WriteTo(payload, peer)
	verifAssert(werr == nil && n == 2 && len(conn.written) == 1, "sibling-writes-before")
	// user A leaves
	how := verifChoice(2)
	if how == 0 {
		verifAssert(hA.SetDeadline(verifNow()) == nil, "SetDeadline-ok")
		verifReach("abort-then-close")
	}
	verifAssert(hA.Close() == nil, "close-ok")
	n, werr = hB.WriteTo(payload, peer)
	verifAssertKnown(werr == nil && n == 2 && len(conn.written) == 2, "closing-one-handle(after-aborting-its-I/O)-leaves-the-sibling's-writes-working", "C13-tcp-write-deadline-shared", how == 0)
	verifAssert(hB.Close() == nil, "close-ok")
	verifRunGoroutines()
	verifReach("done")
}

// Handing out a connection right after the last handle of the previous one was
// closed: the caller must get a usable connection, never a handle of the one
// that has just been closed (whose removal from the mux's table is done by a
// watcher goroutine that may not have run yet).
func verifC13GetAfterLastClose() {
	m, sock := verifNewMux()
	h1, err := m.GetConn("u0", sock.local)
	verifAssert(err == nil, "GetConn-ok")
	first := verifUnderlying(h1)
	verifAssert(h1.Close() == nil, "close-ok") // last handle: the underlying connection is closed
	for n := verifChoice(3); n > 0; n-- {
		runtime.Gosched()
	}
	m.mu.Lock()
	stale := m.connsIPv4["u0"] == first
	m.mu.Unlock()
	if stale {
		verifReach("closed-conn-still-registered") // the watcher has not run yet
	} else {
		verifReach("watcher-already-ran")
	}
	h2, err := m.GetConn("u0", sock.local)
	verifAssert(err == nil, "GetConn-ok")
	second := verifUnderlying(h2)
	verifAssert(second != first, "never-a-handle-of-the-connection-that-was-just-closed")
	_, werr := h2.WriteTo([]byte{1, 2}, verifMuxAddrs[0])
	verifAssert(werr == nil, "a-connection-handed-out-after-the-last-close-is-usable")
	// the late watcher must not unregister the replacement either
	verifLetOthersRun()
	m.mu.Lock()
	verifAssert(m.connsIPv4["u0"] == second, "the-replacement-stays-registered")
	m.mu.Unlock()
	verifReach("done")
}
