package ice

// C10 — the task loop runs one task at a time; a submission succeeds exactly
// when its task ran once to completion before the return. Decided by schedule
// exploration over the REAL internal/taskloop code (no stub): every
// interleaving of the submitters, a canceller, Close and the loop goroutine at
// synchronisation-point granularity, up to the stated context bound.

import (
	"context"
	"runtime"
	"sync"
	"sync/atomic"
	"time"

	"github.com/pion/ice/v4/internal/taskloop"
)

func init() {
	verifRegister("verifC10Loop", verifC10Loop)
	verifRegister("verifC10LoopTwoSubmitters", verifC10LoopTwoSubmitters)
	verifRegister("verifC10CloseTwice", verifC10CloseTwice)
	verifRegister("verifC10InboundNeedsLoop", verifC10InboundNeedsLoop)
	verifRegister("verifC10RestartIsOneTask", verifC10RestartIsOneTask)
}

func verifC10Loop() { verifC10LoopN(1) }

// two submitters (thorough tier, smaller preemption bound)
func verifC10LoopTwoSubmitters() { verifC10LoopN(2) }

func verifC10LoopN(nSub int) {
	var closeCb, running, overlap, startedAfterClose atomic.Int32
	var closeReturned atomic.Bool
	l := taskloop.New(func() { closeCb.Add(1) })
	var ran [2]atomic.Int32
	var ranAtReturn [2]int32
	var res [2]error
	ctx0, cancel0 := context.WithCancel(context.Background())
	defer cancel0()
	ctxs := [2]context.Context{ctx0, context.Background()}
	withCancel := verifChoice(2) == 1
	withClose := verifChoice(2) == 1

	var wg sync.WaitGroup
	for i := 0; i < nSub; i++ {
		wg.Add(1)
		go func(i int) {
			defer wg.Done()
			res[i] = l.Run(ctxs[i], func(context.Context) {
				if closeReturned.Load() {
					startedAfterClose.Add(1)
				}
				if running.Add(1) > 1 {
					overlap.Add(1)
				}
				ran[i].Add(1)
				running.Add(-1)
			})
			ranAtReturn[i] = ran[i].Load()
		}(i)
	}
	if withCancel {
		wg.Add(1)
		go func() { defer wg.Done(); cancel0() }()
	}
	var cbAtCloseReturn int32
	if withClose {
		wg.Add(1)
		go func() {
			defer wg.Done()
			l.Close()
			cbAtCloseReturn = closeCb.Load()
			closeReturned.Store(true)
		}()
	}
	wg.Wait()

	verifAssert(overlap.Load() == 0, "tasks-never-overlap")
	verifAssert(startedAfterClose.Load() == 0, "no-task-starts-after-Close-returned")
	for i := 0; i < nSub; i++ {
		if res[i] == nil {
			verifReach("submitted")
			verifAssert(ranAtReturn[i] == 1, "success=>the-task-ran-once-to-completion-before-the-return")
		} else {
			verifReach("refused")
			verifAssert(ran[i].Load() == 0, "error=>the-task-never-ran")
		}
		verifAssert(ran[i].Load() <= 1, "no-task-runs-twice")
	}
	if !withCancel && !withClose {
		verifAssert(res[0] == nil && res[1] == nil, "without-cancellation-or-close-every-submission-succeeds")
	}
	_ = nSub
	if withClose {
		verifReach("closed")
		verifAssert(cbAtCloseReturn == 1, "close-callback-ran-once-before-Close-returned")
		verifAssert(l.Err() != nil, "closed-loop-reports-its-error")
		e := l.Run(context.Background(), func(context.Context) { startedAfterClose.Add(1) })
		verifAssert(e != nil && startedAfterClose.Load() == 0, "submission-after-Close-fails-without-running")
	} else {
		l.Close() // tidy up (natively ends the loop goroutine)
	}
	verifAssert(closeCb.Load() == 1, "close-callback-runs-exactly-once")
	verifReach("done")
}

// Close from several goroutines at once: all return, the callback runs once.
func verifC10CloseTwice() {
	var closeCb atomic.Int32
	l := taskloop.New(func() { closeCb.Add(1) })
	var wg sync.WaitGroup
	var ok [2]int32
	for i := 0; i < 2; i++ {
		wg.Add(1)
		go func(i int) {
			defer wg.Done()
			l.Close()
			ok[i] = closeCb.Load()
		}(i)
	}
	wg.Add(1)
	var res error
	ranIt := false
	go func() {
		defer wg.Done()
		res = l.Run(context.Background(), func(context.Context) { ranIt = true })
	}()
	wg.Wait()
	verifAssert(ok[0] == 1 && ok[1] == 1, "every-Close-returns-after-the-callback")
	verifAssert(closeCb.Load() == 1, "close-callback-runs-exactly-once")
	verifAssert((res == nil) == ranIt, "submission-succeeds-iff-its-task-ran")
	verifReach("done")
}

// Agent state is touched by loop tasks only (sequential lemma): with the loop
// closed no task can run, so a packet arriving at a candidate's socket — STUN
// of any class from a known remote or anyone, data from a source the
// candidate's cache does not hold — changes nothing: nothing is sent, no
// liveness instant moves, nothing is buffered.
func verifC10InboundNeedsLoop() {
	w := verifNewWorld(verifChoice(2) == 1, false, 1, 1)
	w.pairAll()
	a := w.a
	a.loop = verifLoop()
	a.loop.Close()
	local := w.locals[0]
	src := w.remotes[0].addrPort()
	if verifChoice(2) == 1 {
		src = verifSrcV4()
	}
	var pkt []byte
	if verifChoice(2) == 0 {
		verifReach("stun")
		pkt = verifBytes(20)
		pkt[4], pkt[5], pkt[6], pkt[7] = 0x21, 0x12, 0xA4, 0x42
		verifAssume(verifAnd(pkt[2] == 0, pkt[3] == 0)) // header-only message of any type
	} else {
		verifReach("data")
		pkt = verifBytes(3)
		verifAssume(!verifLooksSTUN(pkt))
	}
	for _, r := range w.remotes {
		verifBaseOf(r).setLastReceived(verifNow().Add(-time.Hour))
	}
	before := w.snap()
	local.handleInboundPacket(pkt, src)
	after := w.snap()
	verifAssert(verifNothingChanged(before, after), "without-a-loop-task-agent-state-does-not-change")
	verifAssert(a.buf.Count() == 0, "without-a-loop-task-nothing-is-delivered")
	verifReach("done")
}

// A public operation is ONE task: whatever another submitter's task observes
// is the state before the operation or the state after it, never a mixture.
// Restart (new local credentials, remote credentials cleared, candidates and
// pairs dropped, gathering state New) against a concurrent observer task, on
// the real loop, every explored schedule.
func verifC10RestartIsOneTask() {
	w := verifC08New(false)
	a := w.a
	w.addLocal(1000, false)
	verifAssert(a.SetRemoteCredentials(verifC08RU, verifC08RP) == nil, "remote-credentials")
	oldU, _, _ := a.GetLocalUserCredentials()
	type obs struct {
		lu, ru  string
		nLocals int
		ok      bool
	}
	var o obs
	var wg sync.WaitGroup
	wg.Add(1)
	go func() {
		defer wg.Done()
		err := a.loop.Run(a.loop, func(context.Context) {
			n := 0
			for _, l := range a.localCandidates {
				n += len(l)
			}
			o = obs{a.localUfrag, a.remoteUfrag, n, true}
		})
		verifAssert(err == nil, "observer-ran")
	}()
	for n := verifChoice(3); n > 0; n-- {
		runtime.Gosched()
	}
	verifAssert(a.Restart("c10newufrag", "c10newpasswordc10newpassword") == nil, "Restart")
	wg.Wait()
	verifAssert(o.ok, "observed")
	isOld := o.lu == oldU && o.ru == verifC08RU && o.nLocals == 1
	isNew := o.lu == "c10newufrag" && o.ru == "" && o.nLocals == 0
	if isOld {
		verifReach("observer-first")
	}
	if isNew {
		verifReach("restart-first")
	}
	verifAssert(isOld || isNew, "another-task-sees-the-state-before-or-after-Restart,never-a-mixture")
	verifAssert(a.Close() == nil, "Close")
	verifReach("done")
}
