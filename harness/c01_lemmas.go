package ice

// C01 — step lemmas the convergence argument rests on. The bounded two-agent
// run (c01_twoagents.go) explores short adversarial prefixes; message
// orderings that need eight or more specific deliveries, losses and
// duplications are out of its reach. These lemmas cover them one step at a
// time, from an arbitrary (symbolic) agent state:
//
//   (N1) a controlling agent nominates one pair at a time: while a nomination
//        is outstanding no inbound message makes it nominate another pair, and
//        USE-CANDIDATE only ever goes out on the pair being nominated;
//   (N2) a controlled agent does not forget a nomination it has accepted for a
//        not-yet-valid pair: the deferred flag survives every inbound message
//        until that pair is selected;
//   (P)  timer ticks make progress while nothing is selected: an outstanding
//        nomination is retransmitted, a valid pair gets nominated (the best
//        one), and every pair still within its retry budget is checked again.

import (
	"github.com/pion/stun/v3"
)

func init() {
	verifRegister("verifC01NominationLemmas", verifC01NominationLemmas)
	verifRegister("verifC01TickProgress", verifC01TickProgress)
	verifRegister("verifC01LateResponse", verifC01LateResponse)
}

// pairOfSent: the candidate pair an emitted datagram travels on.
func (w *verifWorld) pairOfSent(ci, i int) *CandidatePair {
	to := w.conns[ci].sent[i].to.String()
	for _, p := range w.a.checklist {
		if p.Local == Candidate(w.locals[ci]) && p.Remote.addr().String() == to {
			return p
		}
	}
	return nil
}

func verifC01NominationLemmas() {
	s := verifInboundStep(verifStepCfg{nLocal: 2, nRemote: 1, onlyAuth: true, nominating: true, smallPrio: true, maxPend: 1,
		classes: []stun.MessageClass{stun.ClassRequest, stun.ClassSuccessResponse}})
	w, a := s.w, s.w.a
	if s.controlling {
		verifReach("controlling")
		cs, ok := a.selector.(*controllingSelector)
		verifAssert(ok, "selector-kept")
		if !ok {
			return
		}
		if s.nomBefore != nil {
			verifReach("nomination-outstanding")
			verifAssert(cs.nominatedPair == s.nomBefore, "an-outstanding-nomination-is-never-replaced-by-an-inbound-message")
		} else if cs.nominatedPair != nil {
			verifReach("nominated-on-inbound")
			verifAssert(cs.nominatedPair.state == CandidatePairStateSucceeded, "only-a-valid-pair-is-nominated")
		}
		for ci, c := range w.conns {
			for i := range c.sent {
				m := verifParseSent(c, i)
				if m == nil || m.Type.Class != stun.ClassRequest || !m.Contains(stun.AttrUseCandidate) {
					continue
				}
				verifReach("USE-CANDIDATE-sent")
				verifAssert(cs.nominatedPair != nil && w.pairOfSent(ci, i) == cs.nominatedPair, "USE-CANDIDATE-goes-out-only-on-the-one-pair-being-nominated")
			}
		}
	} else {
		verifReach("controlled")
		// (T) an authenticated request on a known pair that is not yet valid —
		// Waiting, In-Progress or already Failed by its own retries — is answered
		// AND triggers a check on that pair (full agents): the peer's check is
		// what lets a controlled agent validate a pair whose own budget ran out
		if known, isKnown := s.knownRemote(); isKnown && s.class == stun.ClassRequest && !s.lite {
			for ci := range w.conns {
				if ci != s.localIdx {
					continue
				}
				var before *verifPairSnap
				for i := range s.before.pairs {
					if s.before.pairs[i].p.Local == Candidate(w.locals[ci]) && s.before.pairs[i].p.Remote == known {
						before = &s.before.pairs[i]
					}
				}
				if before == nil || before.state == CandidatePairStateSucceeded {
					continue
				}
				verifReach("request-on-a-not-yet-valid-pair")
				nResp, nReq := 0, 0
				for i := 0; i < len(w.conns[ci].sent); i++ { // nothing was sent before the step
					if m := verifParseSent(w.conns[ci], i); m != nil {
						if m.Type.Class == stun.ClassSuccessResponse && m.TransactionID == s.id {
							nResp++
						}
						if m.Type.Class == stun.ClassRequest && w.pairOfSent(ci, i) == before.p {
							nReq++
						}
					}
				}
				verifAssert(nResp == 1, "the-request-is-answered")
				verifAssert(nReq == 1, "a-triggered-check-goes-out-on-every-not-yet-valid-pair(a-Failed-one-included)")
			}
		}
		for _, ps := range s.before.pairs {
			// Inv: a deferred nomination waits on a pair that is not yet valid
			// (it is set only then and consumed when the pair becomes valid)
			if verifAnd(ps.nomOnSucc, ps.state != CandidatePairStateSucceeded) { // forks on the symbolic flag and state
				verifReach("deferred-nomination-armed")
				still := false
				for _, q := range s.after.pairs {
					if q.p == ps.p {
						still = q.nomOnSucc
					}
				}
				// ... or until the pair's own check succeeds in this step: the
				// nomination is evaluated then (applied, or outranked by the
				// priority rule / a later nomination) and consumed
				validatedNow := false
				for _, q := range s.after.pairs {
					if q.p == ps.p {
						validatedNow = verifAnd(ps.state != CandidatePairStateSucceeded, q.state == CandidatePairStateSucceeded)
					}
				}
				verifAssert(verifOr(verifOr(still, s.after.selected == ps.p), validatedNow), "a-deferred-nomination-stays-armed-until-its-pair-is-selected-or-becomes-valid")
			}
		}
	}
	verifReach("done")
}

func verifC01TickProgress() {
	controlling := verifChoice(2) == 1
	w := verifNewWorld(controlling, false, 2, 1)
	a := w.a
	w.pairAll()
	for _, p := range a.checklist {
		p.state = CandidatePairState(verifInt(1, 4))
		p.nominated = verifBool()
		p.bindingRequestCount = uint16(verifInt(0, 9))
		p.nominateOnBindingSuccess = verifBool()
		p.renominateOnBindingSuccess = verifBool()
	}
	for _, l := range w.locals {
		l.priorityOverride = verifU32()
		verifAssume(l.priorityOverride != 0)
	}
	var nomBefore *CandidatePair
	if cs, ok := a.selector.(*controllingSelector); ok {
		if k := verifChoice(len(a.checklist)+1) - 1; k >= 0 {
			np := a.checklist[k]
			verifAssume(verifAnd(np.state == CandidatePairStateSucceeded, np.nominated))
			cs.nominatedPair = np
			nomBefore = np
		}
	}
	before := w.snap()
	verifStepBegin()
	a.getSelector().ContactCandidates() // nothing is selected: the agent is still converging
	after := w.snap()
	verifAssert(after.selected == nil, "a-tick-selects-nothing")

	// what went out, per pair
	useCand := map[*CandidatePair]int{}
	plain := map[*CandidatePair]int{}
	for ci, c := range w.conns {
		for i := range c.sent {
			m := verifParseSent(c, i)
			verifAssert(m != nil && m.Type.Class == stun.ClassRequest, "a-tick-emits-only-requests")
			if m == nil {
				continue
			}
			p := w.pairOfSent(ci, i)
			verifAssert(p != nil, "requests-go-out-on-listed-pairs")
			if m.Contains(stun.AttrUseCandidate) {
				useCand[p]++
			} else {
				plain[p]++
			}
		}
	}
	anyValid := false
	for _, ps := range before.pairs {
		anyValid = verifOr(anyValid, ps.state == CandidatePairStateSucceeded)
	}
	cs, _ := a.selector.(*controllingSelector)
	switch {
	case controlling && nomBefore != nil:
		verifReach("retransmit")
		verifAssert(cs.nominatedPair == nomBefore, "the-pair-being-nominated-is-kept")
		verifAssert(useCand[nomBefore] == 1, "an-outstanding-nomination-is-retransmitted-on-every-tick")
	case controlling && anyValid: // forks on the symbolic states
		verifReach("nominate")
		np := cs.nominatedPair
		verifAssert(np != nil, "a-valid-pair-gets-nominated")
		if np != nil {
			verifAssert(np.state == CandidatePairStateSucceeded, "the-nominated-pair-is-valid")
			for _, q := range a.checklist {
				verifAssert(verifImplies(q.state == CandidatePairStateSucceeded, q.priority() <= np.priority()), "the-best-valid-pair-is-nominated")
			}
			verifAssert(useCand[np] == 1, "the-nomination-goes-out-on-it")
		}
	default:
		verifReach("check")
		if controlling {
			verifAssert(cs.nominatedPair == nil && len(useCand) == 0, "nothing-valid=>nothing-nominated")
		}
		for _, ps := range before.pairs {
			p := ps.p
			live := verifOr(ps.state == CandidatePairStateWaiting, ps.state == CandidatePairStateInProgress)
			if live { // forks
				if ps.reqCount <= a.maxBindingRequests {
					verifReach("rechecked")
					verifAssert(plain[p] == 1 && p.state == CandidatePairStateInProgress && p.bindingRequestCount == ps.reqCount+1, "every-pair-within-its-retry-budget-is-checked-again")
				} else {
					verifReach("budget-exhausted")
					verifAssert(plain[p] == 0 && p.state == CandidatePairStateFailed, "a-pair-beyond-its-retry-budget-fails")
				}
			} else {
				verifAssert(plain[p] == 0 && p.state == ps.state, "succeeded/failed-pairs-are-left-alone")
			}
		}
	}
	if !controlling {
		verifAssert(len(useCand) == 0, "controlled-agent-never-sends-USE-CANDIDATE")
	}
	verifReach("done")
}

// A retransmission does not cancel the transaction it repeats: responses are
// matched by transaction id for the whole transaction lifetime, so a response
// that arrives after the next retransmission went out (round trip longer than
// the check interval) still validates the pair.
func verifC01LateResponse() {
	controlling := verifChoice(2) == 1
	w := verifNewWorld(controlling, false, 1, 1)
	a := w.a
	w.pairAll()
	p := a.checklist[0]
	p.state = CandidatePairState(verifInt(1, 2)) // waiting or in progress
	nTicks := 2 + verifChoice(2)
	for i := 0; i < nTicks; i++ {
		a.getSelector().ContactCandidates()
	}
	var reqs []*stun.Message
	for i := range w.conns[0].sent {
		if m := verifParseSent(w.conns[0], i); m != nil && m.Type.Class == stun.ClassRequest {
			reqs = append(reqs, m)
		}
	}
	verifAssert(len(reqs) == nTicks, "one-check-per-tick")
	if len(reqs) != nTicks {
		return
	}
	verifAssert(len(a.pendingBindingRequests) == nTicks, "every-check-sent-is-an-outstanding-transaction")
	// the response to any one of them — the first included — arrives now
	k := verifChoice(nTicks)
	resp, err := stun.Build(stun.BindingSuccess, stun.NewTransactionIDSetter(reqs[k].TransactionID), stun.NewShortTermIntegrity(verifRemotePwd), stun.Fingerprint)
	verifAssert(err == nil, "build")
	a.handleInbound(resp, w.locals[0], w.remotes[0].addrPort())
	verifAssert(p.state == CandidatePairStateSucceeded, "a-response-to-an-earlier-retransmission-still-validates-the-pair")
	if k == 0 {
		verifReach("late-response")
	}
	verifReach("done")
}
