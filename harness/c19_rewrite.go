package ice

// C19 — address rewrite rules map addresses as documented.

import (
	"net"
	"net/netip"
)

func init() {
	verifRegister("verifC19Evaluate", verifC19Evaluate)
	verifRegister("verifC19EvaluateCatchAll4", verifC19EvaluateCatchAll4)
	verifRegister("verifC19Appliers", verifC19Appliers)
	verifRegister("verifC19Construct", verifC19Construct)
	verifRegister("verifC19Compile", verifC19Compile)
	verifRegister("verifC19CIDRNetworks", verifC19CIDRNetworks)
	verifRegister("verifC19Legacy", verifC19Legacy)
}

var verifLookupIP = net.IPv4(10, 1, 1, 1).To4()

type verifRuleShape struct {
	hasIface  bool
	iface     string
	hasCIDR   bool
	cidrByte  byte // CIDR is <cidrByte>.0.0.0/8: contains 10.1.1.1 iff cidrByte == 10
	explicit  bool // explicit Local entry for the lookup IP (in both families' maps)
	valid4    bool
	valid6    bool
	catchAll4 bool
	catchAll6 bool
	mode      AddressRewriteMode
}

func verifMkRule(i int, sh verifRuleShape) *addressRewriteRuleMapping {
	r := &addressRewriteRuleMapping{mode: sh.mode, ipv4Mapping: newIPMapping(), ipv6Mapping: newIPMapping(), allowIPv4: true, allowIPv6: true}
	if sh.hasIface {
		r.rule.Iface = sh.iface
	}
	if sh.hasCIDR {
		r.cidr = &net.IPNet{IP: net.IP{sh.cidrByte, 0, 0, 0}, Mask: net.CIDRMask(8, 32)}
	}
	for fam, m := range []*ipMapping{&r.ipv4Mapping, &r.ipv6Mapping} {
		m.ipSole = []net.IP{net.IPv4(8, 8, byte(fam), byte(i)).To4()}
		if sh.explicit {
			m.ipMap[verifLookupIP.String()] = []net.IP{net.IPv4(9, 9, byte(fam), byte(i)).To4()}
		}
	}
	r.ipv4Mapping.valid, r.ipv6Mapping.valid = sh.valid4, sh.valid6
	r.ipv4Mapping.catchAllSet, r.ipv6Mapping.catchAllSet = sh.catchAll4, sh.catchAll6
	return r
}

// reference: the precedence documented on WithAddressRewriteRules.
func verifRefEvaluate(shapes []verifRuleShape, isV4 bool, iface string) (idx int, explicit bool) {
	match := func(sh verifRuleShape) bool {
		if sh.hasIface && !verifStrEq(sh.iface, iface) {
			return false
		}
		if sh.hasCIDR && sh.cidrByte != 10 {
			return false
		}
		return verifIteBool(isV4, sh.valid4, sh.valid6)
	}
	for i, sh := range shapes {
		if match(sh) && sh.explicit {
			return i, true
		}
	}
	best, bestSpec := -1, -1
	for i, sh := range shapes {
		if !match(sh) || !verifIteBool(isV4, sh.catchAll4, sh.catchAll6) {
			continue
		}
		spec := 0
		if sh.hasIface {
			spec += 2
		}
		if sh.hasCIDR {
			spec++
		}
		if spec > bestSpec {
			best, bestSpec = i, spec
		}
	}
	return best, false
}

func verifC19Evaluate() { verifC19EvaluateN(2+verifTier(), true) }

// four rules, catch-alls only (pure specificity/declaration-order lemma)
func verifC19EvaluateCatchAll4() { verifC19EvaluateN(4, false) }

func verifC19EvaluateN(n int, allowExplicit bool) {
	shapes := make([]verifRuleShape, n)
	rules := make([]*addressRewriteRuleMapping, n)
	for i := range shapes {
		sh := verifRuleShape{hasIface: verifChoice(2) == 1, hasCIDR: verifChoice(2) == 1, explicit: allowExplicit && verifChoice(2) == 1}
		if sh.hasIface {
			sh.iface = verifString(2)
		}
		sh.cidrByte = verifU8()
		sh.valid4, sh.valid6, sh.catchAll4, sh.catchAll6 = verifBool(), verifBool(), verifBool(), verifBool()
		sh.mode = AddressRewriteMode(verifInt(1, 2))
		shapes[i] = sh
		rules[i] = verifMkRule(i, sh)
	}
	isV4 := verifBool()
	iface := ""
	if verifChoice(2) == 1 {
		iface = "e0"
	}
	ips, matched, mode := evaluateRewriteRules(rules, verifLookupIP, isV4, iface)
	want, explicit := verifRefEvaluate(shapes, isV4, iface)

	// the known deviation: a CIDR-only catch-all does not outrank a global one
	// when the lookup carries an interface name
	region := false
	if iface != "" {
		for _, sh := range shapes {
			if !sh.hasIface && sh.hasCIDR {
				region = true
			}
		}
	}
	if want < 0 {
		verifReach("no-match")
		verifAssert(!matched && len(ips) == 0 && mode == addressRewriteModeUnspecified, "no-matching-rule=>unmatched")
		return
	}
	verifAssert(matched, "matching-rule=>matched")
	fam := byte(verifIteInt(isV4, 0, 1))
	if explicit {
		verifReach("explicit")
		verifAssert(len(ips) == 1 && ips[0][0] == 9 && ips[0][3] == byte(want) && ips[0][2] == fam, "first-rule-with-an-explicit-Local-match-wins")
		verifAssert(mode == shapes[want].mode, "mode-of-the-winning-rule")
		return
	}
	verifReach("catch-all")
	verifAssertKnown(len(ips) == 1 && ips[0][0] == 8 && ips[0][3] == byte(want), "most-specific-catch-all-wins(declaration-order-on-ties)", "C19-cidr-only-specificity-with-iface", region)
	verifAssertKnown(mode == shapes[want].mode, "mode-of-the-winning-rule", "C19-cidr-only-specificity-with-iface", region)
	if len(ips) == 1 {
		verifAssert(ips[0][2] == fam, "catch-all-of-the-lookup's-family-only")
	}
	verifReach("done")
}

// The four appliers against one compiled rule (mode and external count symbolic).
func verifC19Appliers() {
	nExt := verifChoice(3)
	mode := AddressRewriteReplace
	if verifChoice(2) == 1 {
		mode = AddressRewriteAppend
	}
	matchKind := verifChoice(2) // 0: rule matches (global catch-all), 1: rule bound to another interface (no match)
	typ := []CandidateType{CandidateTypeHost, CandidateTypeServerReflexive, CandidateTypeRelay}[verifChoice(3)]
	rm := &addressRewriteRuleMapping{mode: mode, ipv4Mapping: newIPMapping(), ipv6Mapping: newIPMapping(), allowIPv4: true, allowIPv6: true}
	var ext []net.IP
	for i := 0; i < nExt; i++ {
		ext = append(ext, net.IPv4(8, 8, 8, byte(1+i)).To4())
	}
	// an external address may equal the local one (an allow-list entry that
	// maps an address onto itself): in replace mode the candidate is kept
	identity := nExt > 0 && typ == CandidateTypeHost && verifChoice(2) == 1
	if identity {
		ext[0] = net.IPv4(10, 1, 1, 1).To4()
		verifReach("identity-mapping")
	}
	rm.ipv4Mapping.ipSole, rm.ipv4Mapping.valid, rm.ipv4Mapping.catchAllSet = ext, true, true
	if matchKind == 1 {
		rm.rule.Iface = "zz9"
	}
	a := &Agent{log: verifNopLogger{}, addressRewriteMapper: &addressRewriteMapper{rulesByCandidateType: map[CandidateType][]*addressRewriteRuleMapping{typ: {rm}}}}
	local := net.IPv4(10, 1, 1, 1).To4()
	matched := matchKind == 0

	wantIPs := func(orig net.IP, srflx bool) ([]net.IP, bool) {
		switch {
		case !matched:
			return []net.IP{orig}, true
		case nExt == 0 && mode == AddressRewriteReplace:
			return nil, false
		case nExt == 0:
			return []net.IP{orig}, true
		case mode == AddressRewriteReplace || srflx:
			return ext, true
		default:
			return append([]net.IP{orig}, ext...), true
		}
	}
	eq := func(got, want []net.IP) bool {
		if len(got) != len(want) {
			return false
		}
		for i := range got {
			if !got[i].Equal(want[i]) {
				return false
			}
		}
		return true
	}
	switch typ {
	case CandidateTypeHost:
		verifReach("host")
		addr := netip.AddrFrom4([4]byte{10, 1, 1, 1})
		got, ok := a.applyHostAddressRewrite(addr, []netip.Addr{addr}, "e0")
		w, wok := wantIPs(local, false)
		verifAssert(ok == wok, "host:keep/drop-decision")
		if wok {
			var g []net.IP
			for _, x := range got {
				g = append(g, x.AsSlice())
			}
			if identity && mode == AddressRewriteAppend && matched {
				// the local address appears at least once, the other externals follow
				verifAssert(len(g) >= 1 && g[0].Equal(local) && eq(g[len(g)-(nExt-1):], ext[1:]), "host:append-with-an-identity-entry-keeps-the-local-address-and-adds-the-rest")
			} else {
				verifAssert(eq(g, w), "host:replace-substitutes,append-adds,empty-replace-drops,no-match-keeps")
			}
		}
		got2, ok2 := a.applyHostRewriteForUDPMux([]net.IP{local}, &net.UDPAddr{IP: local, Port: 1})
		if rm.rule.Iface == "" {
			verifAssert(ok2 == wok, "udpmux-host:keep/drop-decision")
			if wok {
				verifAssert(eq(got2, w), "udpmux-host:same-table")
			}
		} else {
			verifAssert(ok2 && eq(got2, []net.IP{local}), "udpmux-host:no-match-keeps")
		}
	case CandidateTypeServerReflexive:
		verifReach("srflx")
		got, ok := a.resolveSrflxAddresses(local, "e0")
		w, wok := wantIPs(local, true)
		verifAssert(ok == wok, "srflx:keep/drop-decision")
		if wok {
			verifAssert(eq(got, w), "srflx:mapped-addresses-only(the-STUN-gatherer-keeps-the-original-in-append-mode)")
		}
		verifAssert(a.addressRewriteMapper.shouldReplace(CandidateTypeServerReflexive) == (mode == AddressRewriteReplace), "srflx:replace-mode-switches-STUN-gathering-off")
	case CandidateTypeRelay:
		verifReach("relay")
		relayIP := net.IPv4(50, 0, 0, 1).To4()
		got, ok := a.resolveRelayAddresses(relayEndpoint{address: relayIP, relAddr: "10.1.1.1", iface: "e0"})
		w, wok := wantIPs(relayIP, false)
		verifAssert(ok == wok, "relay:keep/drop-decision")
		if wok {
			verifAssert(eq(got, w), "relay:replace-substitutes,append-adds,empty-replace-drops,no-match-keeps")
		}
	}
	verifReach("done")
}

// Construction: invalid rule sets are rejected, valid ones compile to the
// documented catch-all / explicit tables. Concrete rule pool (text validation
// runs natively inside the engine).
func verifC19Construct() {
	type tc struct {
		rule AddressRewriteRule
		ok   bool
	}
	pool := []tc{
		{AddressRewriteRule{External: []string{"1.2.3.4"}}, true},
		{AddressRewriteRule{External: []string{"not-an-ip"}}, false},
		{AddressRewriteRule{External: []string{"1.2.3.4/24"}}, false},
		{AddressRewriteRule{External: []string{"1.2.3.4"}, Local: "10.0.0.1", CIDR: "10.0.0.0/8"}, true},
		{AddressRewriteRule{External: []string{"1.2.3.4"}, Local: "192.168.0.1", CIDR: "10.0.0.0/8"}, false},
		{AddressRewriteRule{External: []string{"1.2.3.4"}, CIDR: "10.0.0.0/33"}, false},
		{AddressRewriteRule{External: []string{"1.2.3.4"}, Local: "bogus"}, false},
		{AddressRewriteRule{External: []string{"1.2.3.4"}, AsCandidateType: CandidateTypePeerReflexive}, false},
		{AddressRewriteRule{External: []string{"2001:db8::1"}, AsCandidateType: CandidateTypeRelay}, true},
		{AddressRewriteRule{External: nil, Mode: AddressRewriteReplace, Iface: "e0"}, true},
	}
	i, j := verifChoice(len(pool)), verifChoice(len(pool))
	m, err := newAddressRewriteMapper([]AddressRewriteRule{pool[i].rule, pool[j].rule})
	if pool[i].ok && pool[j].ok {
		verifReach("valid")
		verifAssert(err == nil && m != nil, "valid-rule-set-accepted")
	} else {
		verifReach("invalid")
		verifAssert(err != nil && m == nil, "invalid-rule-set-rejected-at-construction")
	}
	// IPv4 and IPv6 catch-alls never cross families
	if err == nil && m != nil {
		ips4, _, _, _ := m.findExternalIPs(CandidateTypeRelay, "10.9.9.9", "")
		for _, ip := range ips4 {
			verifAssert(ip.To4() != nil, "ipv4-lookup-never-gets-an-ipv6-catch-all")
		}
		ips6, _, _, _ := m.findExternalIPs(CandidateTypeHost, "2001:db8::9", "")
		for _, ip := range ips6 {
			verifAssert(ip.To4() == nil, "ipv6-lookup-never-gets-an-ipv4-catch-all")
		}
	}
	verifReach("done")
}

// End to end: rules given as the user writes them (External / Local / Networks /
// Mode) compiled by the real newAddressRewriteMapper and looked up for an IPv4
// and an IPv6 local address, against the documented meaning: a rule only ever
// applies to the families its Networks allow, a catch-all to the family of its
// external addresses (an empty one to every allowed family), a Local rule to
// exactly that address; the first explicit match wins, else the first catch-all.
type verifUserRule struct {
	ext4, ext6 bool
	local      int // 0 none, 1 = the IPv4 lookup address, 2 = the IPv6 lookup address
	nets       int // 0 all, 1 IPv4 only, 2 IPv6 only
	mode       AddressRewriteMode
}

var verifC19Lookups = []string{"10.1.1.1", "fd00::5"}

func verifC19Compile() {
	n := 2
	shapes := make([]verifUserRule, n)
	rules := make([]AddressRewriteRule, n)
	exts := make([][]string, n)
	for i := range shapes {
		sh := verifUserRule{ext4: verifChoice(2) == 1, ext6: verifChoice(2) == 1, local: verifChoice(3), nets: verifChoice(3)}
		sh.mode = AddressRewriteReplace
		if i == 0 && verifChoice(2) == 1 {
			sh.mode = AddressRewriteAppend
		}
		r := AddressRewriteRule{Mode: sh.mode}
		if sh.ext4 {
			exts[i] = append(exts[i], []string{"8.8.8.1", "8.8.8.2"}[i])
		}
		if sh.ext6 {
			exts[i] = append(exts[i], []string{"2001:db8::1", "2001:db8::2"}[i])
		}
		r.External = exts[i]
		if sh.local > 0 {
			r.Local = verifC19Lookups[sh.local-1]
		}
		switch sh.nets {
		case 1:
			r.Networks = []NetworkType{NetworkTypeUDP4, NetworkTypeTCP4}
		case 2:
			r.Networks = []NetworkType{NetworkTypeUDP6}
		}
		shapes[i], rules[i] = sh, r
	}
	m, err := newAddressRewriteMapper(rules)
	verifAssert(err == nil, "well-formed-rules-compile")
	for fam, lookup := range verifC19Lookups { // fam 0: IPv4, 1: IPv6
		allowed := func(sh verifUserRule, f int) bool { return sh.nets == 0 || sh.nets == f+1 }
		wantMatched, wantMode := false, addressRewriteModeUnspecified
		var want []string
		// first explicit match
		found := false
		for i, sh := range shapes {
			if sh.local == fam+1 && allowed(sh, fam) {
				wantMatched, wantMode, want, found = true, sh.mode, exts[i], true
				break
			}
		}
		if !found {
			for i, sh := range shapes {
				if sh.local != 0 || !allowed(sh, fam) {
					continue
				}
				// which externals does the rule contribute at all (own family allowed)?
				add4, add6 := sh.ext4 && allowed(sh, 0), sh.ext6 && allowed(sh, 1)
				mine := []bool{add4, add6}[fam]
				switch {
				case mine:
					want = []string{[]string{"8.8.8.1", "8.8.8.2"}[i]}
					if fam == 1 {
						want = []string{[]string{"2001:db8::1", "2001:db8::2"}[i]}
					}
					wantMatched, wantMode, found = true, sh.mode, true
				case !sh.ext4 && !sh.ext6: // an EMPTY external list: deny / no-op for every allowed family
					want, wantMatched, wantMode, found = nil, true, sh.mode, true
					// (a rule whose externals all belong to a family its Networks
					// exclude has nothing to say about the allowed family: inert)
				}
				if found {
					break
				}
			}
		}
		var ips []net.IP
		matched, mode := false, addressRewriteModeUnspecified
		if m != nil {
			var ferr error
			ips, matched, mode, ferr = m.findExternalIPs(CandidateTypeHost, lookup, "")
			verifAssert(ferr == nil, "lookup-succeeds")
		}
		verifAssert(matched == wantMatched, "a-rule-applies-only-to-its-address,family-and-networks")
		if matched && wantMatched {
			verifReach("matched")
			verifAssert(mode == wantMode, "mode-of-the-winning-rule(end-to-end)")
			ok := len(ips) == len(want)
			for k := 0; ok && k < len(ips); k++ {
				ok = ips[k].Equal(net.ParseIP(want[k]))
			}
			verifAssert(ok, "external-addresses-of-the-winning-rule(end-to-end)")
			if len(want) == 0 {
				verifReach("empty-rule")
			}
		} else if !wantMatched {
			verifReach("unmatched")
		}
	}
	verifReach("done")
}

// Legacy NAT1To1IPs lists: an entry is "external" (a catch-all for the
// external address's family) or "external/local"; a list is rejected iff an
// entry is malformed or two catch-alls of the SAME family occur (the second
// would be silently shadowed), whatever the order of the entries.
func verifC19Legacy() {
	type ent struct {
		text           string
		bad            bool
		catch4, catch6 bool
	}
	pool := []ent{
		{"1.2.3.4", false, true, false},
		{" 5.6.7.8 ", false, true, false},
		{"2001:db8::1", false, false, true},
		{"2001:db8::2", false, false, true},
		{"1.2.3.4/10.0.0.1", false, false, false},
		{"2001:db8::3/fd00::1", false, false, false},
		{"not-an-ip", true, false, false},
		{"1.2.3.4/nope", true, false, false},
		{"1.2.3.4/10.0.0.1/x", true, false, false},
		{"", false, false, false},
	}
	n := 2 + verifChoice(2)
	var list []string
	want := false
	n4, n6 := 0, 0
	for i := 0; i < n; i++ {
		e := pool[verifChoice(len(pool))]
		list = append(list, e.text)
		if want {
			continue // the validator stops at the first offending entry
		}
		if e.bad {
			want = true
		}
		if e.catch4 {
			n4++
		}
		if e.catch6 {
			n6++
		}
		if n4 > 1 || n6 > 1 {
			want = true
		}
	}
	err := validateLegacyNAT1To1IPs(list)
	if want {
		verifReach("rejected")
		verifAssert(err != nil, "malformed-entry-or-duplicate-catch-all-of-one-family=>rejected")
	} else {
		verifReach("accepted")
		verifAssert(err == nil, "well-formed-list-without-duplicate-catch-alls=>accepted")
	}
	verifReach("done")
}

// A catch-all scoped by a CIDR and restricted by Networks: both restrictions
// hold together. The rule applies to a local address iff the CIDR contains it
// AND Networks allows its family; a CIDR of one family never lifts a Networks
// restriction (seed C19-6), and an address outside the CIDR is not touched.
func verifC19CIDRNetworks() {
	cidrs := []string{"10.0.0.0/24", "fd00::/64"}
	ci := verifChoice(2)
	nets := verifChoice(3)
	empty := verifChoice(2) == 1
	r := AddressRewriteRule{Mode: AddressRewriteReplace, CIDR: cidrs[ci]}
	if !empty {
		r.External = []string{[]string{"8.8.8.1", "2001:db8::1"}[ci]}
	}
	switch nets {
	case 1:
		r.Networks = []NetworkType{NetworkTypeUDP4, NetworkTypeTCP4}
	case 2:
		r.Networks = []NetworkType{NetworkTypeUDP6}
	}
	m, err := newAddressRewriteMapper([]AddressRewriteRule{r})
	verifAssert(err == nil, "well-formed-rule-compiles")
	lookups := []string{"10.0.0.5", "fd00::5", "10.0.9.5", "fd00:9::5"} // inside v4, inside v6, outside v4, outside v6
	for li, lookup := range lookups {
		fam := li % 2
		inside := li < 2 && fam == ci
		allowed := nets == 0 || nets == fam+1
		want := inside && allowed
		matched := false
		var ips []net.IP
		if m != nil {
			var ferr error
			ips, matched, _, ferr = m.findExternalIPs(CandidateTypeHost, lookup, "")
			verifAssert(ferr == nil, "lookup-succeeds")
		}
		verifAssert(matched == want, "a-CIDR-rule-applies-iff-the-CIDR-contains-the-address-and-Networks-allows-its-family")
		if matched && want {
			verifReach("applies")
			if empty {
				verifAssert(len(ips) == 0, "empty-external=drop")
			} else {
				verifAssert(len(ips) == 1 && ips[0].Equal(net.ParseIP(r.External[0])), "the-rule's-external-address")
			}
		}
		if !want && li < 2 && fam == ci {
			verifReach("networks-exclude-the-CIDR's-family")
		}
	}
	verifReach("done")
}
