package ice

// C08 — Close always terminates, unblocks everyone, and is final (bounded).
// Decided by schedule exploration over the REAL agent construction
// (newAgentWithConfig: real task loop, real on-close teardown closure, real
// notifiers, real Restart), the real Close/GracefulClose and one concurrently
// running API operation or blocked I/O per scenario. Termination is "no
// explored schedule ends with a thread that can never run again"; the
// goroutine census is verifQuiesce.

import (
	"context"
	"errors"
	"net"
	"runtime"
	"sync"
	"sync/atomic"
	"time"

	"github.com/pion/ice/v4/internal/taskloop"
	"github.com/pion/stun/v3"
	"github.com/pion/transport/v4"
	"github.com/pion/transport/v4/packetio"
)

func init() {
	verifRegister("verifC08CloseVsAPI", verifC08CloseVsAPI)
	verifRegister("verifC08CloseVsBlockedIO", verifC08CloseVsBlockedIO)
	verifRegister("verifC08CloseVsGather", verifC08CloseVsGather)
	verifRegister("verifC08CloseAfterRestart", verifC08CloseAfterRestart)
	verifRegister("verifC08CloseAfterRegather", verifC08CloseAfterRegather)
	verifRegister("verifC09CloseVsGather", verifC09CloseVsGather)
	verifRegister("verifC08CloseInCallback", verifC08CloseInCallback)
	verifRegister("verifC08CloseConcurrent", verifC08CloseConcurrent)
	verifRegister("verifC08CloseInBindingHandler", verifC08CloseInBindingHandler)
}

const (
	verifC08Ufrag = "c08localufrag"
	verifC08Pwd   = "c08localpasswordc08localpwd0"
	verifC08RU    = "c08remoteufrag"
	verifC08RP    = "c08remotepasswordc08remotepw"
)

const verifC08MaxDelay = 3 // thorough: 7

var errVerifAborted = errors.New("verif: socket i/o aborted")

type verifC08Datagram struct {
	data []byte
	from net.Addr
}

// verifBlockConn: a socket whose ReadFrom blocks until a datagram is injected,
// a deadline is set or the socket is closed, and whose WriteTo optionally
// blocks "for ever" (until a deadline or Close aborts it) — the socket faults
// the property quantifies over.
type verifBlockConn struct {
	local       net.Addr
	wake        chan struct{}
	once        sync.Once
	inbox       chan verifC08Datagram
	writeBlocks bool
	closeFails  bool
	closes      atomic.Int32
	writes      atomic.Int32
	reads       atomic.Int32
}

func verifNewBlockConn(ip string, port int) *verifBlockConn {
	return &verifBlockConn{
		local: &net.UDPAddr{IP: net.ParseIP(ip), Port: port},
		wake:  make(chan struct{}),
		inbox: make(chan verifC08Datagram, 1),
	}
}

func (c *verifBlockConn) abort() { c.once.Do(func() { close(c.wake) }) }

func (c *verifBlockConn) ReadFrom(p []byte) (int, net.Addr, error) {
	c.reads.Add(1)
	select {
	case d := <-c.inbox:
		return copy(p, d.data), d.from, nil
	case <-c.wake:
		return 0, nil, net.ErrClosed
	}
}

func (c *verifBlockConn) WriteTo(p []byte, _ net.Addr) (int, error) {
	c.writes.Add(1)
	if c.writeBlocks {
		<-c.wake

		return 0, errVerifAborted
	}
	select {
	case <-c.wake:
		return 0, net.ErrClosed
	default:
	}

	return len(p), nil
}

func (c *verifBlockConn) Close() error {
	c.closes.Add(1)
	c.abort()
	if c.closeFails {
		return errVerifAborted
	}

	return nil
}
func (c *verifBlockConn) LocalAddr() net.Addr { return c.local }
func (c *verifBlockConn) SetDeadline(t time.Time) error {
	if !t.IsZero() {
		c.abort()
	}

	return nil
}
func (c *verifBlockConn) SetReadDeadline(t time.Time) error  { return c.SetDeadline(t) }
func (c *verifBlockConn) SetWriteDeadline(t time.Time) error { return nil }

// the transport.UDPConn face of the same socket (what the host gatherer gets)
type verifBlockUDPConn struct{ *verifBlockConn }

func (c verifBlockUDPConn) RemoteAddr() net.Addr     { return nil }
func (c verifBlockUDPConn) SetReadBuffer(int) error  { return nil }
func (c verifBlockUDPConn) SetWriteBuffer(int) error { return nil }
func (c verifBlockUDPConn) Read([]byte) (int, error) { return 0, errVerifWrite }
func (c verifBlockUDPConn) ReadFromUDP([]byte) (int, *net.UDPAddr, error) {
	return 0, nil, errVerifWrite
}
func (c verifBlockUDPConn) ReadMsgUDP(b, o []byte) (int, int, int, *net.UDPAddr, error) {
	return 0, 0, 0, nil, errVerifWrite
}
func (c verifBlockUDPConn) Write([]byte) (int, error)                    { return 0, errVerifWrite }
func (c verifBlockUDPConn) WriteToUDP([]byte, *net.UDPAddr) (int, error) { return 0, errVerifWrite }
func (c verifBlockUDPConn) WriteMsgUDP(b, o []byte, a *net.UDPAddr) (int, int, error) {
	return 0, 0, errVerifWrite
}

// verifC08Net: one IPv4 interface; ListenUDP hands out blocking sockets.
type verifC08Net struct {
	verifNet
	mu    sync.Mutex
	socks []*verifBlockConn
	// gate != nil: opening a socket is a slow step that only completes once
	// the gate has been opened (a gathering cycle busy in the network)
	gate chan struct{}
	// only the first socket opening waits for the gate (the first cycle is
	// slow, a later one is not)
	gateFirstOnly bool
}

func (n *verifC08Net) Interfaces() ([]*transport.Interface, error) {
	n.mu.Lock()
	defer n.mu.Unlock()

	return append([]*transport.Interface{}, n.ifaces...), nil
}

// addAddress: a new interface with one IPv4 address shows up.
func (n *verifC08Net) addAddress(name, ip string) {
	ifc := transport.NewInterface(net.Interface{Index: 2, Name: name, Flags: net.FlagUp})
	ifc.AddAddress(&net.IPNet{IP: net.ParseIP(ip).To4(), Mask: net.CIDRMask(24, 32)})
	n.mu.Lock()
	n.ifaces = append(n.ifaces, ifc)
	n.mu.Unlock()
}

func (n *verifC08Net) ListenUDP(_ string, a *net.UDPAddr) (transport.UDPConn, error) {
	n.mu.Lock()
	gate := n.gate
	if n.gateFirstOnly {
		n.gate = nil
	}
	n.mu.Unlock()
	if gate != nil {
		<-gate
	}
	n.mu.Lock()
	defer n.mu.Unlock()
	c := verifNewBlockConn(a.IP.String(), 40001+len(n.socks))
	n.socks = append(n.socks, c)

	return verifBlockUDPConn{c}, nil
}

type verifC08World struct {
	a          *Agent
	mu         sync.Mutex
	states     []ConnectionState
	net        *verifC08Net
	conns      []*verifBlockConn
	onState    func(ConnectionState)
	inHandler  atomic.Int32
	renominate bool // the agent is controlling with renomination enabled and holds a pair
}

// verifC08New mirrors createAgentBase (struct literal) and then runs the real
// newAgentWithConfig, so the loop, the teardown closure, the notifiers and the
// initial Restart are the repository's own.
func verifC08New(withIface bool) *verifC08World {
	w := &verifC08World{net: &verifC08Net{}}
	if withIface {
		ifc := transport.NewInterface(net.Interface{Index: 1, Name: "eth0", Flags: net.FlagUp})
		ifc.AddAddress(&net.IPNet{IP: net.ParseIP("10.0.0.1").To4(), Mask: net.CIDRMask(24, 32)})
		w.net.ifaces = append(w.net.ifaces, ifc)
	}
	startedCtx, startedFn := context.WithCancel(context.Background())
	a := &Agent{
		gatheringState:           GatheringStateNew,
		connectionState:          ConnectionStateNew,
		startedCandidates:        make(map[*candidateBase]struct{}),
		localCandidates:          make(map[NetworkType][]Candidate),
		remoteCandidates:         make(map[NetworkType][]Candidate),
		pairsByID:                make(map[uint64]*CandidatePair),
		networkTypes:             []NetworkType{NetworkTypeUDP4},
		candidateTypes:           []CandidateType{CandidateTypeHost},
		onConnected:              make(chan struct{}),
		buf:                      packetio.NewBuffer(),
		startedCh:                startedCtx.Done(),
		startedFn:                startedFn,
		log:                      verifNopLogger{},
		net:                      w.net,
		mDNSMode:                 MulticastDNSModeDisabled,
		gatherCandidateCancel:    func() {},
		forceCandidateContact:    make(chan bool, 1),
		nominationAttribute:      DefaultNominationAttribute,
		continualGatheringPolicy: GatherOnce,
		localUfrag:               verifC08Ufrag,
		localPwd:                 verifC08Pwd,
		maxBindingRequests:       7,
		keepaliveInterval:        2 * time.Second,
		checkInterval:            200 * time.Millisecond,
		disconnectedTimeout:      5 * time.Second,
		failedTimeout:            25 * time.Second,
	}
	a, err := newAgentWithConfig(a)
	if err != nil {
		panic("verif: constructor: " + err.Error())
	}
	w.a = a
	verifAssert(a.OnConnectionStateChange(func(s ConnectionState) {
		w.inHandler.Add(1)
		verifYield() // a handler that takes its time
		w.mu.Lock()
		w.states = append(w.states, s)
		f := w.onState
		w.mu.Unlock()
		if f != nil {
			f(s)
		}
		w.inHandler.Add(-1)
	}) == nil, "handler-registered")

	return w
}

// addLocal starts a host candidate on a blocking socket through the real
// addCandidate (task loop, start, recvLoop).
func (w *verifC08World) addLocal(port int, writeBlocks bool) *verifBlockConn {
	c, err := NewCandidateHost(&CandidateHostConfig{Network: udp, Address: "10.0.0.1", Port: port, Component: ComponentRTP})
	if err != nil {
		panic("verif: candidate: " + err.Error())
	}
	conn := verifNewBlockConn("10.0.0.1", port)
	conn.writeBlocks = writeBlocks
	w.conns = append(w.conns, conn)
	if err := w.a.addCandidate(context.Background(), c, conn); err != nil {
		panic("verif: addCandidate: " + err.Error())
	}

	return conn
}

func (w *verifC08World) addRemote() {
	c, err := NewCandidateHost(&CandidateHostConfig{Network: udp, Address: "20.0.0.1", Port: 2000, Component: ComponentRTP})
	if err != nil {
		panic("verif: candidate: " + err.Error())
	}
	err = w.a.loop.Run(w.a.loop, func(context.Context) { w.a.addRemoteCandidate(c) })
	if err != nil {
		panic("verif: addRemoteCandidate: " + err.Error())
	}
}

// closedNow: what must hold the moment ANY Close/GracefulClose call returns
// (also a second, concurrent one): the teardown is complete.
func (w *verifC08World) closedNow() {
	verifAssert(w.a.loop.Err() != nil, "when-Close-returns-the-loop-is-closed")
	for _, c := range w.conns {
		verifAssert(c.closes.Load() >= 1, "when-Close-returns-every-started-socket-is-closed")
	}
}

// gracefulNow: the moment GracefulClose returns no handler is running and
// Closed has been delivered as the last state.
func (w *verifC08World) gracefulNow() {
	verifAssert(w.inHandler.Load() == 0, "when-GracefulClose-returns-no-handler-is-running")
	w.mu.Lock()
	n := len(w.states)
	verifAssert(n >= 1 && w.states[n-1] == ConnectionStateClosed, "when-GracefulClose-returns-Closed-has-been-delivered")
	w.mu.Unlock()
}

func verifC08Closed(err error) bool { return errors.Is(err, taskloop.ErrClosed) }

// after: Close has returned and every harness goroutine has ended.
func (w *verifC08World) after() {
	a := w.a
	verifAssert(a.Close() == nil, "repeated-Close-returns-nil")
	w.closedNow()
	verifAssert(a.GracefulClose() == nil, "GracefulClose-after-Close-returns-nil")
	w.gracefulNow()
	// later API calls return promptly, without effect, reporting closure
	_, err := a.GetLocalCandidates()
	verifAssert(verifC08Closed(err), "GetLocalCandidates-after-Close-reports-closed")
	_, err = a.GetRemoteCandidates()
	verifAssert(verifC08Closed(err), "GetRemoteCandidates-after-Close-reports-closed")
	verifAssert(verifC08Closed(a.GatherCandidates()), "GatherCandidates-after-Close-reports-closed")
	verifAssert(verifC08Closed(a.Restart("c08otherufrag", "c08otherpasswordc08otherpwd")), "Restart-after-Close-reports-closed")
	_, err = a.Dial(context.Background(), verifC08RU, verifC08RP)
	verifAssert(err != nil, "Dial-after-Close-fails")
	verifAssert(verifC08Closed(a.AwaitConnect(context.Background())), "AwaitConnect-after-Close-reports-closed")
	conn := &Conn{agent: a}
	_, err = conn.Read(make([]byte, 8))
	verifAssert(verifC08Closed(err), "Read-after-Close-reports-closed")
	_, err = conn.Write([]byte{1, 2, 3})
	verifAssert(verifC08Closed(err), "Write-after-Close-reports-closed")
	if w.renominate && len(w.conns) > 0 {
		nSent := w.conns[0].writes.Load()
		lc, _ := NewCandidateHost(&CandidateHostConfig{Network: udp, Address: "10.0.0.1", Port: 1000, Component: ComponentRTP})
		rc, _ := NewCandidateHost(&CandidateHostConfig{Network: udp, Address: "20.0.0.1", Port: 2000, Component: ComponentRTP})
		rerr := a.RenominateCandidate(lc, rc)
		verifReach("renominate-after-close")
		verifAssertKnown(rerr != nil && w.conns[0].writes.Load() == nSent, "RenominateCandidate-after-Close-fails-and-sends-nothing", "C08-renominate-bypasses-the-loop", true)
	}
	ru := a.remoteUfrag
	verifAssert(verifC08Closed(a.SetRemoteCredentials("c08lateufrag", verifC08RP)), "SetRemoteCredentials-after-Close-reports-closed")
	verifAssert(a.remoteUfrag == ru, "SetRemoteCredentials-after-Close-has-no-effect")
	p, err := a.GetSelectedCandidatePair()
	verifAssertKnown(verifC08Closed(err) && p == nil, "GetSelectedCandidatePair-after-Close-reports-closed", "C08-selected-pair-readable-after-close", true)
	// no goroutine started by the agent keeps running
	verifAssert(verifQuiesce() == 0, "no-goroutine-started-by-the-agent-keeps-running")
	w.mu.Lock()
	n := len(w.states)
	closedCount := 0
	for _, s := range w.states {
		if s == ConnectionStateClosed {
			closedCount++
		}
	}
	verifAssert(n >= 1 && w.states[n-1] == ConnectionStateClosed, "final-notified-state-is-Closed")
	verifAssert(closedCount == 1, "Closed-is-notified-once")
	w.mu.Unlock()
	verifAssert(a.connectionState == ConnectionStateClosed, "agent-state-is-Closed")
	verifAssert(len(a.localCandidates) == 0 && len(a.remoteCandidates) == 0, "candidates-dropped")
	for _, c := range w.conns {
		verifAssert(c.closes.Load() >= 1, "started-candidate-socket-closed")
	}
	w.net.mu.Lock()
	for _, c := range w.net.socks {
		verifAssert(c.closes.Load() >= 1, "gathered-socket-closed")
	}
	w.net.mu.Unlock()
}

// closeIt injects Close (or GracefulClose) after letting the other goroutines
// run for 0..maxDelay scheduling segments (a fair hand-over, not a preemption),
// so the close point moves through the concurrently running operation.
func (w *verifC08World) closeIt() { w.closeItN(verifC08MaxDelay + 4*verifTier()) }

// closeItN: Close or GracefulClose after 0..maxDelay fair hand-overs.
func (w *verifC08World) closeItN(maxDelay int) {
	for n := verifChoice(maxDelay + 1); n > 0; n-- {
		runtime.Gosched()
	}
	if verifChoice(2) == 0 {
		verifAssert(w.a.Close() == nil, "Close-returns-nil")
		w.closedNow()
	} else {
		verifAssert(w.a.GracefulClose() == nil, "GracefulClose-returns-nil")
		w.closedNow()
		w.gracefulNow()
	}
}

// Close at any moment of one concurrently running API call.
func verifC08CloseVsAPI() {
	w := verifC08New(false)
	a := w.a
	op := verifChoice(5)
	if op >= 2 {
		w.addLocal(1000, false)
	}
	var wg sync.WaitGroup
	wg.Add(1)
	go func() {
		defer wg.Done()
		switch op {
		case 0:
			err := a.Restart("c08otherufrag", "c08otherpasswordc08otherpwd")
			verifAssert(err == nil || verifC08Closed(err), "Restart-returns-nil-or-closed")
		case 1:
			err := a.SetRemoteCredentials(verifC08RU, verifC08RP)
			verifAssert(err == nil || verifC08Closed(err), "SetRemoteCredentials-returns-nil-or-closed")
			verifAssert(err == nil || a.remoteUfrag == "", "refused-SetRemoteCredentials-has-no-effect")
			_, _, err = a.GetRemoteUserCredentials()
			verifAssert(err == nil || verifC08Closed(err), "GetRemoteUserCredentials-returns-nil-or-closed")
		case 2:
			c, _ := NewCandidateHost(&CandidateHostConfig{Network: udp, Address: "20.0.0.1", Port: 2000, Component: ComponentRTP})
			verifAssert(a.AddRemoteCandidate(c) == nil, "AddRemoteCandidate-returns")
		case 3:
			cs, err := a.GetLocalCandidates()
			verifAssert(verifC08Closed(err) || (err == nil && len(cs) == 1), "GetLocalCandidates-returns-the-list-or-closed")
		case 4:
			// a start that races with the teardown may also see the started
			// latch the teardown releases (ErrMultipleStart): any error is a
			// refusal, what matters is that it returns
			_, err := a.StartDial(verifC08RU, verifC08RP)
			verifAssert(err == nil || verifC08Closed(err) || errors.Is(err, ErrMultipleStart), "StartDial-returns-nil-or-a-refusal")
		}
	}()
	w.closeIt()
	verifReach("closed")
	wg.Wait()
	w.after()
	verifReach("done")
}

// Close while a Read, a connect or a socket write is blocked, or while a
// datagram arrives.
func verifC08CloseVsBlockedIO() {
	w := verifC08New(false)
	a := w.a
	kind := verifChoice(5)
	sock := w.addLocal(1000, kind == 2 || kind == 4)
	w.addRemote()
	if kind == 0 || kind == 4 {
		// the reader belongs to a connected agent: a pair is selected, so writes
		// take the fast path that does not go through the loop
		err := a.loop.Run(a.loop, func(context.Context) {
			if kind == 4 { // a controlling agent with renomination enabled (for the calls made after Close)
				a.isControlling.Store(true)
				a.enableRenomination = true
				a.setSelector()
				w.renominate = true
			}
			p := a.checklist[0]
			p.state, p.nominated = CandidatePairStateSucceeded, true
			a.setSelectedPair(p)
		})
		verifAssert(err == nil && a.getSelectedPair() != nil, "pair-selected")
		verifReach("connected")
	}
	var wg sync.WaitGroup
	wg.Add(1)
	go func() {
		defer wg.Done()
		switch kind {
		case 0: // a reader blocked in Conn.Read
			_, err := (&Conn{agent: a}).Read(make([]byte, 8))
			verifAssert(err != nil, "blocked-Read-returns-an-error")
		case 1, 2: // Dial blocked in AwaitConnect (2: its check's socket write blocks for ever)
			_, err := a.Dial(context.Background(), verifC08RU, verifC08RP)
			verifAssert(err != nil, "blocked-Dial-returns-an-error")
			verifAssert(verifC08Closed(err) || errors.Is(err, ErrMultipleStart), "blocked-Dial-reports-closed-or-refused")
		case 4: // a writer blocked in the socket (connected agent: Conn.Write goes straight to the pair)
			n, err := (&Conn{agent: a}).Write([]byte{1, 2, 3})
			blockedAtClose := sock.writes.Load() > 0 && !verifC08Closed(err)
			if blockedAtClose {
				verifReach("Conn.Write-was-blocked-in-the-socket")
				verifAssertKnown(err != nil && n == 0, "a-Write-blocked-in-the-socket-and-released-by-Close-returns-an-error", "C08-blocked-write-returns-nil", true)
			} else {
				verifAssert(err != nil && n == 0, "a-Write-racing-with-Close-fails")
			}
		case 3: // inbound traffic: a Binding request arrives at any moment
			m, err := stun.Build(stun.BindingRequest, stun.TransactionID,
				stun.NewUsername(verifC08Ufrag+":"+verifC08RU), stun.NewShortTermIntegrity(verifC08Pwd), stun.Fingerprint)
			if err != nil {
				panic("verif: build: " + err.Error())
			}
			sock.inbox <- verifC08Datagram{m.Raw, &net.UDPAddr{IP: net.ParseIP("20.0.0.1"), Port: 2000}}
			_, err = a.StartAccept(verifC08RU, verifC08RP)
			verifAssert(err == nil || verifC08Closed(err) || errors.Is(err, ErrMultipleStart), "StartAccept-returns-nil-or-a-refusal")
		}
	}()
	w.closeIt()
	verifReach("closed")
	wg.Wait()
	if sock.reads.Load() > 0 {
		verifReach("socket-read-was-pending-at-close")
	}
	if (kind == 2 || kind == 4) && sock.writes.Load() > 0 {
		verifReach("socket-write-was-blocked-at-close")
	}
	w.after()
	verifReach("done")
}

// Close at any moment of a gathering cycle (one interface, blocking sockets).
func verifC08CloseVsGather() {
	w := verifC08New(true)
	a := w.a
	verifAssert(a.OnCandidate(func(Candidate) {}) == nil, "handler")
	var wg sync.WaitGroup
	wg.Add(1)
	go func() {
		defer wg.Done()
		err := a.GatherCandidates()
		verifAssert(err == nil || verifC08Closed(err), "GatherCandidates-returns-nil-or-closed")
	}()
	w.closeIt()
	verifReach("closed")
	w.net.mu.Lock()
	opened := len(w.net.socks)
	w.net.mu.Unlock()
	wg.Wait()
	if opened > 0 {
		verifReach("socket-opened-before-close")
	}
	w.after()
	// the teardown waits for the gathering goroutine: once Close has returned
	// the cycle is over and opens nothing more
	w.net.mu.Lock()
	verifAssert(len(w.net.socks) == opened, "no-socket-is-opened-after-Close-returned")
	w.net.mu.Unlock()
	verifReach("done")
}

// Close after a Restart that cancelled a running gathering cycle: cancelling is
// not stopping, so the teardown still has to wait for that cycle. Once Close
// has returned the cancelled cycle is over: it opens nothing more and every
// socket it opened is closed.
func verifC08CloseAfterRestart() {
	w := verifC08New(true)
	a := w.a
	{
		// the cycle is busy in the network until some later moment
		verifReach("slow-network")
		gate := make(chan struct{})
		w.net.gate = gate
		k := verifChoice(3)
		go func() {
			if k == 0 { // as late as it can: when nothing else can move any more
				verifLetOthersRun()
			}
			for n := k - 1; n > 0; n-- {
				runtime.Gosched()
			}
			close(gate)
		}()
	}
	verifAssert(a.OnCandidate(func(Candidate) {}) == nil, "handler")
	verifAssert(a.GatherCandidates() == nil, "GatherCandidates")
	for n := verifChoice(2); n > 0; n-- {
		runtime.Gosched()
	}
	err := a.Restart("c08newufrag", "c08newpasswordc08newpassword")
	verifAssert(err == nil, "Restart-returns-nil")
	w.closeItN(verifC08MaxDelay) // (same bound in both tiers: measured cost)
	w.net.mu.Lock()
	opened := len(w.net.socks)
	w.net.mu.Unlock()
	verifReach("closed")
	if opened > 0 {
		verifReach("socket-opened-before-close")
	}
	w.after()
	w.net.mu.Lock()
	verifAssert(len(w.net.socks) == opened, "the-cancelled-cycle-opens-nothing-after-Close-returned")
	w.net.mu.Unlock()
	verifReach("done")
}

// Close while two gathering cycles are alive: the first was cancelled by a
// Restart but is still busy in the network (its socket opening is gated), the
// restarted session gathered again. The teardown has to wait for both: once
// Close has returned neither cycle opens anything.
func verifC08CloseAfterRegather() {
	w := verifC08New(true)
	a := w.a
	gate := make(chan struct{})
	w.net.gate, w.net.gateFirstOnly = gate, true
	// the slow step ends after 0..1 hand-overs, or as late as it can: when
	// nothing else in the system can move any more
	k := verifChoice(2)
	go func() {
		if k == 0 {
			verifLetOthersRun()
		}
		for n := k - 1; n > 0; n-- {
			runtime.Gosched()
		}
		close(gate)
	}()
	verifAssert(a.OnCandidate(func(Candidate) {}) == nil, "handler")
	verifAssert(a.GatherCandidates() == nil, "GatherCandidates")
	for n := 1; n > 0; n-- { // let the first cycle get into the network
		runtime.Gosched()
	}
	verifAssert(a.Restart("c08newufrag", "c08newpasswordc08newpassword") == nil, "Restart-returns-nil")
	gerr := a.GatherCandidates()
	verifAssert(gerr == nil, "GatherCandidates-after-Restart")
	w.closeItN(verifC08MaxDelay) // (same bound in both tiers: measured cost)
	w.net.mu.Lock()
	opened := len(w.net.socks)
	w.net.mu.Unlock()
	verifReach("closed")
	w.after()
	w.net.mu.Lock()
	verifAssert(len(w.net.socks) == opened, "no-cycle-opens-anything-after-Close-returned")
	w.net.mu.Unlock()
	verifReach("done")
}

// C09 at Close: when Close has returned, the ended generation has no open
// socket and opens none — whatever the gathering cycle was doing when Close was
// called (about to open its socket, busy in the network until later, handing
// its candidate over, done).
func verifC09CloseVsGather() {
	w := verifC08New(true)
	a := w.a
	if verifChoice(2) == 1 {
		verifReach("slow-network")
		gate := make(chan struct{})
		w.net.gate = gate
		go func() {
			verifLetOthersRun() // as late as it can: when nothing else can move any more
			close(gate)
		}()
	}
	verifAssert(a.OnCandidate(func(Candidate) {}) == nil, "handler")
	var wg sync.WaitGroup
	wg.Add(1)
	go func() {
		defer wg.Done()
		err := a.GatherCandidates()
		verifAssert(err == nil || verifC08Closed(err), "GatherCandidates-returns-nil-or-closed")
	}()
	w.closeItN(verifC08MaxDelay) // (same bound in both tiers: measured cost)
	w.net.mu.Lock()
	opened := len(w.net.socks)
	for _, c := range w.net.socks {
		verifAssert(c.closes.Load() == 1, "when-Close-returns-every-socket-the-generation-opened-is-closed-exactly-once")
	}
	w.net.mu.Unlock()
	verifReach("closed")
	if opened > 0 {
		verifReach("socket-opened-before-close")
	}
	wg.Wait()
	verifAssert(verifQuiesce() == 0, "no-gatherer-is-left-running")
	w.net.mu.Lock()
	verifAssert(len(w.net.socks) == opened, "nothing-is-opened-after-Close-returned")
	for _, c := range w.net.socks {
		verifAssert(c.closes.Load() == 1, "no-socket-is-closed-twice")
	}
	w.net.mu.Unlock()
	verifReach("done")
}

// Close from inside the connection-state callback.
func verifC08CloseInCallback() {
	w := verifC08New(false)
	a := w.a
	w.addLocal(1000, false)
	done := make(chan struct{})
	var once sync.Once
	w.mu.Lock()
	w.onState = func(s ConnectionState) {
		if s == ConnectionStateChecking {
			verifAssert(a.Close() == nil, "Close-inside-callback-returns-nil")
			w.closedNow()
			once.Do(func() { close(done) })
		}
	}
	w.mu.Unlock()
	_, err := a.StartDial(verifC08RU, verifC08RP)
	verifAssert(err == nil, "StartDial")
	<-done
	verifReach("closed")
	w.after()
	verifReach("done")
}

// Close and GracefulClose called concurrently from several goroutines.
func verifC08CloseConcurrent() {
	w := verifC08New(false)
	a := w.a
	w.addLocal(1000, false)
	var wg sync.WaitGroup
	wg.Add(2)
	go func() { defer wg.Done(); verifAssert(a.Close() == nil, "concurrent-Close-returns-nil"); w.closedNow() }()
	go func() {
		defer wg.Done()
		verifAssert(a.GracefulClose() == nil, "concurrent-GracefulClose-returns-nil")
		w.closedNow()
		w.gracefulNow()
	}()
	w.closeIt()
	verifReach("closed")
	wg.Wait()
	w.after()
	verifReach("done")
}

// Close from inside the application's binding-request handler — a callback the
// agent runs on its task loop. The property lets Close be called from inside a
// callback; here it can never return: Close waits for the loop to finish the
// very task that is executing it (listed known finding).
func verifC08CloseInBindingHandler() {
	w := verifC08New(false)
	a := w.a
	sock := w.addLocal(1000, false)
	w.addRemote()
	closedInside := false
	a.userBindingRequestHandler = func(*stun.Message, Candidate, Candidate, *CandidatePair) bool {
		verifReach("handler-invoked")
		if verifSymbolic() { // natively this would hang the test process: engine only
			verifKnownDeadlock("C08-close-inside-binding-request-handler")
			verifAssert(a.Close() == nil, "Close-inside-the-binding-request-handler-returns-nil")
			closedInside = true
		}
		return false
	}
	m, err := stun.Build(stun.BindingRequest, stun.TransactionID,
		stun.NewUsername(verifC08Ufrag+":"+verifC08RU), stun.NewShortTermIntegrity(verifC08Pwd), stun.Fingerprint)
	if err != nil {
		panic("verif: build: " + err.Error())
	}
	sock.inbox <- verifC08Datagram{m.Raw, &net.UDPAddr{IP: net.ParseIP("20.0.0.1"), Port: 2000}}
	_, err = a.StartAccept(verifC08RU, verifC08RP)
	verifAssert(err == nil, "StartAccept")
	verifLetOthersRun()
	if closedInside {
		verifReach("closed-inside-the-handler")
		w.after()
	} else {
		verifAssert(a.Close() == nil, "Close-returns-nil")
	}
	verifReach("done")
}
