package ice

var verifHarnesses = map[string]func(){}

func verifRegister(name string, fn func()) { verifHarnesses[name] = fn }
