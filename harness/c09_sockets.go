package ice

// C09 — every socket the agent opens is closed when its candidate goes away
// (sequential fault paths of the gatherer bodies).

import (
	"context"
	"net"
	"time"

	"github.com/pion/stun/v3"
	"github.com/pion/transport/v4"
	"github.com/pion/turn/v5"
)

func init() {
	verifRegister("verifC09Srflx", verifC09Srflx)
	verifRegister("verifC09RelayCandidates", verifC09RelayCandidates)
	verifRegister("verifC09RelayBody", verifC09RelayBody)
	verifRegister("verifC09HostUDPMux", verifC09HostUDPMux)
}

// verifSTUNConn: a UDP socket that answers one STUN Binding request.
type verifSTUNConn struct {
	verifUDPConn
	replyMode int // 0 valid XOR-MAPPED-ADDRESS, 1 read error, 2 garbage, 3 success without address
	onRead    func()
}

func (c *verifSTUNConn) ReadFrom(p []byte) (int, net.Addr, error) {
	if c.onRead != nil {
		c.onRead()
	}
	switch c.replyMode {
	case 1:
		return 0, nil, errVerifWrite
	case 2:
		return copy(p, []byte{1, 2, 3}), &net.UDPAddr{IP: net.IPv4(50, 0, 0, 1), Port: 3478}, nil
	}
	setters := []stun.Setter{stun.BindingSuccess, stun.NewTransactionIDSetter([stun.TransactionIDSize]byte{1})}
	if c.replyMode == 0 {
		setters = append(setters, &stun.XORMappedAddress{IP: net.IPv4(60, 0, 0, 9), Port: 6009})
	}
	m, err := stun.Build(setters...)
	if err != nil {
		return 0, nil, err
	}
	return copy(p, m.Raw), &net.UDPAddr{IP: net.IPv4(50, 0, 0, 1), Port: 3478}, nil
}

type verifSrflxNet struct {
	verifNet
	conns2     []*verifSTUNConn
	listenFail bool
	replyMode  int
	onRead     func()
}

func (n *verifSrflxNet) ResolveUDPAddr(string, string) (*net.UDPAddr, error) {
	return &net.UDPAddr{IP: net.IPv4(50, 0, 0, 1), Port: 3478}, nil
}
func (n *verifSrflxNet) ListenUDP(network string, a *net.UDPAddr) (transport.UDPConn, error) {
	if n.listenFail {
		return nil, errVerifBusy
	}
	c := &verifSTUNConn{replyMode: n.replyMode, onRead: n.onRead}
	c.port = 41000 + len(n.conns2)
	c.local = &net.UDPAddr{IP: net.IPv4(10, 0, 0, 1), Port: c.port}
	n.conns2 = append(n.conns2, c)
	return c, nil
}

func verifAdopted(a *Agent, conn net.PacketConn) bool {
	for _, l := range a.localCandidates {
		for _, cand := range l {
			if verifBaseOf(cand).conn == conn {
				return true
			}
		}
	}
	return false
}

// the goroutine body of gatherCandidatesSrflx (gatherForURL) under every fault.
func verifC09Srflx() {
	w := verifNewWorld(true, false, 0, 0)
	a := w.a
	a.loop = verifLoop()
	n := &verifSrflxNet{}
	a.net = n
	a.stunGatherTimeout = time.Second
	n.listenFail = verifChoice(4) == 3
	n.replyMode = verifChoice(4)
	ctx, cancel := context.WithCancel(context.Background())
	defer cancel()
	agentClosedMidway := false
	switch verifChoice(4) {
	case 1: // gathering is cancelled while the STUN exchange is in flight
		n.onRead = func() { cancel() }
		verifReach("cancelled-during-exchange")
	case 2: // the agent is closed while the exchange is in flight
		agentClosedMidway = true
		n.onRead = func() { a.loop.Close() }
		verifReach("closed-during-exchange")
	case 3:
		cancel()
	}
	url, err := stun.ParseURI("stun:stun.example.org:3478")
	verifAssert(err == nil, "uri")
	a.gatherCandidatesSrflx(ctx, []*stun.URI{url}, []NetworkType{NetworkTypeUDP4})
	verifRunGoroutines()

	for _, c := range n.conns2 {
		adopted := verifAdopted(a, c)
		leak := !adopted && c.closed == 0
		verifAssertKnown(!leak, "srflx:socket-closed-or-adopted-on-every-path", "C09-srflx-socket-leak-on-addCandidate-error", true)
		if adopted {
			verifReach("adopted")
			verifAssert(c.closed == 0, "adopted-socket-stays-open")
		} else {
			verifReach("released")
		}
	}
	// candidate removal closes the adopted sockets exactly once
	a.deleteAllCandidates()
	for _, c := range n.conns2 {
		verifAssertKnown(c.closed >= 1, "srflx:every-socket-closed-after-candidate-removal", "C09-srflx-socket-leak-on-addCandidate-error", c.closed == 0)
		if !agentClosedMidway { // with the agent closing mid-exchange the close watcher and the error path may both close it (schedule-dependent)
			verifAssert(c.closed <= 1, "srflx:no-socket-closed-twice")
		}
	}
	verifReach("done")
}

// addRelayCandidates / createRelayCandidate: the relay allocation, TURN client
// and local socket are released on every failure.
func verifC09RelayCandidates() {
	w := verifNewWorld(true, false, 0, 0)
	a := w.a
	a.loop = verifLoop()
	relayConn := &verifUDPConn{}
	relayConn.local = &net.UDPAddr{IP: net.IPv4(70, 0, 0, 1), Port: 7000}
	onCloseCalls, closeConnCalls := 0, 0
	lateDealloc := false
	ep := relayEndpoint{network: udp, address: net.IPv4(70, 0, 0, 1).To4(), port: 7000, relAddr: "10.0.0.1", relPort: 5, protocol: udp, conn: relayConn,
		onClose: func() error { onCloseCalls++; return nil },
		closeConn: func() {
			closeConnCalls++
			if onCloseCalls > 0 {
				lateDealloc = true // the TURN client (and its socket) are gone: the allocation can no longer be freed on the server
			}
			_ = relayConn.Close()
		}}
	// address rewrite: none / replace with nothing (no usable address) / append one extra address
	rewriteKind := verifChoice(3)
	switch rewriteKind {
	case 1:
		verifReach("rewrite-drops")
		a.addressRewriteMapper = &addressRewriteMapper{rulesByCandidateType: map[CandidateType][]*addressRewriteRuleMapping{
			CandidateTypeRelay: {verifMkRule(0, verifRuleShape{valid4: true, catchAll4: true, mode: AddressRewriteReplace})}}}
		a.addressRewriteMapper.rulesByCandidateType[CandidateTypeRelay][0].ipv4Mapping.ipSole = nil
	case 2:
		a.addressRewriteMapper = &addressRewriteMapper{rulesByCandidateType: map[CandidateType][]*addressRewriteRuleMapping{
			CandidateTypeRelay: {verifMkRule(0, verifRuleShape{valid4: true, catchAll4: true, mode: AddressRewriteAppend})}}}
	}
	ctx, cancel := context.WithCancel(context.Background())
	defer cancel()
	if verifChoice(2) == 1 {
		verifReach("cancelled")
		cancel()
	}
	a.addRelayCandidates(ctx, ep)

	adopted := verifAdopted(a, relayConn)
	if adopted {
		verifReach("adopted")
		verifAssert(relayConn.closed == 0 && onCloseCalls == 0, "adopted-allocation-stays-open")
	} else {
		verifReach("not-adopted")
		verifAssertKnown(relayConn.closed >= 1, "relay:allocation-closed-when-no-candidate-adopts-it", "C09-relay-release-on-failure", true)
		verifAssertKnown(onCloseCalls == 1, "relay:TURN-client-and-local-socket-released-when-no-candidate-adopts-them", "C09-relay-release-on-failure", true)
	}
	verifAssert(relayConn.closed <= 1 && onCloseCalls <= 1, "nothing-released-twice")
	verifAssertKnown(!lateDealloc, "the-allocation-is-released-while-the-TURN-client-it-needs-is-still-open", "C09-relay-dealloc-after-client-closed", true)
	// removal releases everything exactly once
	a.deleteAllCandidates()
	if adopted {
		// append-mode rewriting creates several candidates over ONE allocation: each closes it
		verifAssertKnown(relayConn.closed == 1, "removal-closes-the-allocation-once", "C09-relay-append-shares-allocation", rewriteKind == 2)
		verifAssert(onCloseCalls == 1, "removal-releases-client-and-local-socket-once")
	}
	verifReach("done")
}

type verifTurnClient struct {
	listenErr, allocErr bool
	closed              int
	relay               *verifUDPConn
}

func (c *verifTurnClient) Listen() error {
	if c.listenErr {
		return errVerifWrite
	}
	return nil
}
func (c *verifTurnClient) Allocate() (net.PacketConn, error) {
	if c.allocErr {
		return nil, errVerifWrite
	}
	return c.relay, nil
}
func (c *verifTurnClient) Close() { c.closed++ }

type verifRelayNet struct {
	verifNet
	loc      *verifUDPConn
	listenKO bool
}

func (n *verifRelayNet) ListenPacket(string, string) (net.PacketConn, error) {
	if n.listenKO {
		return nil, errVerifBusy
	}
	n.loc = &verifUDPConn{}
	n.loc.local = &net.UDPAddr{IP: net.IPv4(10, 0, 0, 1), Port: 42000}
	return n.loc, nil
}

// the goroutine body of gatherCandidatesRelay (TURN over UDP) under every fault.
func verifC09RelayBody() {
	w := verifNewWorld(true, false, 0, 0)
	a := w.a
	a.loop = verifLoop()
	n := &verifRelayNet{}
	a.net = n
	n.listenKO = verifChoice(5) == 4
	cl := &verifTurnClient{relay: &verifUDPConn{}}
	relayIP := net.IPv4(70, 0, 0, 1)
	fault := verifChoice(6)
	factoryErr := false
	switch fault {
	case 1:
		factoryErr = true
	case 2:
		cl.listenErr = true
	case 3:
		cl.allocErr = true
	case 4:
		relayIP = net.ParseIP("fe80::1") // filtered for location tracking
	case 5: // no gathering fault, but closing the allocation reports an error at teardown
		cl.relay.closeFails = true
		fault = 0
		verifReach("allocation-close-fails")
	}
	cl.relay.local = &net.UDPAddr{IP: relayIP, Port: 7000}
	a.turnClientFactory = func(*turn.ClientConfig) (turnClient, error) {
		if factoryErr {
			return nil, errVerifWrite
		}
		return cl, nil
	}
	ctx, cancel := context.WithCancel(context.Background())
	defer cancel()
	if verifChoice(2) == 1 {
		cancel()
	}
	// the relay candidate's network type (IPv4 here) need not be among the
	// configured ones: the TURN server is reached over whatever works
	if verifChoice(2) == 1 {
		a.networkTypes = []NetworkType{NetworkTypeUDP6}
		verifReach("relay-outside-configured-network-types")
	}
	url, err := stun.ParseURI("turn:turn.example.org:3478?transport=udp")
	verifAssert(err == nil, "uri")
	url.Username, url.Password = "u", "p"
	a.gatherCandidatesRelay(ctx, []*stun.URI{url})
	verifRunGoroutines()

	if n.loc != nil {
		adopted := verifAdopted(a, cl.relay)
		if adopted {
			verifReach("adopted")
			verifAssert(n.loc.closed == 0 && cl.closed == 0 && cl.relay.closed == 0, "adopted-resources-stay-open")
		} else {
			verifReach("released")
			verifAssertKnown(n.loc.closed == 1, "relay-body:local-socket-closed-once-when-not-adopted", "C09-relay-release-on-failure", verifAnd(fault == 0, !n.listenKO))
			if !factoryErr {
				verifAssertKnown(cl.closed == 1, "relay-body:TURN-client-closed-once-when-not-adopted", "C09-relay-release-on-failure", verifAnd(fault == 0, !n.listenKO))
			}
			if fault == 0 || fault == 4 {
				verifAssert(cl.relay.closed == 1, "relay-body:allocation-closed-once-when-not-adopted")
			}
		}
		a.deleteAllCandidates()
		if adopted {
			verifAssert(n.loc.closed == 1 && cl.closed == 1 && cl.relay.closed == 1, "removal-releases-socket,client,allocation-exactly-once")
		}
	} else {
		verifReach("no-socket")
		verifAssert(cl.closed == 0, "nothing-to-release")
	}
	verifReach("done")
}

// verifCountingMux: a UDPMux whose handles are plain fake sockets with a ghost
// close counter: every GetConn is a reference taken, every Close one released.
type verifCountingMux struct {
	addrs   []net.Addr
	handles []*verifPacketConn
	getErr  int // GetConn number getErr (1-based) fails; 0: never
	removed int
}

func (m *verifCountingMux) Close() error { return nil }
func (m *verifCountingMux) GetConn(_ string, addr net.Addr) (net.PacketConn, error) {
	if m.getErr != 0 && len(m.handles)+1 == m.getErr {
		m.getErr = -1
		return nil, errVerifBusy
	}
	h := &verifPacketConn{local: addr}
	m.handles = append(m.handles, h)
	return h, nil
}
func (m *verifCountingMux) RemoveConnByUfrag(string)       { m.removed++ }
func (m *verifCountingMux) GetListenAddresses() []net.Addr { return m.addrs }

// Host candidates over a UDP mux: every mux reference the gatherer takes is
// adopted by exactly one candidate or released at once — duplicates (two listen
// addresses that yield the same host candidate: mDNS gather mode, or a rewrite
// rule mapping both to one external address), a refused candidate (gathering
// cancelled) and a failing GetConn included; removing the candidates releases
// each adopted reference exactly once.
func verifC09HostUDPMux() {
	w := verifNewWorld(true, false, 0, 0)
	a := w.a
	a.loop = verifLoop()
	a.gatheringState = GatheringStateGathering
	a.mDNSMode = MulticastDNSModeQueryOnly
	a.mDNSName = "verifhost.local"
	samePort := verifChoice(2) == 1
	p2 := 5001
	if samePort {
		p2 = 5000
	}
	mux := &verifCountingMux{addrs: []net.Addr{
		&net.UDPAddr{IP: net.IPv4(10, 0, 0, 1).To4(), Port: 5000},
		&net.UDPAddr{IP: net.IPv4(10, 0, 0, 2).To4(), Port: p2},
		&net.UDPAddr{IP: net.IPv4(10, 0, 0, 3).To4(), Port: 5002},
	}}
	a.udpMux = mux
	if verifChoice(2) == 1 {
		// every address is published under the one mDNS name: listen addresses
		// with the same port yield the same host candidate
		a.mDNSMode = MulticastDNSModeQueryAndGather
		verifReach("mdns-gather")
	}
	ctx, cancel := context.WithCancel(context.Background())
	defer cancel()
	fault := verifChoice(3)
	switch fault {
	case 1:
		cancel() // the cycle was superseded: every candidate is refused
		verifReach("cancelled")
	case 2:
		mux.getErr = 2
		verifReach("getconn-fails")
	}
	err := a.gatherCandidatesLocalUDPMux(ctx)
	verifAssert((err != nil) == (mux.getErr == -1), "error-iff-the-mux-refused")
	adopted := 0
	for _, h := range mux.handles {
		owners := 0
		for _, l := range a.localCandidates {
			for _, cand := range l {
				if verifBaseOf(cand).conn == net.PacketConn(h) {
					owners++
				}
			}
		}
		verifAssert(owners <= 1, "a-mux-reference-belongs-to-at-most-one-candidate")
		if owners == 1 {
			adopted++
			verifAssert(h.closed == 0, "an-adopted-mux-reference-stays-open")
		} else {
			verifAssert(h.closed == 1, "a-mux-reference-that-no-candidate-adopted-is-released-at-once-exactly-once")
		}
	}
	if fault == 0 {
		want := 3
		if samePort && a.mDNSMode == MulticastDNSModeQueryAndGather {
			want = 2
			verifReach("duplicate-skipped")
		}
		verifAssert(adopted == want, "one-candidate-per-distinct-host-config")
	}
	if fault == 1 {
		verifAssert(adopted == 0, "a-superseded-cycle-adds-nothing")
	}
	a.deleteAllCandidates()
	for _, h := range mux.handles {
		verifAssert(h.closed == 1, "after-removal-every-mux-reference-was-released-exactly-once")
	}
	verifReach("done")
}
