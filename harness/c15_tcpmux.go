package ice

// C15 — TCP mux routes connections by ufrag and cleans up after itself
// (sequential part: admission and routing of one accepted connection).

import (
	"context"
	"io"
	"net"
	"runtime"
	"sync"
	"sync/atomic"
	"time"

	"github.com/pion/stun/v3"
)

func init() {
	verifRegister("verifC15HandleConn", verifC15HandleConn)
	verifRegister("verifC15TwoPeers", verifC15TwoPeers)
	verifRegister("verifC15CloseWithFullQueue", verifC15CloseWithFullQueue)
	verifRegister("verifC15RemoveThenGet", verifC15RemoveThenGet)
	verifRegister("verifC15CloseWithLateClient", verifC15CloseWithLateClient)
}

type verifListener struct {
	ch     chan net.Conn
	closed int
	addr   net.Addr
}

func (l *verifListener) Accept() (net.Conn, error) {
	c, ok := <-l.ch
	if !ok {
		return nil, io.EOF
	}
	return c, nil
}
func (l *verifListener) Close() error {
	l.closed++
	if l.closed == 1 {
		close(l.ch)
	}
	return nil
}
func (l *verifListener) Addr() net.Addr { return l.addr }

type verifTCPConn struct {
	verifStreamConn
	localTCP *net.TCPAddr
}

func (c *verifTCPConn) LocalAddr() net.Addr { return c.localTCP }

func verifFrame(b []byte) []byte {
	return append([]byte{byte(len(b) >> 8), byte(len(b))}, b...)
}

func verifC15HandleConn() {
	lst := &verifListener{ch: make(chan net.Conn, 1), addr: &net.TCPAddr{IP: net.IPv4(10, 0, 0, 1).To4(), Port: 4000}}
	m := NewTCPMuxDefault(TCPMuxParams{Listener: lst, Logger: verifNopLogger{}, ReadBufferSize: 8, AliveDurationForConnFromStun: 400 * time.Millisecond})
	localIP := net.IPv4(10, 0, 0, 1).To4()

	// optionally the agent already asked for this ufrag's connection
	preRegistered := verifChoice(2) == 1
	var handle net.PacketConn
	if preRegistered {
		var err error
		handle, err = m.GetConnByUfrag("u0", false, localIP)
		verifAssert(err == nil && handle != nil, "GetConnByUfrag-ok")
	}

	txid := verifTxID()
	var first []byte
	wantUfrag := ""
	good := false
	kind := verifChoice(8)
	switch kind {
	case 0, 1: // well-formed Binding request, known or unknown ufrag
		wantUfrag = []string{"u0", "zz"}[kind]
		msg, err := stun.Build(stun.BindingRequest, stun.NewTransactionIDSetter(txid), stun.NewUsername(wantUfrag+":peer"), PriorityAttr(verifU32()))
		verifAssert(err == nil, "build")
		first = verifFrame(msg.Raw)
		good = true
	case 2: // Binding without USERNAME
		msg, _ := stun.Build(stun.BindingRequest, stun.NewTransactionIDSetter(txid), PriorityAttr(1))
		first = verifFrame(msg.Raw)
	case 3: // not Binding
		msg, _ := stun.Build(stun.NewType(stun.MethodAllocate, stun.ClassRequest), stun.NewTransactionIDSetter(txid), stun.NewUsername("u0:peer"))
		first = verifFrame(msg.Raw)
	case 4: // arbitrary 20-byte header (symbolic type, length, cookie, id)
		first = verifFrame(verifBytes(20))
	case 5: // oversized first frame (> 512 bytes announced)
		first = []byte{0x02, 0x58, 1, 2, 3}
	case 6: // stream ends inside the first frame
		first = []byte{0x00, 0x10, 1, 2}
	case 7: // nothing arrives (timeout/EOF)
		first = nil
	}
	// a second, ordinary packet behind the first frame
	second := verifBytes(3)
	stream := append(append([]byte{}, first...), verifFrame(second)...)
	if kind >= 5 {
		stream = first
	}
	remote := &net.TCPAddr{IP: net.IPv4(20, 0, 0, 7).To4(), Port: 7007}
	connLocalIP := localIP
	if verifChoice(2) == 1 {
		// a dual-stack listener reports IPv4 peers with 16-byte addresses: still IPv4
		remote = &net.TCPAddr{IP: net.IPv4(20, 0, 0, 7), Port: 7007}
		connLocalIP = net.IPv4(10, 0, 0, 1)
		verifReach("ipv4-in-16-byte-form")
	}
	conn := &verifTCPConn{localTCP: &net.TCPAddr{IP: connLocalIP, Port: 4000}}
	conn.data, conn.failAt, conn.remote, conn.partial = stream, -1, remote, 2
	if kind < 5 {
		conn.hold = make(chan struct{}) // the peer stays connected after its packets
	}

	m.handleConn(conn)
	verifRunGoroutines()

	var pc *tcpPacketConn
	if byIP, ok := m.connsIPv4[wantUfrag]; ok && wantUfrag != "" {
		pc = byIP[ipAddr(localIP.String())]
	}
	attached := false
	for _, byIP := range m.connsIPv4 {
		for _, p := range byIP {
			if _, ok := p.conns[remote.String()]; ok {
				attached = true
				verifAssert(p == pc, "attached-only-to-the-packet-conn-of-its-ufrag,family,local-address")
			}
		}
	}
	for _, byIP := range m.connsIPv6 {
		verifAssert(len(byIP) == 0, "IPv4-peer-never-lands-in-the-IPv6-table")
	}

	if kind == 4 {
		// a header-only message can be Binding but carries no USERNAME
		good = false
	}
	if !good {
		verifReach("rejected")
		verifAssert(conn.closed >= 1 && !attached, "late,oversized,non-Binding-or-USERNAME-less-first-frame=>connection-closed")
		if !preRegistered {
			verifAssert(len(m.connsIPv4) == 0, "rejected-connection-creates-no-packet-conn")
		}
		return
	}
	verifReach("admitted")
	verifAssert(attached && pc != nil && conn.closed == 0, "well-formed-first-frame=>attached,not-closed")
	if pc == nil {
		return
	}
	if preRegistered && wantUfrag == "u0" {
		verifReach("known-ufrag")
		verifAssert(verifUnderlyingTCP(handle) == pc, "known-ufrag=>the-agent's-packet-conn")
	} else {
		verifReach("unknown-ufrag")
		verifAssert(pc.aliveTimer != nil, "unknown-ufrag=>provisional-packet-conn-with-expiry-armed")
	}
	// the first message and the later packet arrive there, in order, with the peer's address
	buf := make([]byte, 600)
	n, addr, err := pc.readFromContext(context.Background(), buf)
	verifAssert(err == nil && verifBytesEq(buf[:n], first[2:]) && addr.String() == remote.String(), "first-message-delivered-with-the-peer-address")
	n, addr, err = pc.readFromContext(context.Background(), buf)
	verifAssert(err == nil && verifBytesEq(buf[:n], second) && addr.String() == remote.String(), "later-packets-delivered-in-order")
	// replies to that address go back over the same TCP connection, framed
	reply := verifBytes(2)
	wn, werr := pc.WriteTo(reply, remote)
	verifAssert(werr == nil && wn == 2 && len(conn.written) == 1 && verifBytesEq(conn.written[0], verifFrame(reply)), "reply-goes-back-over-the-same-connection,framed")
	_, werr = pc.WriteTo(reply, &net.TCPAddr{IP: net.IPv4(20, 0, 0, 8).To4(), Port: 1})
	verifAssert(werr != nil && len(conn.written) == 1, "reply-to-an-unknown-peer-fails")

	// provisional connections expire
	if !(preRegistered && wantUfrag == "u0") {
		{
			fired := verifFireAfterFuncs()
			verifRunGoroutines()
			verifReach("expired")
			verifAssert(conn.closed >= 1, "provisional-conn-expires-and-closes-its-TCP-connection")
			verifAssert(len(m.connsIPv4[wantUfrag]) == 0, "expired-provisional-conn-is-removed")
			verifAssert(fired != 0, "the-expiry-was-armed")
			return
		}
	}
	// Close stops the listener and closes every TCP connection
	verifAssert(m.Close() == nil, "mux-close-ok")
	verifRunGoroutines()
	verifAssert(lst.closed == 1, "listener-closed")
	verifAssert(conn.closed >= 1, "mux-close-closes-every-TCP-connection")
	verifAssert(len(m.connsIPv4) == 0, "mux-close-forgets-every-packet-conn")
	_, gerr := m.GetConnByUfrag("u0", false, localIP)
	verifAssert(gerr == io.ErrClosedPipe, "closed-mux-hands-out-nothing")
	verifReach("done")
}

// Two connections naming the same ufrag nobody registered: the provisional
// packet conn still expires (taking both TCP connections with it) unless the
// agent claims the ufrag in the meantime.
func verifC15TwoPeers() {
	lst := &verifListener{ch: make(chan net.Conn, 1), addr: &net.TCPAddr{IP: net.IPv4(10, 0, 0, 1).To4(), Port: 4000}}
	m := NewTCPMuxDefault(TCPMuxParams{Listener: lst, Logger: verifNopLogger{}, ReadBufferSize: 1, AliveDurationForConnFromStun: 400 * time.Millisecond})
	localIP := net.IPv4(10, 0, 0, 1).To4()
	mk := func(i int) *verifTCPConn {
		msg, err := stun.Build(stun.BindingRequest, stun.NewTransactionIDSetter(verifTxID()), stun.NewUsername("zz:peer"), PriorityAttr(verifU32()))
		verifAssert(err == nil, "build")
		conn := &verifTCPConn{localTCP: &net.TCPAddr{IP: localIP, Port: 4000}}
		conn.data, conn.failAt, conn.partial = verifFrame(msg.Raw), -1, 0
		conn.remote = &net.TCPAddr{IP: net.IPv4(20, 0, 0, byte(7+i)).To4(), Port: 7007 + i}
		conn.hold = make(chan struct{})
		return conn
	}
	c1, c2 := mk(0), mk(1)
	m.handleConn(c1)
	verifRunGoroutines()
	m.handleConn(c2)
	verifRunGoroutines()
	byIP := m.connsIPv4["zz"]
	verifAssert(len(byIP) == 1, "one-provisional-packet-conn-for-the-ufrag")
	pc := byIP[ipAddr(localIP.String())]
	verifAssert(pc != nil && len(pc.conns) == 2 && c1.closed == 0 && c2.closed == 0, "both-connections-attached-to-it")
	if pc == nil {
		return
	}
	// the receive queue holds one packet: the second peer's first message has
	// to wait for room, it must not be dropped
	buf := make([]byte, 600)
	for k, c := range []*verifTCPConn{c1, c2} {
		verifAssert(len(pc.recvChan) == 1, "a-first-message-is-waiting-in-the-queue")
		if len(pc.recvChan) == 0 {
			return // reading would block for ever
		}
		n, addr, err := pc.readFromContext(context.Background(), buf)
		verifRunGoroutines()
		verifAssert(err == nil && verifBytesEq(buf[:n], c.data[2:]) && addr.String() == c.remote.String(), "every-peer's-first-message-is-delivered-with-its-address(queue-full-or-not)")
		_ = k
	}
	claimed := verifChoice(2) == 1
	if claimed {
		h, err := m.GetConnByUfrag("zz", false, localIP)
		verifAssert(err == nil && verifUnderlyingTCP(h) == pc, "the-agent-gets-the-provisional-conn")
		verifReach("claimed")
	}
	fired := verifFireAfterFuncs()
	verifRunGoroutines()
	if claimed {
		verifAssert(fired <= 0 && c1.closed == 0 && c2.closed == 0 && len(m.connsIPv4["zz"]) == 1, "claimed-conn-does-not-expire")
	} else {
		verifReach("expired")
		verifAssert(c1.closed >= 1 && c2.closed >= 1, "unclaimed-provisional-conn-expires-and-closes-every-attached-TCP-connection(second-connection-included)")
		verifAssert(len(m.connsIPv4["zz"]) == 0, "expired-provisional-conn-is-removed")
		verifAssert(fired != 0, "the-expiry-was-armed")
	}
	verifReach("done")
}

func verifUnderlyingTCP(h net.PacketConn) *tcpPacketConn {
	sp, _ := h.(*sharedPacketConn)
	if sp == nil {
		return nil
	}
	c, _ := sp.underlying.(*tcpPacketConn)
	return c
}

// Close of a TCP packet conn returns although its receive queue is full and
// nobody reads: the per-connection reader parked on the full queue is released
// by the close, every TCP connection is closed, and Close comes back only after
// the reader goroutines have ended. Explored over thread schedules.
func verifC15CloseWithFullQueue() {
	t := newTCPPacketConn(tcpPacketParams{ReadBuffer: 1, Logger: verifNopLogger{}, LocalAddr: verifAddr{"10.0.0.1:1"}})
	var ended atomic.Int32
	mk := func(i int, frames int) *verifStreamConn {
		var stream []byte
		for k := 0; k < frames; k++ {
			stream = append(stream, verifFrame([]byte{byte(i), byte(k)})...)
		}
		return &verifStreamConn{data: stream, failAt: -1, remote: verifAddr{[]string{"20.0.0.7:7", "20.0.0.8:8"}[i]}, hold: make(chan struct{})}
	}
	c1 := mk(0, 1+verifChoice(2))
	verifAssert(t.AddConn(c1, []byte{9, 9}) == nil, "AddConn-ok")
	var c2 *verifStreamConn
	if verifChoice(2) == 1 {
		c2 = mk(1, 1)
		verifAssert(t.AddConn(c2, nil) == nil, "AddConn-ok")
	}
	for n := verifChoice(4); n > 0; n-- { // let the readers fill the queue and park
		runtime.Gosched()
	}
	if len(t.recvChan) == 1 {
		verifReach("queue-full-at-close")
	}
	verifAssert(t.Close() == nil, "Close-returns") // a Close that never returns is a deadlock outcome
	verifAssert(c1.closed >= 1 && (c2 == nil || c2.closed >= 1), "Close-closes-every-TCP-connection")
	verifAssert(verifQuiesce() == 0, "Close-returns-only-after-the-reader-goroutines-ended")
	_ = ended.Load()
	verifReach("done")
}

// Interleavings of RemoveConnByUfrag and GetConnByUfrag: the agent asks for a
// ufrag's packet conn, removes the ufrag and asks again (restart with the same
// ufrag, or a new agent reusing it). The close watcher of the FIRST conn runs
// at any moment: it must not unregister or close the second one. Afterwards a
// peer naming the ufrag is attached to the conn the agent holds. Close returns.
func verifC15RemoveThenGet() {
	lst := &verifListener{ch: make(chan net.Conn, 1), addr: &net.TCPAddr{IP: net.IPv4(10, 0, 0, 1).To4(), Port: 4000}}
	m := NewTCPMuxDefault(TCPMuxParams{Listener: lst, Logger: verifNopLogger{}, ReadBufferSize: 8, AliveDurationForConnFromStun: 400 * time.Millisecond})
	localIP := net.IPv4(10, 0, 0, 1).To4()
	h1, err := m.GetConnByUfrag("u0", false, localIP)
	verifAssert(err == nil && h1 != nil, "GetConnByUfrag-ok")
	first := verifUnderlyingTCP(h1)
	m.RemoveConnByUfrag("u0")
	for n := verifChoice(3); n > 0; n-- {
		runtime.Gosched()
	}
	h2, err := m.GetConnByUfrag("u0", false, localIP)
	verifAssert(err == nil && h2 != nil, "GetConnByUfrag-after-removal-ok")
	second := verifUnderlyingTCP(h2)
	verifAssert(second != nil && second != first, "a-fresh-packet-conn-after-removal")
	verifLetOthersRun() // every woken watcher has run
	m.mu.Lock()
	still := m.connsIPv4["u0"][ipAddr(localIP.String())]
	m.mu.Unlock()
	verifAssertKnown(still == second, "the-first-conn's-close-watcher-does-not-unregister-its-successor", "C15-stale-watcher-removes-successor", true)
	closed := false
	select {
	case <-second.CloseChannel():
		closed = true
	default:
	}
	verifAssertKnown(!closed, "the-successor-is-not-closed-by-the-first-conn's-watcher", "C15-stale-watcher-removes-successor", true)
	verifAssert(m.Close() == nil, "mux-close-ok")
	verifReach("done")
}

// verifLateConn: a client that connects, stays silent until the gate opens and
// then sends its (valid) first frame.
type verifLateConn struct {
	verifTCPConn
	gate  chan struct{}
	gated bool
}

func (c *verifLateConn) Read(p []byte) (int, error) {
	if !c.gated {
		c.gated = true
		<-c.gate
	}
	return c.verifTCPConn.Read(p)
}

// Close while a client is connected that has not sent its first frame yet; the
// frame arrives while Close is in progress. Whatever the interleaving: once
// Close has returned nothing is attached to the closed mux and the client's
// connection is closed (a closed mux hands out nothing).
func verifC15CloseWithLateClient() {
	lst := &verifListener{ch: make(chan net.Conn, 1), addr: &net.TCPAddr{IP: net.IPv4(10, 0, 0, 1).To4(), Port: 4000}}
	m := NewTCPMuxDefault(TCPMuxParams{Listener: lst, Logger: verifNopLogger{}, ReadBufferSize: 8, AliveDurationForConnFromStun: 400 * time.Millisecond})
	localIP := net.IPv4(10, 0, 0, 1).To4()
	msg, err := stun.Build(stun.BindingRequest, stun.NewTransactionIDSetter(verifTxID()), stun.NewUsername("zz:peer"), PriorityAttr(verifU32()))
	verifAssert(err == nil, "build")
	conn := &verifLateConn{gate: make(chan struct{})}
	conn.localTCP = &net.TCPAddr{IP: localIP, Port: 4000}
	conn.data, conn.failAt, conn.remote = verifFrame(msg.Raw), -1, &net.TCPAddr{IP: net.IPv4(20, 0, 0, 7).To4(), Port: 7007}
	conn.hold = make(chan struct{})
	lst.ch <- conn
	for n := 1 + verifChoice(3); n > 0; n-- { // the accept loop picks the client up
		runtime.Gosched()
	}
	var wg sync.WaitGroup
	wg.Add(1)
	go func() { defer wg.Done(); verifAssert(m.Close() == nil, "Close-returns-nil") }()
	for n := verifChoice(3); n > 0; n-- {
		runtime.Gosched()
	}
	close(conn.gate) // the first frame arrives now
	verifLetOthersRun()
	if conn.gated {
		verifReach("frame-arrived-while-closing")
	}
	m.mu.Lock()
	closing := m.closed
	attached := len(m.connsIPv4) + len(m.connsIPv6)
	m.mu.Unlock()
	verifAssertKnown(!(closing && attached > 0), "nothing-is-attached-to-a-mux-that-is-closed", "C15-first-frame-after-close-attaches", true)
	verifFireAfterFuncs() // (a provisional conn attached by mistake expires, so that Close can finish)
	wg.Wait()
	verifLetOthersRun()
	verifAssert(conn.closed >= 1, "the-client's-connection-is-closed")
	verifReach("done")
}
