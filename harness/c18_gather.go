package ice

// C18 — gathering produces exactly the candidates the configuration allows.

import (
	"context"
	"net"
	"net/netip"
	"time"

	"github.com/pion/stun/v3"
	"github.com/pion/transport/v4"
)

func init() {
	verifRegister("verifC18IPv6Filter", verifC18IPv6Filter)
	verifRegister("verifC18LocalInterfaces", verifC18LocalInterfaces)
	verifRegister("verifC18PortRange", verifC18PortRange)
	verifRegister("verifC18GatherHost", verifC18GatherHost)
	verifRegister("verifC18Cycle", verifC18Cycle)
	verifRegister("verifC18SrflxBase", verifC18SrflxBase)
}

// (a) the address-class predicates for all 2^128 IPv6 addresses.
func verifC18IPv6Filter() {
	b := verifBytes(16)
	got := isSupportedIPv6Partial(net.IP(b))
	zeros := true
	for i := 0; i < 12; i++ {
		zeros = verifAnd(zeros, b[i] == 0)
	}
	siteLocal := verifAnd(b[0] == 0xfe, b[1]&0xc0 == 0xc0)
	verifAssert(got == verifNot(verifOr(zeros, siteLocal)), "supported=not(IPv4-compatible-::/96)and-not(site-local-fec0::/10)")
	var a16 [16]byte
	copy(a16[:], b)
	addr := netip.AddrFrom16(a16)
	lt := shouldFilterLocationTrackedIP(addr)
	v4mapped := true
	for i := 0; i < 10; i++ {
		v4mapped = verifAnd(v4mapped, b[i] == 0)
	}
	v4mapped = verifAnd(v4mapped, verifAnd(b[10] == 0xff, b[11] == 0xff))
	linkLocalUni := verifAnd(b[0] == 0xfe, b[1]&0xc0 == 0x80)
	linkLocalMulti := verifAnd(b[0] == 0xff, b[1]&0x0f == 0x02)
	// IPv4-mapped addresses are judged as their IPv4 address (169.254/16, 224.0.0/24)
	mappedLL := verifAnd(v4mapped, verifOr(verifAnd(b[12] == 169, b[13] == 254), verifAnd(b[12] == 224, verifAnd(b[13] == 0, b[14] == 0))))
	verifAssert(lt == verifOr(verifOr(linkLocalUni, linkLocalMulti), mappedLL), "location-tracked=link-local-fe80::/10-or-ff?2::/16(or-mapped-IPv4-link-local)")
	verifAssert(verifNot(isSupportedIPv6Partial(net.IP(b[:4]))), "4-byte-input-is-not-a-supported-IPv6-address")
	verifReach("done")
}

type verifIfaceAddr struct {
	iface string
	ip    net.IP
	v6    bool
	up    bool
	loopI bool // interface has the loopback flag
}

var verifIfaceNames = []string{"eth0", "wlan0"}

func verifNetTypes(k int) []NetworkType {
	switch k {
	case 0:
		return nil // documented meaning: all
	case 1:
		return []NetworkType{NetworkTypeUDP4}
	case 2:
		return []NetworkType{NetworkTypeUDP6}
	case 3:
		return []NetworkType{NetworkTypeUDP4, NetworkTypeUDP6}
	case 5:
		return []NetworkType{NetworkTypeUDP4, NetworkTypeTCP6} // mixed: IPv6 only over TCP
	default:
		return []NetworkType{NetworkTypeTCP4}
	}
}

// verifBuildNet: nIf interfaces with symbolic flags, each with one IPv4 and
// one IPv6 address whose bytes are partly symbolic.
func verifBuildNet(nIf int) (*verifNet, []verifIfaceAddr) { return verifBuildNetK(nIf, true) }

var verifV6Pool = []net.IP{net.ParseIP("2001:db8::9:0:0:1"), net.ParseIP("fe80::9:0:0:1"), net.ParseIP("fec0::9:0:0:1"), net.ParseIP("ff02::9:0:0:1")}

// symbolicBytes=false: addresses are case-split over small concrete pools
// (used where the code formats addresses as text).
func verifBuildNetK(nIf int, symbolicBytes bool) (*verifNet, []verifIfaceAddr) {
	n := &verifNet{}
	var all []verifIfaceAddr
	for i := 0; i < nIf; i++ {
		up, loop := verifBool(), verifBool()
		var flags net.Flags
		if up {
			flags |= net.FlagUp
		}
		if loop {
			flags |= net.FlagLoopback
		}
		ifc := transport.NewInterface(net.Interface{Index: i + 1, Name: verifIfaceNames[i], Flags: flags})
		// IPv4: 10.0.<i>.x or loopback 127.0.0.x
		last := byte(5)
		if symbolicBytes {
			last = verifU8()
		} else if verifChoice(2) == 1 {
			last = 6
		}
		v4 := net.IP{10, 0, byte(i), last}
		if verifChoice(2) == 1 {
			v4 = net.IP{127, 0, 0, last}
		}
		ifc.AddAddress(&net.IPNet{IP: v4, Mask: net.CIDRMask(24, 32)})
		all = append(all, verifIfaceAddr{iface: verifIfaceNames[i], ip: v4, up: up, loopI: loop})
		// IPv6: first two bytes symbolic (global, link-local, site-local, ...), rest fixed non-zero
		v6 := make(net.IP, 16)
		if symbolicBytes {
			v6[0], v6[1] = verifU8(), verifU8()
			v6[15] = byte(1 + i)
			v6[7] = 9
		} else {
			copy(v6, verifV6Pool[verifChoice(len(verifV6Pool))])
		}
		ifc.AddAddress(&net.IPNet{IP: v6, Mask: net.CIDRMask(64, 128)})
		all = append(all, verifIfaceAddr{iface: verifIfaceNames[i], ip: v6, v6: true, up: up, loopI: loop})
		n.ifaces = append(n.ifaces, ifc)
	}
	return n, all
}

// oracle for one address
func verifAddrEligible(x verifIfaceAddr, nts []NetworkType, includeLoopback bool, rejectIface string, rejectLast byte) bool {
	v4req, v6req := len(nts) == 0, len(nts) == 0
	for _, t := range nts {
		if t == NetworkTypeUDP4 || t == NetworkTypeTCP4 {
			v4req = true
		}
		if t == NetworkTypeUDP6 || t == NetworkTypeTCP6 {
			v6req = true
		}
	}
	ok := x.up
	ok = verifAnd(ok, verifOr(!x.loopI, includeLoopback))
	ok = verifAnd(ok, x.iface != rejectIface)
	if x.v6 {
		isLoop := false // ::1 cannot occur (byte 7 is 9)
		_ = isLoop
		zeros12 := verifAnd(x.ip[0] == 0, x.ip[1] == 0) && false // bytes 7 is non-zero: never IPv4-compatible
		_ = zeros12
		siteLocal := verifAnd(x.ip[0] == 0xfe, x.ip[1]&0xc0 == 0xc0)
		ok = verifAnd(ok, verifAnd(v6req, verifNot(siteLocal)))
	} else {
		isLoop := x.ip[0] == 127
		ok = verifAnd(ok, verifAnd(v4req, verifOr(!isLoop, includeLoopback)))
	}
	ok = verifAnd(ok, x.ip[len(x.ip)-1] != rejectLast)
	return ok
}

// (b) localInterfaces returns exactly the eligible addresses.
func verifC18LocalInterfaces() {
	n, all := verifBuildNet(1 + verifTier())
	nts := verifNetTypes(verifChoice(5))
	includeLoopback := verifBool()
	rejectIface := []string{"", "eth0"}[verifChoice(2)]
	rejectLast := verifU8()
	var ifFilter func(string) bool
	if rejectIface != "" {
		ifFilter = func(s string) bool { return s != rejectIface }
	}
	ipFilter := func(ip net.IP) bool { return ip[len(ip)-1] != rejectLast }
	ifaces, addrs, err := localInterfaces(n, ifFilter, ipFilter, nts, includeLoopback)
	verifAssert(err == nil, "no-error")
	for _, x := range all {
		want := verifAddrEligible(x, nts, includeLoopback, rejectIface, rejectLast)
		got := false
		for _, a := range addrs {
			if a.iface == x.iface && a.addr.Is6() == x.v6 {
				got = true
			}
		}
		verifAssert(got == want, "address-returned-iff-eligible(interface-up,loopback-setting,filters,requested-family,not-site-local)")
	}
	verifAssert(len(addrs) <= len(all), "nothing-invented")
	for _, ifc := range ifaces {
		has := false
		for _, a := range addrs {
			if a.iface == ifc.Name {
				has = true
			}
		}
		verifAssert(has, "returned-interfaces-have-an-eligible-address")
	}
	n.ifErr = true
	_, _, err = localInterfaces(n, nil, nil, nts, false)
	verifAssert(err != nil, "interface-enumeration-error-propagates")
	verifReach("done")
}

// (c) the port-range scan.
func verifC18PortRange() {
	width := 1 + verifChoice(3+verifTier())
	minP := verifInt(1, 60000)
	maxP := minP + width - 1
	mode := verifChoice(4)
	pMin, pMax := minP, maxP
	switch mode {
	case 1: // defaults
		pMin, pMax = 0, 0
	case 2: // inverted
		pMin, pMax = maxP+1, minP
	case 3: // only min given, tiny range at the top
		pMin, pMax = 65535-width+1, 0
		minP, maxP = pMin, 65535
	}
	outcomes := make([]int, width)
	for i := range outcomes {
		outcomes[i] = verifChoice(3)
	}
	n := &verifNet{}
	n.outcome = func(port int) int {
		if port == 0 {
			return 0
		}
		if port >= minP && port <= maxP {
			return verifIteInt(port-minP < len(outcomes), 0, 0) + outcomes[(port-minP)%len(outcomes)]
		}
		return 0
	}
	conn, err := listenUDPInPortRange(n, verifNopLogger{}, pMax, pMin, udp, &net.UDPAddr{IP: net.IPv4(10, 0, 0, 1)})
	switch mode {
	case 1:
		verifReach("defaults")
		verifAssert(err == nil && len(n.listened) == 1 && n.listened[0] == 0, "no-range=>one-ephemeral-listen")
		return
	case 2:
		verifReach("inverted")
		verifAssert(err == ErrPort && conn == nil && len(n.listened) == 0, "min>max-rejected-without-listening")
		return
	}
	anyUnavailable, allBusy := false, true
	for _, o := range outcomes {
		if o == 2 {
			anyUnavailable = true
		}
		if o != 1 {
			allBusy = false
		}
	}
	if err == nil {
		verifReach("bound")
		p := conn.LocalAddr().(*net.UDPAddr).Port
		verifAssert(p >= minP && p <= maxP, "bound-port-inside-the-configured-range")
		verifAssert(outcomes[p-minP] == 0, "bound-port-was-free")
	}
	for _, p := range n.listened {
		verifAssert(p >= minP && p <= maxP, "never-tries-a-port-outside-the-range")
	}
	if err == ErrPort {
		verifReach("exhausted")
		verifAssert(allBusy, "ErrPort-only-when-every-port-is-busy")
		verifAssert(len(n.listened) == width, "ErrPort-only-after-every-port-was-tried-once")
		seen := map[int]bool{}
		for _, p := range n.listened {
			verifAssert(!seen[p], "no-port-tried-twice")
			seen[p] = true
		}
	}
	if err != nil && err != ErrPort {
		verifReach("unavailable")
		verifAssert(anyUnavailable, "other-errors-only-for-unavailable-addresses")
	}
	if allBusy {
		verifAssert(err == ErrPort, "exhausted-range=>ErrPort")
	}
	if !anyUnavailable && !allBusy {
		verifAssert(err == nil, "a-free-port-in-the-range-is-found")
	}
	verifReach("done")
}

// (d) the host path of gatherCandidatesLocal on the fake net.
func verifC18GatherHost() {
	w := verifNewWorld(true, false, 0, 0)
	a := w.a
	a.loop = verifLoop()
	n, all := verifBuildNetK(1, false)
	a.net = n
	// the configured port range may be used up on ONE address (ports are per
	// IP): that address yields no candidate, every other one is unaffected
	busy := verifChoice(3) - 1
	if busy >= 0 {
		n.busyIP = all[busy].ip.String()
		verifReach("port-range-exhausted-on-one-address")
	}
	ntKind := verifChoice(5)
	if ntKind == 4 {
		ntKind = 5 // udp4 + tcp6: no UDP host candidate may appear on an IPv6 address
		verifReach("mixed-transports")
	}
	a.networkTypes = verifNetTypes(ntKind)
	a.includeLoopback = verifBool()
	rejectLast := byte(6 * verifChoice(2)) // IP filter: accept all / reject addresses ending in 6
	a.ipFilter = func(ip net.IP) bool { return ip[len(ip)-1] != rejectLast }
	a.mDNSMode = MulticastDNSModeQueryOnly
	a.mDNSName = "verifhost.local"
	if verifChoice(2) == 1 {
		a.mDNSMode = MulticastDNSModeQueryAndGather
	}
	width := 3
	a.portMin = uint16(verifInt(1024, 60000))
	a.portMax = a.portMin + uint16(width-1)
	a.gatheringState = GatheringStateGathering
	a.gatherCandidatesLocal(context.Background(), a.networkTypes)

	published := w.notifiedCands()
	for xi, x := range all {
		eligible := verifAddrEligible(x, a.networkTypes, a.includeLoopback, "", rejectLast) && xi != busy
		linkLocal := x.v6 && verifAnd(x.ip[0] == 0xfe, x.ip[1]&0xc0 == 0x80)
		linkLocalM := x.v6 && verifAnd(x.ip[0] == 0xff, x.ip[1]&0x0f == 0x02)
		hidden := verifAnd(a.mDNSMode != MulticastDNSModeQueryAndGather, verifOr(linkLocal, linkLocalM))
		want := verifAnd(eligible, verifNot(hidden))
		// this gatherer has no TCP mux: what it publishes are UDP host candidates,
		// so the address family must be enabled for UDP (an enabled TCP type of
		// that family does not count)
		udpFamilyEnabled := len(a.networkTypes) == 0
		for _, t := range a.networkTypes {
			if (t == NetworkTypeUDP6 && x.v6) || (t == NetworkTypeUDP4 && !x.v6) {
				udpFamilyEnabled = true
			}
		}
		want = verifAnd(want, udpFamilyEnabled)
		got := false
		for _, c := range published {
			base := verifBaseOf(c)
			ap := base.resolvedAddrPort.Addr()
			if ap.Is6() == x.v6 && ap.Unmap().Is4() == !x.v6 {
				got = true
				verifAssert(c.Type() == CandidateTypeHost, "host-gatherer-publishes-host-candidates")
				verifAssert(int(a.portMin) <= c.Port() && c.Port() <= int(a.portMax), "host-candidate-port-inside-the-range")
				if a.mDNSMode == MulticastDNSModeQueryAndGather {
					verifAssert(c.Address() == a.mDNSName, "mDNS-gather-mode-exposes-the-mDNS-name")
				} else {
					verifAssert(c.Address() == ap.String(), "address=interface-address")
				}
			}
		}
		// an empty network-type list means all network types (documented on AgentConfig.NetworkTypes)
		verifAssertKnown(got == want, "published-iff-eligible-and-not-link-local(one-host-candidate-per-accepted-address-for-udp)", "C18-empty-network-types", ntKind == 0)
		_ = "C18-host-network-type-cross-product"
	}
	for _, c := range published {
		verifAssert(c != nil, "no-nil-candidate-from-the-host-gatherer")
	}
	// every socket opened is adopted by a candidate or closed
	for _, c := range n.conns {
		adopted := false
		for _, l := range a.localCandidates {
			for _, cand := range l {
				if verifBaseOf(cand).conn == net.PacketConn(c) {
					adopted = true
				}
			}
		}
		verifAssert(adopted || c.closed >= 1, "opened-socket-adopted-or-closed")
	}
	verifReach("done")
}

// (e) cycle control.
func verifC18Cycle() {
	w := verifNewWorld(true, false, 0, 0)
	a := w.a
	a.loop = verifLoop()
	a.net = &verifNet{}
	state := GatheringState(verifInt(int(GatheringStateNew), int(GatheringStateComplete)))
	a.gatheringState = state
	hasHandler := verifChoice(2) == 1
	if hasHandler {
		verifAssert(a.OnCandidate(func(Candidate) {}) == nil, "handler")
	}
	cancelled := 0
	a.gatherCandidateCancel = func() { cancelled++ }
	err := a.GatherCandidates()
	switch {
	case state != GatheringStateNew:
		verifReach("refused")
		verifAssert(err == ErrMultipleGatherAttempted && cancelled == 0 && a.gatherCandidateDone == nil, "gather-refused-once-the-state-left-New")
	case !hasHandler:
		verifAssert(err == ErrNoOnCandidateHandler && cancelled == 0, "gather-needs-a-candidate-handler")
	default:
		verifReach("started")
		verifAssert(err == nil && cancelled == 1 && a.gatherCandidateDone != nil, "previous-cycle-cancelled,new-cycle-started")
	}

	// setGatheringState: a cancelled cycle changes nothing and emits nothing;
	// exactly one nil candidate on the edge into Complete
	w2 := verifNewWorld(true, false, 0, 0)
	b := w2.a
	b.loop = verifLoop()
	b.gatheringState = GatheringState(verifInt(int(GatheringStateNew), int(GatheringStateComplete)))
	before := b.gatheringState
	ctx, cancel := context.WithCancel(context.Background())
	isCancelled := verifChoice(2) == 1
	if isCancelled {
		cancel()
	}
	target := GatheringStateGathering
	if verifChoice(2) == 1 {
		target = GatheringStateComplete
	}
	applied, e2 := b.setGatheringState(ctx, target)
	verifAssert(e2 == nil, "setGatheringState-ok")
	cs := w2.notifiedCands()
	if isCancelled {
		verifReach("cancelled-cycle")
		verifAssert(!applied && b.gatheringState == before && len(cs) == 0, "cancelled-cycle-changes-and-emits-nothing")
	} else {
		verifAssert(applied && b.gatheringState == target, "live-cycle-applies-the-state")
		wantNil := target == GatheringStateComplete && before != GatheringStateComplete
		if wantNil {
			verifReach("complete")
			verifAssert(len(cs) == 1 && cs[0] == nil, "exactly-one-nil-candidate-on-the-edge-into-Complete")
		} else {
			verifAssert(len(cs) == 0, "no-candidate-event-otherwise")
		}
	}
	cancel()

	// Restart cancels the cycle and returns to New
	cancelled = 0
	a.gatherCandidateCancel = func() { cancelled++ }
	a.gatheringState = GatheringStateGathering
	verifAssert(a.Restart("freshufrag", "freshpasswordfreshpasswd") == nil, "restart-ok")
	verifAssert(cancelled == 1 && a.gatheringState == GatheringStateNew, "restart-cancels-the-cycle-and-returns-to-New")
	_ = time.Second
	verifReach("done")
}

// (d') the base of server-reflexive candidates: when the agent opens the STUN
// socket itself it binds it on an address the interface/IP filters accept —
// with the interface filter alone, the IP filter alone or both — and only
// without any filter on the wildcard address.
type verifC18SrflxNet struct {
	verifSrflxNet
	asked []*net.UDPAddr
}

func (n *verifC18SrflxNet) ListenUDP(network string, a *net.UDPAddr) (transport.UDPConn, error) {
	n.asked = append(n.asked, a)
	c, err := n.verifSrflxNet.ListenUDP(network, a)
	if sc, ok := c.(*verifSTUNConn); ok && a != nil && a.IP != nil {
		sc.local = &net.UDPAddr{IP: a.IP, Port: sc.port}
	}
	return c, err
}

func verifC18SrflxBase() {
	w := verifNewWorld(true, false, 0, 0)
	a := w.a
	a.loop = verifLoop()
	n := &verifC18SrflxNet{}
	for i, ip := range []string{"10.0.0.1", "10.0.0.2"} {
		ifc := transport.NewInterface(net.Interface{Index: i + 1, Name: verifIfaceNames[i], Flags: net.FlagUp})
		ifc.AddAddress(&net.IPNet{IP: net.ParseIP(ip).To4(), Mask: net.CIDRMask(24, 32)})
		n.ifaces = append(n.ifaces, ifc)
	}
	a.net = n
	a.stunGatherTimeout = time.Second
	useIfFilter, useIPFilter := verifChoice(2) == 1, verifChoice(2) == 1
	if useIfFilter {
		a.interfaceFilter = func(name string) bool { return name == verifIfaceNames[0] }
	}
	if useIPFilter {
		a.ipFilter = func(ip net.IP) bool { return !ip.Equal(net.ParseIP("10.0.0.2")) }
	}
	url, err := stun.ParseURI("stun:stun.example.org:3478")
	verifAssert(err == nil, "uri")
	a.gatherCandidatesSrflx(context.Background(), []*stun.URI{url}, []NetworkType{NetworkTypeUDP4})
	verifRunGoroutines()
	verifAssert(len(n.asked) >= 1, "a-socket-is-opened")
	filtered := useIfFilter || useIPFilter
	for _, ask := range n.asked {
		if filtered {
			verifReach("filtered")
			verifAssert(ask.IP != nil && !ask.IP.IsUnspecified(), "with-a-filter-the-STUN-socket-is-not-bound-to-the-wildcard-address")
			verifAssert(ask.IP.Equal(net.ParseIP("10.0.0.1")), "the-STUN-socket-is-bound-on-an-address-the-filters-accept")
		} else {
			verifReach("unfiltered")
		}
	}
	for _, cs := range a.localCandidates {
		for _, c := range cs {
			verifReach("published")
			verifAssert(c.Type() == CandidateTypeServerReflexive, "only-srflx-candidates-come-out-of-this-gatherer")
			if filtered {
				ra := c.RelatedAddress()
				verifAssert(ra != nil && ra.Address == "10.0.0.1", "the-base-of-the-published-candidate-is-an-accepted-address")
			}
		}
	}
	a.deleteAllCandidates()
	verifReach("done")
}
