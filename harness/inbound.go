package ice

// One inbound STUN message into the real Agent.handleInbound from a bounded,
// partly symbolic pre-state. Shared by the C02, C03 and C20 lemmas.

import (
	"net/netip"
	"time"

	"github.com/pion/stun/v3"
)

type verifStepCfg struct {
	nLocal, nRemote int
	lite            int  // 0 never, 1 case split
	renomination    bool // nomination attribute may be present
	classes         []stun.MessageClass
	onlyAuth        bool // only correctly authenticated messages (C03/C20 lemmas)
	userHandler     bool
	role            int  // 0 case split, 1 controlling, 2 controlled
	maxPend         int  // 0 => 2
	liteFixed       int  // with lite==0: 1 forces a lite agent
	nominating      bool // controlling: the selector's nominatedPair may be set
	smallPrio       bool // candidate priorities range over 1..256 instead of all 32 bits
	trailing        bool // USE-CANDIDATE / nomination / role attributes are placed AFTER MESSAGE-INTEGRITY (not covered by it)
}

type verifPend struct {
	id   [stun.TransactionIDSize]byte
	dst  netip.AddrPort
	nt   NetworkType
	age  time.Duration
	use  bool
	nom  *uint32
	from int // ghost: index of the local candidate that sent it
}

type verifStep struct {
	w               *verifWorld
	before, after   verifSnap
	class           stun.MessageClass
	method          stun.Method
	userKind        int // 0 absent 1 correct 2 same length, arbitrary bytes 3 other length
	username        string
	keyKind         int // 0 absent 1 local pwd 2 remote pwd 3 other pwd
	useCand         bool
	nomKind         int // 0 absent 1 valid (4 bytes) 2 too short
	nomValue        uint32
	ctrl            int
	id              [stun.TransactionIDSize]byte
	src             netip.AddrPort
	localIdx        int
	controlling     bool
	lite            bool
	pend            []verifPend
	prio            uint32
	selBeforeIdx    int
	nomBefore       *CandidatePair // controlling: the pair being nominated before the step (nil: none)
	confirmedBefore *uint32        // controlling: highest renomination value already confirmed (nil: none)
}

const verifExpectedUsername = verifLocalUfrag + ":" + verifRemoteUfrag

// srcIsRemote: independent oracle for "the datagram came from remote r's
// transport address" (IPv4-mapped sources count as their IPv4 address).
func verifSrcIsRemote(src netip.AddrPort, r Candidate) bool {
	ra := r.addrPort()
	return verifAnd(src.Addr().Unmap() == ra.Addr().Unmap(), src.Port() == ra.Port())
}

func (s *verifStep) knownRemote() (Candidate, bool) {
	for _, r := range s.w.remotes {
		if verifSrcIsRemote(s.src, r) { // forks per remote; each side stays symbolic otherwise
			return r, true
		}
	}
	return nil, false
}

// sourceRemote: the remote candidate standing for the source address after the
// step: a pre-existing one, or the peer-reflexive candidate an authenticated
// request from a new source has just created.
func (s *verifStep) sourceRemote() (Candidate, bool) {
	if r, ok := s.knownRemote(); ok {
		return r, true
	}
	if s.class != stun.ClassRequest {
		return nil, false
	}
	for _, set := range s.w.a.remoteCandidates {
		for _, r := range set {
			isOld := false
			for _, o := range s.w.remotes {
				if o == r {
					isOld = true
				}
			}
			if !isOld && r.Type() == CandidateTypePeerReflexive && verifSrcIsRemote(s.src, r) {
				return r, true
			}
		}
	}
	return nil, false
}

func verifInboundStep(cfg verifStepCfg) *verifStep {
	s := &verifStep{}
	switch cfg.role {
	case 1:
		s.controlling = true
	case 2:
		s.controlling = false
	default:
		s.controlling = verifChoice(2) == 1
	}
	if cfg.lite == 1 {
		s.lite = verifChoice(2) == 1
	} else if cfg.liteFixed == 1 {
		s.lite = true
	}
	w := verifNewWorld(s.controlling, s.lite, cfg.nLocal, cfg.nRemote)
	s.w = w
	a := w.a
	a.tieBreaker = verifU64()
	if cfg.renomination {
		a.enableRenomination = true
	}
	if s.lite {
		a.enableUseCandidateCheckPriority = verifChoice(2) == 1
	}
	w.pairAll()
	// symbolic pair pre-state
	for _, p := range a.checklist {
		p.state = CandidatePairState(verifInt(1, 4))
		p.nominated = verifBool()
		p.nominateOnBindingSuccess = verifBool()
		p.renominateOnBindingSuccess = verifBool()
		verifAssume(verifImplies(p.renominateOnBindingSuccess, p.nominateOnBindingSuccess)) // Inv: a deferred renomination is a deferred nomination
		if cfg.renomination {
			p.deferredNominationValue = verifU32() & 0xFFFFFF // the value that deferred renomination carried
		}
	}
	// priorities: symbolic through the override (candidates keep their real code path)
	prio := func() uint32 {
		if cfg.smallPrio {
			return 1 + uint32(verifU8())
		}
		p := verifU32()
		verifAssume(p != 0)
		return p
	}
	for _, l := range w.locals {
		l.priorityOverride = prio()
	}
	for _, r := range w.remotes {
		verifBaseOf(r).priorityOverride = prio()
	}
	// selection (Inv_sel: a selected pair is listed, Succeeded and nominated)
	s.selBeforeIdx = verifChoice(len(a.checklist)+1) - 1
	if s.selBeforeIdx >= 0 {
		sp := a.checklist[s.selBeforeIdx]
		verifAssume(verifAnd(sp.state == CandidatePairStateSucceeded, sp.nominated))
		a.selectedPair.Store(sp)
		a.connectionState = ConnectionStateConnected
	}
	// a controlling agent may be in the middle of nominating a validated pair
	if cs, ok := a.selector.(*controllingSelector); ok && cfg.nominating {
		if k := verifChoice(len(a.checklist)+1) - 1; k >= 0 {
			np := a.checklist[k]
			verifAssume(verifAnd(np.state == CandidatePairStateSucceeded, np.nominated))
			cs.nominatedPair = np
			s.nomBefore = np
		}
	}
	if cs, ok := a.selector.(*controllingSelector); ok && cfg.renomination && verifChoice(2) == 1 {
		v := verifU32() & 0xFFFFFF
		cs.confirmedNomination = &v // the highest renomination value whose response has been applied
		s.confirmedBefore = &v
	}
	if cs, ok := a.selector.(*controlledSelector); ok && cfg.renomination && verifChoice(2) == 1 {
		v := verifU32() & 0xFFFFFF
		cs.lastNomination = &v
	}

	// outstanding transactions
	now := time.Now()
	maxPend := cfg.maxPend
	if maxPend == 0 {
		maxPend = 2
	}
	nPend := verifChoice(maxPend + 1)
	for i := 0; i < nPend; i++ {
		p := verifPend{id: verifTxID(), from: verifInt(0, cfg.nLocal-1)}
		p.dst = verifSrcV4() // arbitrary destination (may or may not equal a remote)
		p.nt = NetworkType(verifInt(1, 4))
		p.age = time.Duration(verifInt(0, int(20*time.Second)))
		p.use = verifBool()
		if cfg.renomination && verifChoice(2) == 1 {
			v := verifU32() & 0xFFFFFF
			p.nom = &v
		}
		for _, q := range s.pend { // Inv: outstanding transaction ids are pairwise distinct (96-bit random)
			same := true
			for k := range q.id {
				same = verifAnd(same, q.id[k] == p.id[k])
			}
			verifAssume(verifNot(same))
		}
		s.pend = append(s.pend, p)
		a.pendingBindingRequests = append(a.pendingBindingRequests, bindingRequest{
			timestamp: now.Add(-p.age), transactionID: p.id, destination: p.dst, networkType: p.nt,
			isUseCandidate: p.use, nominationValue: p.nom,
		})
	}

	// the message
	s.class = cfg.classes[verifChoice(len(cfg.classes))]
	s.method = stun.MethodBinding
	if !cfg.onlyAuth {
		s.method = stun.Method(verifU16() & 0xFFF) // any 12-bit method, Binding included
	}
	s.id = verifTxID()
	setters := []stun.Setter{stun.NewType(s.method, s.class), stun.NewTransactionIDSetter(s.id)}
	switch {
	case cfg.onlyAuth:
		s.userKind = 1
	case s.class == stun.ClassRequest:
		s.userKind = verifChoice(4)
	default:
		s.userKind = verifChoice(2) // USERNAME is only meaningful on requests
	}
	switch s.userKind {
	case 1:
		s.username = verifExpectedUsername
	case 2:
		s.username = verifString(len(verifExpectedUsername))
	case 3:
		s.username = verifString(len(verifExpectedUsername) - 1)
	}
	if s.userKind != 0 {
		setters = append(setters, stun.NewUsername(s.username))
	}
	var trailing []stun.Setter
	add := func(x stun.Setter) {
		if cfg.trailing {
			trailing = append(trailing, x)
		} else {
			setters = append(setters, x)
		}
	}
	s.useCand = verifChoice(2) == 1
	if s.useCand {
		add(UseCandidate())
	}
	if cfg.renomination {
		s.nomKind = verifChoice(2 + verifTier())
		switch s.nomKind {
		case 1:
			s.nomValue = verifU32() & 0xFFFFFF
			add(NominationSetter{Value: s.nomValue, AttrType: DefaultNominationAttribute})
		case 2:
			add(stun.RawAttribute{Type: DefaultNominationAttribute, Value: []byte{1, 2}})
		}
	}
	// role attribute of the opposite role (no conflict); conflicts are C05
	if s.class == stun.ClassRequest && (!cfg.onlyAuth || cfg.trailing) {
		s.ctrl = verifChoice(2 + verifB2I(cfg.trailing))
	}
	switch s.ctrl {
	case 1:
		if s.controlling {
			add(AttrControlled(verifU64()))
		} else {
			add(AttrControlling(verifU64()))
		}
	case 2: // (trailing only) the receiver's OWN role: would be a role conflict if it were honoured
		if s.controlling {
			add(AttrControlling(verifU64()))
		} else {
			add(AttrControlled(verifU64()))
		}
	}
	s.prio = verifU32()
	setters = append(setters, PriorityAttr(s.prio))
	if cfg.onlyAuth {
		if s.class == stun.ClassRequest {
			s.keyKind = 1
		} else {
			s.keyKind = 2
		}
	} else if s.class == stun.ClassErrorResponse || s.class == stun.ClassIndication {
		s.keyKind = verifChoice(2) * 2 // absent or remote password
	} else {
		s.keyKind = verifChoice(4)
	}
	switch s.keyKind {
	case 1:
		setters = append(setters, stun.NewShortTermIntegrity(verifLocalPwd))
	case 2:
		setters = append(setters, stun.NewShortTermIntegrity(verifRemotePwd))
	case 3:
		setters = append(setters, stun.NewShortTermIntegrity(verifOtherPwd))
	}
	setters = append(setters, trailing...) // behind MESSAGE-INTEGRITY: not authenticated
	setters = append(setters, stun.Fingerprint)
	msg, err := stun.Build(setters...)
	if err != nil {
		panic("verif: build: " + err.Error())
	}

	// source address: exact remote, IPv4-mapped form of it, or arbitrary
	mayCreatePrflx := s.class == stun.ClassRequest // whatever its credentials: the bound must not depend on the code's verdict
	nSrc := 3
	if cfg.onlyAuth && s.class != stun.ClassRequest {
		nSrc = 2 // authenticated responses: known sources (unknown ones are C02's lemma)
	}
	switch (verifChoice(nSrc) + 1) % 3 {
	case 1:
		ra := w.remotes[0].addrPort()
		s.src = netip.AddrPortFrom(netip.AddrFrom16(ra.Addr().As16()), ra.Port())
	case 2:
		s.src = w.remotes[cfg.nRemote-1].addrPort()
	default:
		if mayCreatePrflx {
			// an authenticated request from an unknown source creates a
			// peer-reflexive candidate by formatting and re-parsing the
			// address: keep that address concrete (stated bound)
			s.src = netip.AddrPortFrom(netip.AddrFrom4([4]byte{30, 0, 0, 1}), 3000)
		} else {
			s.src = verifSrcV4() // arbitrary: equal to a remote or not
		}
	}
	s.localIdx = verifChoice(cfg.nLocal)

	s.before = w.snap()
	verifStepBegin()
	a.handleInbound(msg, w.locals[s.localIdx], s.src)
	s.after = w.snap()
	return s
}

func (s *verifStep) isBinding() bool { return s.method == stun.MethodBinding }

func (s *verifStep) usernameOK() bool {
	switch s.userKind {
	case 1:
		return true
	case 2:
		return verifStrEq(s.username, verifExpectedUsername)
	}
	return false
}

// matchingPending: oracle for "transaction id belongs to a still-outstanding
// request sent over the same transport to exactly the source address".
func (s *verifStep) matchingPending() (bool, *verifPend) {
	return s.matchingPendingWithin(maxBindingRequestTimeout)
}

// matchingPendingSurely: as matchingPending but with a 100 ms margin below the
// expiry threshold, for "always" lemmas: the handler reads the clock a little
// later than the harness, so an age within the margin may legitimately count
// as expired (no property fixes strictness at the instant of equality).
func (s *verifStep) matchingPendingSurely() (bool, *verifPend) {
	return s.matchingPendingWithin(maxBindingRequestTimeout - 100*time.Millisecond)
}

func (s *verifStep) matchingPendingWithin(limit time.Duration) (bool, *verifPend) {
	local := s.w.locals[s.localIdx]
	for i := range s.pend {
		p := &s.pend[i]
		idEq := true
		for k := range p.id {
			idEq = verifAnd(idEq, p.id[k] == s.id[k])
		}
		fresh := p.age < limit
		sameTransport := p.nt == local.NetworkType()
		sameAddr := verifAnd(p.dst.Addr().Unmap() == s.src.Addr().Unmap(), p.dst.Port() == s.src.Port())
		if verifAnd(verifAnd(idEq, fresh), verifAnd(sameTransport, sameAddr)) {
			return true, p
		}
	}
	return false, nil
}

// verifBindingRequest builds an authenticated Binding request from the remote
// peer. ctrl: 0 none, 1 ICE-CONTROLLING, 2 ICE-CONTROLLED, 3 both.
func verifBindingRequest(id [stun.TransactionIDSize]byte, ctrl int, tb uint64, useCandidate bool, prio uint32) *stun.Message {
	setters := []stun.Setter{stun.BindingRequest, stun.NewTransactionIDSetter(id),
		stun.NewUsername(verifLocalUfrag + ":" + verifRemoteUfrag)}
	if useCandidate {
		setters = append(setters, UseCandidate())
	}
	switch ctrl {
	case 1:
		setters = append(setters, AttrControlling(tb))
	case 2:
		setters = append(setters, AttrControlled(tb))
	case 3:
		setters = append(setters, AttrControlled(tb), AttrControlling(tb))
	}
	setters = append(setters, PriorityAttr(prio), stun.NewShortTermIntegrity(verifLocalPwd), stun.Fingerprint)
	m, err := stun.Build(setters...)
	if err != nil {
		panic("verif: build request: " + err.Error())
	}
	return m
}

func verifB2I(b bool) int {
	if b {
		return 1
	}
	return 0
}
