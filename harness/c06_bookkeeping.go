package ice

// C06 — candidate and pair bookkeeping stays consistent; Restart leaves no residue.

import (
	"context"
	"net"
	"net/netip"
	"time"

	"github.com/pion/stun/v3"
)

func init() {
	verifRegister("verifC06AddRemote", verifC06AddRemote)
	verifRegister("verifC06PrflxThenSignalled", verifC06PrflxThenSignalled)
	verifRegister("verifC06InboundUnknown", verifC06InboundUnknown)
	verifRegister("verifC06AddLocal", verifC06AddLocal)
	verifRegister("verifC06RestartAndFailed", verifC06RestartAndFailed)
	verifRegister("verifC06ContinualGathering", verifC06ContinualGathering)
}

func verifContains(set []Candidate, c Candidate) bool {
	for _, x := range set {
		if x == c {
			return true
		}
	}
	return false
}

// invBook: the bookkeeping invariant I1..I5 (filter: the remote IP filter in force).
func (w *verifWorld) invBook(label string, filter func(net.IP) bool) {
	a := w.a
	for i, p := range a.checklist {
		for j, q := range a.checklist {
			if i < j {
				verifAssert(!(p.Local.Equal(q.Local) && p.Remote.Equal(q.Remote)), label+":no-pair-listed-twice")
				verifAssert(p.id != q.id, label+":pair-ids-unique")
			}
		}
		verifAssert(p.id >= 1 && p.id <= a.nextPairID, label+":pair-id-in-range")
		verifAssert(a.pairsByID[p.id] == p, label+":id-index-addresses-the-listed-pair")
		verifAssert(verifContains(a.localCandidates[p.Local.NetworkType()], p.Local), label+":pair-local-is-a-current-candidate")
		verifAssert(verifContains(a.remoteCandidates[p.Remote.NetworkType()], p.Remote), label+":pair-remote-is-a-current-candidate")
		verifAssert(p.Local.NetworkType() == p.Remote.NetworkType(), label+":pair-of-one-network-type")
	}
	verifAssert(len(a.pairsByID) == len(a.checklist), label+":index-and-list-same-size")
	if sp := a.getSelectedPair(); sp != nil {
		listed := false
		for _, p := range a.checklist {
			if p == sp {
				listed = true
			}
		}
		verifAssert(listed, label+":selected-pair-is-listed")
	}
	for nt, set := range a.remoteCandidates {
		for i, r := range set {
			verifAssert(r.NetworkType() == nt, label+":remote-filed-under-its-network-type")
			verifAssert(r.TCPType() != TCPTypeActive, label+":no-tcp-active-remote")
			if filter != nil {
				ip, _, _, err := parseAddr(r.addr())
				verifAssert(err == nil && filter(ip.AsSlice()), label+":remote-accepted-by-ip-filter")
			}
			for j, q := range set {
				if i < j {
					verifAssert(!r.Equal(q), label+":remotes-deduplicated")
				}
			}
		}
	}
}

func verifRejectFilter(lastOctet byte) func(net.IP) bool {
	return func(ip net.IP) bool { return ip[len(ip)-1] != lastOctet }
}

// AddRemoteCandidate (public entry) with every kind of trickled candidate.
func verifC06AddRemote() {
	w := verifNewWorld(verifChoice(2) == 1, false, 2, 1)
	a := w.a
	a.loop = verifLoop()
	prflx := w.addRemote("20.0.0.2", 2001, CandidateTypePeerReflexive)
	w.pairAll()
	for _, p := range a.checklist {
		p.state = CandidatePairState(verifInt(1, 4))
		p.nominated = verifBool()
		// bookkeeping and statistics are arbitrary: superseding a candidate must carry all of it over
		p.nominateOnBindingSuccess = verifBool()
		p.renominateOnBindingSuccess = verifBool()
		p.deferredNominationValue = verifU32() & 0xFFFFFF
		p.bindingRequestCount = uint16(verifInt(0, 9))
		p.requestsSent, p.requestsReceived = verifU64(), verifU64()
		p.responsesSent, p.responsesReceived = verifU64(), verifU64()
		p.packetsSent, p.bytesSent = verifU32(), verifU64()
		p.packetsReceived, p.bytesReceived = verifU32(), verifU64()
	}
	reject := verifU8()
	verifAssume(verifAnd(reject != 1, reject != 2)) // pre-state remotes 20.0.0.1/.2 passed the filter
	filter := verifRejectFilter(reject)
	a.remoteIPFilter = filter
	selIdx := verifChoice(len(a.checklist)+1) - 1
	if selIdx >= 0 {
		sp := a.checklist[selIdx]
		verifAssume(verifAnd(sp.state == CandidatePairStateSucceeded, sp.nominated))
		a.selectedPair.Store(sp)
		a.connectionState = ConnectionStateConnected
	}
	w.invBook("pre", filter)

	var cand Candidate
	var err error
	kind := verifChoice(7)
	mdns := false
	if kind == 6 {
		// the signalled candidate is an mDNS name that has just been resolved to
		// the peer-reflexive candidate's transport address
		kind, mdns = 2, true
		verifReach("mdns-resolved-to-the-prflx-address")
	}
	switch kind {
	case 0: // new host candidate
		cand, err = NewCandidateHost(&CandidateHostConfig{Network: udp, Address: "20.0.0.7", Port: 2007, Component: ComponentRTP})
	case 1: // duplicate of an existing one
		cand, err = NewCandidateHost(&CandidateHostConfig{Network: udp, Address: "20.0.0.1", Port: 2000, Component: ComponentRTP})
	case 2: // signalled candidate with the peer-reflexive one's transport address
		if mdns {
			h, e := NewCandidateHost(&CandidateHostConfig{Network: udp, Address: "c0ffee00-0000-4000-8000-000000000001.local", Port: 2001, Component: ComponentRTP})
			err = e
			if e == nil {
				err = h.setIPAddr(netip.AddrFrom4([4]byte{20, 0, 0, 2}))
				cand = h
			}
		} else {
			cand, err = NewCandidateHost(&CandidateHostConfig{Network: udp, Address: "20.0.0.2", Port: 2001, Component: ComponentRTP})
		}
	case 3: // TCP active: must be ignored
		cand, err = NewCandidateHost(&CandidateHostConfig{Network: tcp, Address: "20.0.0.8", Port: 9, Component: ComponentRTP, TCPType: TCPTypeActive})
	case 4: // srflx at a new address
		cand, err = NewCandidateServerReflexive(&CandidateServerReflexiveConfig{Network: udp, Address: "20.0.0.5", Port: 2005, Component: ComponentRTP, RelAddr: "192.168.0.1", RelPort: 5})
	default: // nil
		cand = nil
	}
	verifAssert(err == nil, "constructor")
	before := w.snap()
	nPairs := len(a.checklist)
	var e2 error
	if mdns {
		// what resolveAndAddMulticastCandidate does once the name is resolved
		// (setIPAddr above, then addRemoteCandidate on the loop)
		a.addRemoteCandidate(cand)
	} else {
		e2 = a.AddRemoteCandidate(cand)
	}
	verifSettle()
	verifAssert(e2 == nil, "AddRemoteCandidate-ok")
	after := w.snap()
	w.invBook("post", filter)

	rejected := func(last byte) bool { return reject == last }
	switch kind {
	case 0, 4:
		last := byte(7)
		if kind == 4 {
			last = 5
		}
		if rejected(last) {
			verifReach("filtered")
			verifAssert(after.nRemotes == before.nRemotes && len(a.checklist) == nPairs, "filtered-candidate-leaves-no-trace")
		} else {
			verifReach("added")
			verifAssert(after.nRemotes == before.nRemotes+1, "new-candidate-added-once")
			verifAssert(len(a.checklist) == nPairs+len(w.locals), "paired-with-every-local-of-its-network-type")
		}
	case 1:
		verifReach("duplicate")
		verifAssert(after.nRemotes == before.nRemotes && len(a.checklist) == nPairs, "duplicate-changes-nothing")
	case 2:
		verifReach("supersedes-prflx")
		verifAssertKnown(after.nRemotes == before.nRemotes, "signalled-candidate-replaces-the-peer-reflexive-one", "C06-mdns-candidate-does-not-supersede-prflx", mdns)
		verifAssertKnown(!verifContains(a.remoteCandidates[NetworkTypeUDP4], prflx), "peer-reflexive-candidate-gone", "C06-mdns-candidate-does-not-supersede-prflx", mdns)
		verifAssertKnown(len(a.checklist) == nPairs, "no-pair-added-or-lost", "C06-mdns-candidate-does-not-supersede-prflx", mdns)
		if len(a.checklist) != nPairs {
			break // (only while the finding is open) the per-pair comparison below needs equal lists
		}
		for i, ps := range before.pairs {
			np := a.checklist[i]
			verifAssert(np.id == ps.p.id && np.state == ps.state && np.nominated == ps.nominated && np.nominateOnBindingSuccess == ps.nomOnSucc &&
				np.bindingRequestCount == ps.reqCount, "pair-keeps-id,state,flags")
			verifAssert(verifAnd(np.renominateOnBindingSuccess == ps.renomOnSucc, np.deferredNominationValue == ps.p.deferredNominationValue), "pair-keeps-its-deferred-renomination-flag-and-value")
			verifAssert(verifAnd(verifAnd(np.requestsSent == ps.reqSent, np.requestsReceived == ps.reqRecv), verifAnd(np.responsesSent == ps.respSent, np.responsesReceived == ps.respRecv)), "pair-keeps-its-check-statistics")
			verifAssert(verifAnd(verifAnd(np.packetsSent == ps.p.packetsSent, np.bytesSent == ps.p.bytesSent), verifAnd(np.packetsReceived == ps.p.packetsReceived, np.bytesReceived == ps.p.bytesReceived)), "pair-keeps-its-traffic-counters")
			verifAssert(np.priority() == ps.p.priority(), "pair-keeps-its-priority")
			verifAssert(np.Local == ps.p.Local, "pair-keeps-its-local")
			if ps.p.Remote == prflx {
				verifAssert(np.Remote == cand, "affected-pair-now-points-at-the-signalled-candidate")
			} else {
				verifAssert(np == ps.p, "unaffected-pairs-untouched")
			}
			if before.selected == ps.p {
				verifAssert(a.getSelectedPair() == np, "selection-follows-the-pair")
			}
		}
	case 3, 5:
		verifReach("ignored")
		verifAssert(verifNothingChanged(before, after), "tcp-active-or-nil-candidate-ignored")
	}
	verifReach("done")
}

// signalled-then-prflx order: a request from the address of an already
// signalled candidate must not create a second remote.
func verifC06PrflxThenSignalled() {
	w := verifNewWorld(false, false, 1, 1)
	a := w.a
	w.pairAll()
	msg := verifBindingRequest(verifTxID(), 1, verifU64(), verifChoice(2) == 1, verifU32())
	src := w.remotes[0].addrPort()
	switch verifChoice(3) {
	case 1, 2:
		// the signalled candidate is an mDNS name; its answer came back in
		// plain or in IPv4-mapped form (a dual-stack mDNS socket), and the
		// peer's check arrives from either form of that address
		verifReach("mdns-resolved")
		mc, err := NewCandidateHost(&CandidateHostConfig{Network: udp, Address: "1f4712db-ea17-4bcf-a596-105139dfd8bf.local", Port: 2999, Component: ComponentRTP})
		verifAssert(err == nil, "mdns-candidate")
		forms := []string{"20.0.0.77", "::ffff:20.0.0.77"}
		verifAssert(mc.setIPAddr(netip.MustParseAddr(forms[verifChoice(2)])) == nil, "resolved")
		verifAssert(mc.NetworkType() == NetworkTypeUDP4, "resolved-candidate-is-udp4")
		verifAssert(a.addRemoteCandidate(mc), "signalled-candidate-added")
		src = netip.AddrPortFrom(netip.MustParseAddr(forms[verifChoice(2)]), 2999)
	}
	n0, p0 := w.remoteCount(), len(a.checklist)
	a.handleInbound(msg, w.locals[0], src)
	verifAssert(w.remoteCount() == n0, "request-from-a-signalled-address-creates-no-peer-reflexive-duplicate")
	verifAssert(len(a.checklist) == p0, "request-from-a-signalled-address-creates-no-second-pair")
	w.invBook("post", nil)
	verifReach("done")
}

// authenticated request from an unknown source: the peer-reflexive discovery
// goes through the same filter and bookkeeping.
func verifC06InboundUnknown() {
	w := verifNewWorld(verifChoice(2) == 1, false, 2, 1)
	a := w.a
	w.pairAll()
	reject := verifU8()
	verifAssume(reject != 1)
	filter := verifRejectFilter(reject)
	a.remoteIPFilter = filter
	ctrl := 1
	if a.isControlling.Load() {
		ctrl = 2
	}
	msg := verifBindingRequest(verifTxID(), ctrl, verifU64(), false, verifU32())
	srcs := []string{"30.0.0.1:3000", "30.0.0.9:3000"}
	src := verifMustAddrPort(srcs[verifChoice(2)])
	before := w.snap()
	a.handleInbound(msg, w.locals[verifChoice(2)], src)
	after := w.snap()
	w.invBook("post", filter)
	if after.nRemotes == before.nRemotes {
		verifReach("filtered")
		verifAssert(verifNothingChanged(before, after), "filtered-peer-reflexive-discovery-leaves-no-trace")
	} else {
		verifReach("discovered")
		verifAssert(after.nRemotes == before.nRemotes+1, "one-peer-reflexive-candidate")
	}
	verifReach("done")
}

// local candidate arrival (task body of addCandidate): new and duplicate.
func verifC06AddLocal() {
	w := verifNewWorld(verifChoice(2) == 1, false, 1, 2)
	a := w.a
	a.loop = verifLoop()
	w.pairAll()
	dup := verifChoice(2) == 1
	addr, port := "10.0.0.5", 1005
	if dup {
		addr, port = "10.0.0.1", 1000
	}
	c, err := NewCandidateHost(&CandidateHostConfig{Network: udp, Address: addr, Port: port, Component: ComponentRTP})
	verifAssert(err == nil, "constructor")
	conn := &verifPacketConn{}
	nPairs, nLoc := len(a.checklist), len(a.localCandidates[NetworkTypeUDP4])
	e2 := a.addCandidate(context.Background(), c, conn)
	verifAssert(e2 == nil, "addCandidate-ok")
	w.invBook("post", nil)
	if dup {
		verifReach("duplicate")
		verifAssert(len(a.localCandidates[NetworkTypeUDP4]) == nLoc && len(a.checklist) == nPairs, "duplicate-local-rejected")
		verifAssert(conn.closed == 1, "rejected-candidate's-socket-closed-once")
		verifAssert(len(w.notifiedCands()) == 0, "rejected-candidate-not-published")
	} else {
		verifReach("new")
		verifAssert(len(a.localCandidates[NetworkTypeUDP4]) == nLoc+1 && len(a.checklist) == nPairs+len(w.remotes), "paired-with-every-remote")
		verifAssert(conn.closed == 0, "adopted-socket-stays-open")
		cs := w.notifiedCands()
		verifAssert(len(cs) == 1 && cs[0] == Candidate(c), "published-once")
	}
	verifReach("done")
}

// Restart and Failed leave no residue; pair ids are not reused.
func verifC06RestartAndFailed() {
	w := verifNewWorld(verifChoice(2) == 1, false, 2, 2)
	a := w.a
	a.loop = verifLoop()
	w.pairAll()
	sp := a.checklist[0]
	sp.state, sp.nominated = CandidatePairStateSucceeded, true
	a.selectedPair.Store(sp)
	a.connectionState = ConnectionStateConnected
	a.pendingBindingRequests = append(a.pendingBindingRequests, bindingRequest{timestamp: verifNow(), transactionID: verifTxID()})
	idBefore := a.nextPairID
	// optionally the local candidates are started (receive loops running) and
	// the first one's socket reports an error when it is closed: the clean-up
	// must still get rid of every candidate
	started := verifChoice(2) == 1
	if started {
		ready := make(chan struct{})
		close(ready)
		for i, l := range w.locals {
			l.conn = nil
			l.start(a, w.conns[i], ready)
		}
		w.conns[0].closeFails = verifChoice(2) == 1
		// the candidates on record need not be of a configured network type
		// (a relay candidate reached over IPv4 with only IPv6 configured)
		if verifChoice(2) == 1 {
			a.networkTypes = []NetworkType{NetworkTypeUDP6}
			verifReach("candidate-outside-configured-network-types")
		}
		verifRunGoroutines()
		if w.conns[0].closeFails {
			verifReach("socket-close-fails")
		}
	}
	if verifChoice(2) == 1 {
		verifReach("restart")
		verifAssert(a.Restart("freshufrag", "freshpasswordfreshpasswd") == nil, "restart-ok")
		verifAssert(a.remoteUfrag == "" && a.remotePwd == "" && a.localUfrag == "freshufrag", "credentials-replaced")
	} else {
		verifReach("failed")
		a.updateConnectionState(ConnectionStateFailed)
	}
	verifAssert(len(a.checklist) == 0 && len(a.pairsByID) == 0, "no-pairs-left")
	verifAssert(len(a.localCandidates) == 0 && len(a.remoteCandidates) == 0, "no-candidates-left")
	verifAssert(a.getSelectedPair() == nil, "no-selection-left")
	verifAssert(len(a.pendingBindingRequests) == 0, "no-outstanding-transactions-left")
	verifAssert(a.nextPairID >= idBefore, "pair-ids-not-reused")
	if started {
		for _, c := range w.conns {
			verifAssert(c.closed >= 1, "every-started-candidate's-socket-was-closed")
		}
	}
	_ = stun.MethodBinding
	verifReach("done")
}

// Continual gathering: the interface monitor belongs to the gathering cycle
// that started it. After Restart (or Failed) a new local address shows up and
// the monitor's ticker fires: the ended generation's monitor is gone, nothing
// is gathered for it, the new generation holds no local candidate until it is
// asked to gather, and every socket opened so far is closed.
func verifC06ContinualGathering() {
	w := verifC08New(true)
	a := w.a
	a.continualGatheringPolicy = GatherContinually
	a.networkMonitorInterval = 10 * time.Millisecond
	a.lastKnownInterfaces = make(map[string]netip.Addr)
	verifAssert(a.OnCandidate(func(Candidate) {}) == nil, "handler")
	verifAssert(a.GatherCandidates() == nil, "GatherCandidates")
	verifLetOthersRun() // the cycle has gathered the first address; its monitor waits for the ticker
	locals, err := a.GetLocalCandidates()
	verifAssert(err == nil && len(locals) == 1, "first-address-gathered")
	switch verifChoice(3) {
	case 0:
		verifReach("restart")
		verifAssert(a.Restart("c06newufrag", "c06newpasswordc06newpassword") == nil, "Restart")
	case 1:
		verifReach("failed")
		verifAssert(a.loop.Run(a.loop, func(context.Context) { a.updateConnectionState(ConnectionStateFailed) }) == nil, "fail")
	default:
		// witness that the monitor is alive in this harness: while the
		// generation lasts it does gather the new address
		w.net.addAddress("eth1", "10.0.1.1")
		verifTimerTicks(2)
		verifLetOthersRun()
		verifAdvanceClock(200 * time.Millisecond) // (native replay: several real ticker periods, also on a loaded machine)
		locals, err = a.GetLocalCandidates()
		found := false
		for _, c := range locals {
			if c.Address() == "10.0.1.1" {
				found = true
			}
		}
		verifAssert(err == nil && found, "the-running-generation's-monitor-gathers-the-new-address")
		verifReach("monitor-alive")
		verifAssert(a.Close() == nil, "Close")
		verifAssert(verifQuiesce() == 0, "no-goroutine-left")
		return
	}
	w.net.addAddress("eth1", "10.0.1.1")
	verifTimerTicks(2)
	verifLetOthersRun()
	locals, err = a.GetLocalCandidates()
	verifAssert(err == nil && len(locals) == 0, "the-ended-generation's-monitor-gathers-nothing-for-the-next-one")
	w.net.mu.Lock()
	for _, c := range w.net.socks {
		verifAssert(c.closes.Load() >= 1, "every-socket-of-the-ended-generation-is-closed")
	}
	// (a tick that was already pending when the cycle was cancelled may still
	// open a socket for the new address; the cancelled cycle's addCandidate
	// refuses it and the socket is closed at once — covered by the loop above)
	w.net.mu.Unlock()
	verifAssert(a.Close() == nil, "Close")
	verifAssert(verifQuiesce() == 0, "no-goroutine-left")
	verifReach("done")
}
