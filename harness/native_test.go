package ice

// Native runner: executes harness functions against the compiled code with
// concrete vectors (counterexample replay and translator validation).

import (
	"encoding/json"
	"fmt"
	"os"
	"testing"
	"time"
)

type verifJob struct {
	ID      string   `json:"id"`
	Harness string   `json:"harness"`
	Tier    int      `json:"tier"`
	Vector  []uint64 `json:"vector"`
	Known   []string `json:"known"`
}

type verifJobResult struct {
	ID       string   `json:"id"`
	End      string   `json:"end"`
	Fails    []string `json:"fails"`
	Observes []string `json:"observes"`
}

func verifRunJob(j verifJob) (res verifJobResult) {
	res.ID = j.ID
	verifVec, verifPos, verifFails, verifObs, verifReachedL, verifTierVal = j.Vector, 0, nil, nil, nil, j.Tier
	verifKnownIDs = map[string]bool{}
	for _, k := range j.Known {
		verifKnownIDs[k] = true
	}
	fn, ok := verifHarnesses[j.Harness]
	if !ok {
		res.End = "NOHARNESS"
		return
	}
	defer func() {
		res.Fails, res.Observes = verifFails, verifObs
		if r := recover(); r != nil {
			switch r.(type) {
			case verifAssumeFailed:
				res.End = "ASSUME"
			case verifHalted:
				res.End = "HALT"
			default:
				res.End = fmt.Sprintf("PANIC: %v", r)
			}
		}
	}()
	fn()
	res.End = "OK"
	return
}

func TestVerifNative(t *testing.T) {
	jp, op := os.Getenv("VERIF_JOBS"), os.Getenv("VERIF_OUT")
	if jp == "" {
		t.Skip("no jobs")
	}
	b, err := os.ReadFile(jp)
	if err != nil {
		t.Fatal(err)
	}
	var jobs []verifJob
	if err := json.Unmarshal(b, &jobs); err != nil {
		t.Fatal(err)
	}
	var out []verifJobResult
	for _, j := range jobs {
		// a job that blocks (e.g. a mutated tree that no longer delivers a
		// packet the harness waits for) must not hang the whole run
		ch := make(chan verifJobResult, 1)
		go func(j verifJob) { ch <- verifRunJob(j) }(j)
		select {
		case r := <-ch:
			out = append(out, r)
		case <-time.After(20 * time.Second):
			out = append(out, verifJobResult{ID: j.ID, End: "TIMEOUT", Fails: append([]string{}, verifFails...)})
		}
	}
	ob, _ := json.Marshal(out)
	if err := os.WriteFile(op, ob, 0o644); err != nil {
		t.Fatal(err)
	}
}
