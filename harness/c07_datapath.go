package ice

// C07 — application data travels only over validated pairs and only from known peers.

import (
	"io"
	"net/netip"
	"time"

	"github.com/pion/stun/v3"
)

func init() {
	verifRegister("verifC07Write", verifC07Write)
	verifRegister("verifC07WriteToPair", verifC07WriteToPair)
	verifRegister("verifC07Inbound", verifC07Inbound)
	verifRegister("verifC07InboundSTUN", verifC07InboundSTUN)
}

var verifPayloadLens = []int{0, 1, 19, 20, 24}

func verifLooksSTUN(b []byte) bool {
	if len(b) < 20 {
		return false
	}
	return verifAnd(verifAnd(b[4] == 0x21, b[5] == 0x12), verifAnd(b[6] == 0xA4, b[7] == 0x42))
}

func verifC07World(closed bool) *verifWorld {
	w := verifNewWorld(verifChoice(2) == 1, false, 2, 1)
	w.pairAll()
	a := w.a
	a.loop = verifLoop()
	if closed {
		a.loop.Close()
	}
	for _, p := range a.checklist {
		p.state = CandidatePairState(verifInt(1, 4))
		// nomination bookkeeping is arbitrary: only the state validates a pair
		p.nominated = verifBool()
		p.nominateOnBindingSuccess = verifBool()
		p.renominateOnBindingSuccess = verifBool()
		p.bindingRequestCount = uint16(verifInt(0, 9))
	}
	for _, l := range w.locals {
		l.priorityOverride = 1 + uint32(verifU8())
	}
	return w
}

func verifC07Write() {
	closed := verifChoice(4) == 3
	w := verifC07World(closed)
	a := w.a
	selIdx := verifChoice(len(a.checklist)+1) - 1
	if selIdx >= 0 {
		sp := a.checklist[selIdx]
		verifAssume(sp.state == CandidatePairStateSucceeded)
		sp.nominated = true
		a.selectedPair.Store(sp)
		a.connectionState = ConnectionStateConnected
	}
	payload := verifBytes(verifPayloadLens[verifChoice(len(verifPayloadLens))])
	for _, c := range w.conns {
		c.mode = verifChoice(3)
	}
	conn := &Conn{agent: a}
	before := w.snap()
	var pktBefore []uint32
	var byteBefore []uint64
	for _, p := range a.checklist {
		pktBefore = append(pktBefore, p.packetsSent)
		byteBefore = append(byteBefore, p.bytesSent)
	}
	n, err := conn.Write(payload)
	after := w.snap()

	if closed {
		verifReach("closed")
		verifAssert(err != nil && n == 0 && after.sent == before.sent, "closed-agent=>error,nothing-sent")
		return
	}
	if verifLooksSTUN(payload) { // forks on the cookie window
		verifReach("stun-like")
		verifAssert(err == errWriteSTUNMessageToIceConn && n == 0 && after.sent == before.sent, "STUN-looking-payload-refused")
		verifAssert(conn.BytesSent() == 0, "refused-payload-not-counted")
		return
	}
	// expected pair: the selection, else a maximum-priority Succeeded pair
	var exp []*CandidatePair
	if selIdx >= 0 {
		exp = []*CandidatePair{a.checklist[selIdx]}
	} else {
		for _, p := range a.checklist {
			if p.state != CandidatePairStateSucceeded { // forks on the symbolic state
				continue
			}
			best := true
			for _, q := range a.checklist {
				if q.state == CandidatePairStateSucceeded && q.priority() > p.priority() {
					best = false
				}
			}
			if best {
				exp = append(exp, p)
			}
		}
	}
	if len(exp) == 0 {
		verifReach("no-valid-pair")
		verifAssert(err == ErrNoCandidatePairs && n == 0 && after.sent == before.sent, "no-validated-pair=>ErrNoCandidatePairs,nothing-sent")
		return
	}
	// which pair's socket was used
	usedIdx := -1
	for i, c := range w.conns {
		if len(c.sent) > 0 {
			verifAssert(usedIdx == -1 && len(c.sent) == 1, "exactly-one-datagram")
			usedIdx = i
		}
	}
	allFail := false // with equal priorities any maximal pair may be the one used
	for _, p := range exp {
		if verifConnOf(w, p).mode != 0 {
			allFail = true
		}
	}
	if usedIdx < 0 {
		verifReach("socket-error")
		verifAssert(allFail, "nothing-sent-only-when-the-socket-failed")
		verifAssert(n == 0, "failed-send-reports-zero-bytes")
		verifAssert(conn.BytesSent() == 0, "failed-send-not-counted")
		return
	}
	verifReach("sent")
	var used *CandidatePair
	for _, p := range exp {
		if p.Local == Candidate(w.locals[usedIdx]) {
			used = p
		}
	}
	verifAssert(used != nil, "datagram-left-through-the-selected/best-valid-pair's-local-socket")
	if used == nil {
		return
	}
	d := w.conns[usedIdx].sent[0]
	verifAssert(d.to.String() == used.Remote.addr().String(), "datagram-addressed-to-that-pair's-remote")
	verifAssert(verifBytesEq(d.data, payload), "payload-unmodified")
	verifAssert(err == nil && n == len(payload), "write-returns-len")
	verifAssert(conn.BytesSent() == uint64(n), "connection-byte-counter=accepted-bytes")
	for i, p := range a.checklist {
		if p == used && n > 0 {
			verifAssert(p.packetsSent == pktBefore[i]+1 && p.bytesSent == byteBefore[i]+uint64(n), "pair-counters-advance-by-(1,n)")
		} else {
			verifAssert(p.packetsSent == pktBefore[i] && p.bytesSent == byteBefore[i], "other-pairs'-counters-untouched")
		}
	}
	verifReach("done")
}

func verifConnOf(w *verifWorld, p *CandidatePair) *verifPacketConn {
	for i, l := range w.locals {
		if Candidate(l) == p.Local {
			return w.conns[i]
		}
	}
	return nil
}

func verifC07WriteToPair() {
	w := verifC07World(false)
	a := w.a
	id := verifU64()
	payload := verifBytes(verifPayloadLens[1+verifChoice(len(verifPayloadLens)-1)])
	verifAssume(!verifLooksSTUN(payload))
	conn := &Conn{agent: a}
	n, err := conn.WriteToPair(id, payload)
	var target *CandidatePair
	for _, p := range a.checklist {
		if p.id == id { // forks
			target = p
		}
	}
	switch {
	case target == nil:
		verifReach("unknown-id")
		verifAssert(err == ErrCandidatePairNotFound && n == 0 && w.sentCount() == 0, "unknown-pair-id=>error,nothing-sent")
	case target.state != CandidatePairStateSucceeded:
		verifReach("not-succeeded")
		verifAssert(err == ErrCandidatePairNotSucceeded && n == 0 && w.sentCount() == 0, "not-validated-pair=>error,nothing-sent")
	default:
		verifReach("sent")
		c := verifConnOf(w, target)
		verifAssert(err == nil && n == len(payload) && len(c.sent) == 1 && w.sentCount() == 1, "one-datagram-through-that-pair")
		if len(c.sent) == 1 {
			verifAssert(verifBytesEq(c.sent[0].data, payload) && c.sent[0].to.String() == target.Remote.addr().String(), "same-bytes-to-that-remote")
		}
		verifAssert(target.packetsSent == 1 && target.bytesSent == uint64(n), "pair-counters")
	}
	verifReach("done")
}

// Inbound non-STUN datagram at a local candidate.
func verifC07Inbound() {
	w := verifNewWorld(verifChoice(2) == 1, false, 1, 2)
	w.pairAll()
	a := w.a
	a.loop = verifLoop()
	local := w.locals[0]
	// a remote that is known only on the other transport (same ip:port over TCP)
	tcpRemote, err := NewCandidateHost(&CandidateHostConfig{Network: tcp, Address: "20.0.0.9", Port: 2009, Component: ComponentRTP, TCPType: TCPTypePassive})
	verifAssert(err == nil, "tcp-remote")
	a.remoteCandidates[tcpRemote.NetworkType()] = append(a.remoteCandidates[tcpRemote.NetworkType()], tcpRemote)
	withSel := verifChoice(2) == 1
	if withSel {
		sp := a.checklist[0]
		sp.state, sp.nominated = CandidatePairStateSucceeded, true
		a.selectedPair.Store(sp)
	}
	cached := verifChoice(2) == 1
	if cached {
		local.remoteCandidateCaches.Store(toAddrPortKey(w.remotes[1].addrPort()), w.remotes[1])
	}
	var src netip.AddrPort
	switch verifChoice(3) {
	case 0:
		src = verifSrcV4()
	case 1:
		src = tcpRemote.addrPort()
	default:
		ra := w.remotes[0].addrPort()
		src = netip.AddrPortFrom(netip.AddrFrom16(ra.Addr().As16()), ra.Port())
	}
	payload := verifBytes(verifPayloadLens[1+verifChoice(len(verifPayloadLens)-1)])
	verifAssume(!verifLooksSTUN(payload))
	conn := &Conn{agent: a}
	var known Candidate
	for _, r := range w.remotes {
		if verifSrcIsRemote(src, r) {
			known = r
		}
	}
	// the agent may be unable to vouch for the source right now: its loop is
	// closed, or the local candidate is being torn down (its context is done
	// while the receive loop still runs — inside Restart or Close). A datagram
	// the agent did not vouch for is dropped, whoever sent it; only a source the
	// candidate's own cache already holds needs no agent.
	switch verifChoice(3) {
	case 1:
		verifReach("loop-closed")
		a.loop.Close()
		// (a cached source on a closed agent: Conn.Read reports the closed
		// error whatever is buffered — C08's matter, not looked at here)
		verifAssume(!(cached && known == Candidate(w.remotes[1])))
		known = nil
	case 2:
		verifReach("candidate-closing")
		lb := verifBaseOf(local)
		lb.closeCh, lb.closedCh = make(chan struct{}), make(chan struct{})
		close(lb.closeCh)
		if !(cached && known == Candidate(w.remotes[1])) {
			known = nil
		}
	}
	// every remote has been silent for an hour: received data is what ends the
	// silence (liveness of the pair is judged on LastReceived)
	for _, r := range w.remotes {
		verifBaseOf(r).setLastReceived(verifNow().Add(-time.Hour))
	}
	before := w.snap()
	cntBefore := a.buf.Count()
	local.handleInboundPacket(payload, src)
	after := w.snap()
	for _, r := range w.remotes {
		fresh := verifNow().Sub(r.LastReceived()) < time.Minute
		if r == known {
			verifAssert(fresh, "delivered-data-refreshes-the-sender's-last-received")
		} else {
			verifAssert(!fresh, "data-refreshes-no-other-remote")
		}
	}
	if known == nil {
		verifReach("unknown-source")
		verifAssert(a.buf.Count() == cntBefore, "datagram-from-unknown-or-other-transport-source-is-dropped")
		verifAssert(verifNothingChanged(before, after), "dropped-datagram-changes-nothing")
	} else {
		verifReach("known-source")
		verifAssert(a.buf.Count() == cntBefore+1, "delivered-exactly-once")
		out := make([]byte, 64)
		n, rerr := conn.Read(out)
		verifAssert(rerr == nil && n == len(payload) && verifBytesEq(out[:n], payload), "reader-gets-the-same-bytes")
		verifAssert(conn.BytesReceived() == uint64(n), "read-counter=returned-bytes")
		verifAssert(a.buf.Count() == cntBefore, "nothing-else-queued")
		if withSel {
			sp := a.getSelectedPair()
			verifAssert(sp.packetsReceived == 1 && sp.bytesReceived == uint64(len(payload)), "selected-pair-receive-counters")
		}
		// the next datagram of the same source (now answered from the
		// per-candidate cache) counts as traffic just the same
		verifBaseOf(known).setLastReceived(verifNow().Add(-time.Hour))
		local.handleInboundPacket(payload, src)
		verifAssert(verifNow().Sub(known.LastReceived()) < time.Minute, "every-later-datagram-refreshes-last-received-too")
		verifAssert(a.buf.Count() == cntBefore+1, "second-datagram-delivered-once")
	}
	// the cache only maps an address to a current remote with that address
	local.remoteCandidateCaches.Range(func(k, v any) bool {
		key, _ := k.(AddrPort)
		c, _ := v.(Candidate)
		ok := false
		for _, r := range w.remotes {
			if r == c && key == toAddrPortKey(r.addrPort()) {
				ok = true
			}
		}
		verifAssert(ok, "cache-entry=(address-of-a-current-remote,that-remote)")
		return true
	})
	verifAssert(after.sent == before.sent && after.nRemotes == before.nRemotes+0 && verifPairsUnchanged(before, after), "data-never-creates-candidates-or-changes-pairs")
	_ = io.EOF
	verifReach("done")
}

// STUN-looking input never reaches the reader.
func verifC07InboundSTUN() {
	w := verifNewWorld(verifChoice(2) == 1, false, 1, 1)
	w.pairAll()
	a := w.a
	a.loop = verifLoop()
	b := verifBytes(20)
	b[4], b[5], b[6], b[7] = 0x21, 0x12, 0xA4, 0x42
	verifAssume(verifAnd(b[2] == 0, b[3] == 0)) // header-only message (no attributes)
	var src netip.AddrPort
	if verifChoice(2) == 1 {
		src = w.remotes[0].addrPort()
	} else {
		src = verifSrcV4()
	}
	// the source may already be in the per-candidate cache that answers data
	// datagrams (it sent data before): the cache is for data, a STUN message is
	// judged by the agent alone
	if verifChoice(2) == 1 {
		verifReach("source-cached")
		w.locals[0].remoteCandidateCaches.Store(toAddrPortKey(w.remotes[0].addrPort()), w.remotes[0])
	}
	for _, r := range w.remotes {
		verifBaseOf(r).setLastReceived(verifNow().Add(-time.Hour))
	}
	before := w.snap()
	w.locals[0].handleInboundPacket(b, src)
	after := w.snap()
	verifAssert(a.buf.Count() == 0, "STUN-traffic-never-reaches-the-reader")
	verifAssert(stun.IsMessage(b), "is-stun")
	// a message without USERNAME and MESSAGE-INTEGRITY authenticates nothing:
	// no observable effect, liveness included; only a Binding indication from a
	// known remote address may refresh that remote's liveness
	t := uint16(b[0])<<8 | uint16(b[1])
	isIndication := (t>>4)&1 == 1 && (t>>8)&1 == 0
	if isIndication {
		verifReach("indication")
		after.lastRecv, before.lastRecv = nil, nil
	}
	verifAssert(verifNothingChanged(before, after), "unauthenticated-STUN-at-the-socket-changes-nothing")
	verifReach("done")
}
