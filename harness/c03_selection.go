package ice

// C03 — only validated and nominated pairs are ever selected.

import (
	"github.com/pion/stun/v3"
	"time"
)

func init() {
	verifRegister("verifC03DeferredPlain", verifC03DeferredPlain)
	verifRegister("verifC03Controlling", verifC03Controlling)
	verifRegister("verifC03Controlled", verifC03Controlled)
	verifRegister("verifC03Lite", verifC03Lite)
	verifRegister("verifC03Tick", verifC03Tick)
}

var verifReqAndSuccess = []stun.MessageClass{stun.ClassRequest, stun.ClassSuccessResponse}

func (w *verifWorld) invSel() bool {
	sp := w.a.getSelectedPair()
	if sp == nil {
		return true
	}
	listed := false
	for _, p := range w.a.checklist {
		if p == sp {
			listed = true
		}
	}
	return verifAnd(listed, verifAnd(sp.state == CandidatePairStateSucceeded, sp.nominated))
}

// newDatagrams: messages emitted during the step, decoded.
func (s *verifStep) newDatagrams() []*stun.Message {
	var out []*stun.Message
	for _, c := range s.w.conns {
		for i := range c.sent {
			out = append(out, verifParseSent(c, i))
		}
	}
	return out
}

func verifPairIndex(s *verifStep, local, remote Candidate) int {
	for i, ps := range s.after.pairs {
		if ps.p.Local == local && ps.p.Remote == remote {
			return i
		}
	}
	return -1
}

func verifC03Controlling() {
	verifC03Inbound(verifStepCfg{nLocal: 2, nRemote: 1, renomination: true, classes: verifReqAndSuccess, onlyAuth: true, role: 1, maxPend: 1 + verifTier(), smallPrio: true, nominating: true})
}

func verifC03Controlled() {
	verifC03Inbound(verifStepCfg{nLocal: 2, nRemote: 1, renomination: true, classes: verifReqAndSuccess, onlyAuth: true, role: 2, maxPend: 1 + verifTier(), smallPrio: true})
}

func verifC03Lite() {
	verifC03Inbound(verifStepCfg{nLocal: 1 + verifTier(), nRemote: 1, renomination: verifTier() == 1, classes: verifReqAndSuccess, onlyAuth: true, liteFixed: 1, maxPend: 1, smallPrio: true})
}

func verifC03Inbound(cfg verifStepCfg) {
	s := verifInboundStep(cfg)
	w, a := s.w, s.w.a
	local := Candidate(w.locals[s.localIdx])
	known, isKnown := s.sourceRemote()

	// (a) the selection invariant is preserved
	verifAssert(w.invSel(), "selected=>listed,succeeded,nominated")

	// (e)/(g) what a controlled / lite agent may emit
	for _, m := range s.newDatagrams() {
		verifAssert(m != nil, "emitted-datagram-decodes")
		if m == nil {
			continue
		}
		if !s.controlling {
			verifAssert(!m.Contains(stun.AttrUseCandidate), "controlled-agent-never-sends-USE-CANDIDATE")
		}
		if s.lite && !s.controlling {
			verifAssert(m.Type.Class != stun.ClassRequest, "lite-controlled-agent-never-originates-requests")
		}
	}

	// (b) a pair becomes Succeeded only through its own answered check
	for i, ps := range s.after.pairs {
		if i >= len(s.before.pairs) {
			// pair created in this step (request from a new source): must not be born valid on a full agent
			if !s.lite {
				verifAssert(ps.state != CandidatePairStateSucceeded, "new-pair-not-born-succeeded")
			}
			continue
		}
		was := s.before.pairs[i].state == CandidatePairStateSucceeded
		now := ps.state == CandidatePairStateSucceeded
		if !verifAnd(now, verifNot(was)) {
			continue
		}
		verifReach("pair-became-succeeded")
		if s.class == stun.ClassSuccessResponse {
			ok, p := s.matchingPending()
			verifAssert(ok, "succeeded-only-on-matched-response")
			verifAssert(isKnown && ps.p.Local == local && ps.p.Remote == known, "succeeded-pair=(receiving-local,source-remote)")
			if ok {
				// ghost: the request was sent from the local candidate that received the response
				verifAssertKnown(p.from == s.localIdx, "response-validates-the-pair-that-sent-the-check", "C03-response-on-other-local", p.from != s.localIdx)
			}
		} else {
			verifAssert(s.lite && !s.controlling && (s.useCand || s.nomKind == 1), "only-a-lite-controlled-agent-validates-on-a-nomination-request")
			verifAssert(isKnown && ps.p.Local == local && ps.p.Remote == known, "lite-validated-pair=(receiving-local,source-remote)")
		}
	}

	// a nomination request that is deferred is recorded as a renomination exactly when it carried a value
	if !s.controlling && s.class == stun.ClassRequest && isKnown {
		if idx := verifPairIndex(s, local, known); idx >= 0 && idx < len(s.before.pairs) {
			bp, ap := s.before.pairs[idx], s.after.pairs[idx]
			if ap.nomOnSucc && !bp.nomOnSucc {
				verifReach("nomination-deferred")
				verifAssert(ap.renomOnSucc == (s.nomKind == 1), "deferred-nomination-is-marked-renomination-iff-it-carried-a-value")
			}
		}
	}

	// (c)/(d)/(f) when may the selection change
	if s.after.selected != s.before.selected {
		verifReach("selection-changed")
		sel := s.after.selected
		verifAssert(sel != nil, "an-inbound-message-never-clears-the-selection")
		verifAssert(isKnown && sel.Local == local && sel.Remote == known, "selected-pair=(receiving-local,source-remote)")
		idx := verifPairIndex(s, local, known)
		if s.controlling {
			verifReach("controlling-selected")
			verifAssert(s.class == stun.ClassSuccessResponse, "controlling:selection-only-on-a-response")
			ok, p := s.matchingPending()
			verifAssert(ok, "controlling:selection-only-on-a-matched-response")
			if ok {
				verifAssert(p.use, "controlling:the-answered-request-carried-USE-CANDIDATE")
			}
		} else if s.class == stun.ClassRequest {
			verifReach("controlled-selected-on-request")
			verifAssert(s.useCand || s.nomKind == 1, "controlled:request-carried-USE-CANDIDATE-or-a-nomination-value")
		} else {
			verifReach("controlled-selected-on-response")
			verifAssert(idx >= 0 && idx < len(s.before.pairs), "controlled:pair-existed")
			if idx >= 0 && idx < len(s.before.pairs) {
				verifAssert(s.before.pairs[idx].nomOnSucc, "controlled:response-selects-only-a-pair-nominated-earlier")
				// a deferred PLAIN nomination obeys the priority rule
				if s.before.selected != nil && a.needsToCheckPriorityOnNominated() && !s.before.pairs[idx].renomOnSucc {
					verifAssert(sel.priority() >= s.before.selected.priority(), "deferred-plain-nomination-never-lowers-the-selected-priority")
				}
			}
			ok, _ := s.matchingPending()
			verifAssert(ok, "controlled:selection-only-on-a-matched-response")
		}
		// (f) plain USE-CANDIDATE never moves the selection to a lower-priority pair
		if s.before.selected != nil && !s.controlling && s.class == stun.ClassRequest && s.nomKind != 1 && a.needsToCheckPriorityOnNominated() {
			verifReach("plain-nomination-switch")
			verifAssert(sel.priority() >= s.before.selected.priority(), "plain-USE-CANDIDATE-never-lowers-the-selected-priority")
		}
	}
	verifReach("done")
}

// One check tick from the same pre-state family.
func verifC03Tick() {
	controlling := verifChoice(2) == 1
	lite := verifChoice(2) == 1
	w := verifNewWorld(controlling, lite, 2, 1)
	a := w.a
	w.pairAll()
	for _, p := range a.checklist {
		p.state = CandidatePairState(verifInt(1, 4))
		p.nominated = verifBool()
		p.bindingRequestCount = uint16(verifInt(0, 9))
		p.nominateOnBindingSuccess = verifBool()
		p.renominateOnBindingSuccess = verifBool()
	}
	for _, l := range w.locals {
		l.priorityOverride = verifU32()
		verifAssume(l.priorityOverride != 0)
	}
	selIdx := verifChoice(len(a.checklist)+1) - 1
	if selIdx >= 0 {
		sp := a.checklist[selIdx]
		verifAssume(verifAnd(sp.state == CandidatePairStateSucceeded, sp.nominated))
		a.selectedPair.Store(sp)
		// connected or already disconnected; the peer silent for up to 20 s
		// (below disconnected+failed = 30 s), the last packet sent up to 5 s ago
		a.connectionState = ConnectionStateConnected
		if verifChoice(2) == 1 {
			a.connectionState = ConnectionStateDisconnected
			verifReach("disconnected")
		}
		now := verifNow()
		verifBaseOf(sp.Remote).setLastReceived(now.Add(-time.Duration(verifInt(0, int(20*time.Second)))))
		verifBaseOf(sp.Local).setLastSent(now.Add(-time.Duration(verifInt(0, int(5*time.Second)))))
		verifAssume(verifBaseOf(sp.Remote).lastReceived.Load() != 0)
	}
	before := w.snap()
	verifStepBegin()
	a.getSelector().ContactCandidates()
	after := w.snap()

	if after.state != ConnectionStateFailed {
		verifAssert(after.selected == before.selected, "a-tick-never-changes-the-selection")
	}
	verifAssert(w.invSel(), "selected=>listed,succeeded,nominated")
	nReq := 0
	for ci, c := range w.conns {
		for i := range c.sent {
			m := verifParseSent(c, i)
			verifAssert(m != nil, "emitted-datagram-decodes")
			if m == nil {
				continue
			}
			if m.Type.Class == stun.ClassRequest {
				nReq++
			}
			if !controlling {
				verifAssert(!m.Contains(stun.AttrUseCandidate), "controlled-agent-never-sends-USE-CANDIDATE")
			}
			if lite && !controlling {
				verifAssert(m.Type.Class != stun.ClassRequest, "lite-controlled-agent-never-originates-requests")
			}
			if controlling && m.Contains(stun.AttrUseCandidate) {
				verifReach("nomination-sent")
				// nominations go out only for a validated pair of this local candidate
				ok := false
				for _, ps := range before.pairs {
					if ps.p.Local == Candidate(w.locals[ci]) && ps.p.Remote.addr().String() == c.sent[i].to.String() {
						ok = verifOr(ok, ps.state == CandidatePairStateSucceeded)
					}
				}
				verifAssert(ok, "USE-CANDIDATE-only-on-a-succeeded-pair")
			}
		}
	}
	// every emitted request is recorded with the flags it carries
	verifAssert(after.nPending-before.nPending <= nReq, "every-recorded-transaction-was-sent")
	sentIdx := 0
	for _, c := range w.conns {
		for i := range c.sent {
			m := verifParseSent(c, i)
			if m == nil || m.Type.Class != stun.ClassRequest {
				continue
			}
			for _, pr := range a.pendingBindingRequests {
				if pr.transactionID == m.TransactionID {
					verifAssert(pr.isUseCandidate == m.Contains(stun.AttrUseCandidate), "recorded-USE-CANDIDATE-flag=datagram")
				}
			}
			sentIdx++
		}
	}
	verifReach("done")
}

// Two steps on a controlled full agent that has accepted a renomination before:
// a PLAIN USE-CANDIDATE on a not-yet-valid lower-priority pair, then that
// pair's matched response: the selection must stay on the higher-priority pair.
func verifC03DeferredPlain() {
	w := verifNewWorld(false, false, 2, 1)
	a := w.a
	a.enableRenomination = true
	w.pairAll()
	for _, l := range w.locals {
		l.priorityOverride = 1 + uint32(verifU8())
	}
	first, second := a.checklist[0], a.checklist[1]
	first.state, first.nominated = CandidatePairStateSucceeded, true
	a.selectedPair.Store(first)
	a.connectionState = ConnectionStateConnected
	if verifChoice(2) == 1 {
		v := verifU32() & 0xFFFFFF
		a.selector.(*controlledSelector).lastNomination = &v // an earlier renomination was accepted
		verifReach("after-renomination")
	}
	second.state = CandidatePairState(verifInt(1, 2))
	verifAssume(second.priority() < first.priority())
	req, err := stun.Build(stun.BindingRequest, stun.NewTransactionIDSetter(verifTxID()), stun.NewUsername(verifExpectedUsername), UseCandidate(),
		AttrControlling(1), PriorityAttr(5), stun.NewShortTermIntegrity(verifLocalPwd), stun.Fingerprint)
	verifAssert(err == nil, "build")
	src := w.remotes[0].addrPort()
	a.handleInbound(req, w.locals[1], src)
	var check *stun.Message
	for i := range w.conns[1].sent {
		if m := verifParseSent(w.conns[1], i); m != nil && m.Type.Class == stun.ClassRequest {
			check = m
		}
	}
	verifAssert(check != nil, "triggered-check-sent")
	if check == nil {
		return
	}
	resp, err := stun.Build(stun.BindingSuccess, stun.NewTransactionIDSetter(check.TransactionID), stun.NewShortTermIntegrity(verifRemotePwd), stun.Fingerprint)
	verifAssert(err == nil, "build")
	a.handleInbound(resp, w.locals[1], src)
	verifAssert(second.state == CandidatePairStateSucceeded, "second-pair-valid")
	verifAssert(a.getSelectedPair() == first, "plain-USE-CANDIDATE-on-a-lower-priority-pair-never-takes-the-selection(even-deferred)")
	verifReach("done")
}
