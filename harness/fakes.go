package ice

// Recording fakes for the environment (sockets). They run both under the
// symbolic engine and natively; their nondeterministic outcomes come from the
// verif* vocabulary, so every outcome is part of the explored space.

import (
	"io"
	"net"
	"os"
	"time"
)

type verifAddr struct{ s string }

func (a verifAddr) Network() string { return "tcp" }
func (a verifAddr) String() string  { return a.s }

// verifStreamConn: a net.Conn whose inbound byte stream is `data`; every Read
// returns between 1 and min(len(p), remaining) bytes (chosen by the explorer),
// io.EOF at the end of the stream, or an injected error at read number failAt.
type verifStreamConn struct {
	data     []byte
	pos      int
	reads    int
	maxReads int
	failAt   int // -1: never
	// bounded-read bookkeeping: largest stream offset any Read was allowed to reach
	maxReach int
	zeroLen  bool // a Read was issued with an empty buffer

	// chunking: -1 = every partition into chunks; k >= 0 = at most k partial
	// reads (each partial read returns 1 byte or about half), the rest are full
	partial   int
	hold      chan struct{} // non-nil: at the end of the data Read blocks until it is closed
	written   [][]byte
	writeErr  bool
	shortBy   int
	closed    int
	remote    net.Addr
	deadlines int
	// a write deadline at or before "now" has been set and not cleared
	writeDeadlinePast bool
}

var errVerifInjected = io.ErrUnexpectedEOF

func (c *verifStreamConn) Read(p []byte) (int, error) {
	c.reads++
	if c.maxReads > 0 && c.reads > c.maxReads {
		verifAssume(false) // bound on the number of reads (stated)
	}
	if c.reads-1 == c.failAt {
		return 0, errVerifInjected
	}
	if len(p) == 0 {
		c.zeroLen = true
		return 0, nil
	}
	if c.pos+len(p) > c.maxReach {
		c.maxReach = c.pos + len(p)
	}
	rem := len(c.data) - c.pos
	if rem == 0 {
		if c.hold != nil {
			<-c.hold // the peer keeps the connection open and silent
		}
		return 0, io.EOF
	}
	lim := len(p)
	if rem < lim {
		lim = rem
	}
	n := lim
	switch {
	case c.partial < 0:
		n = 1 + verifChoice(lim)
	case c.partial > 0 && lim > 1:
		switch verifChoice(3) {
		case 1:
			n, c.partial = 1, c.partial-1
		case 2:
			n, c.partial = (lim+1)/2, c.partial-1
		}
	}
	copy(p, c.data[c.pos:c.pos+n])
	c.pos += n
	return n, nil
}

func (c *verifStreamConn) Write(p []byte) (int, error) {
	if c.writeDeadlinePast {
		return 0, os.ErrDeadlineExceeded // as a real connection does once its write deadline has passed
	}
	cp := make([]byte, len(p))
	copy(cp, p)
	c.written = append(c.written, cp)
	if c.writeErr {
		return 0, errVerifInjected
	}
	return len(p) - c.shortBy, nil
}

func (c *verifStreamConn) Close() error {
	c.closed++
	if c.hold != nil && c.closed == 1 {
		close(c.hold)
	}
	return nil
}
func (c *verifStreamConn) LocalAddr() net.Addr  { return verifAddr{"10.0.0.1:1"} }
func (c *verifStreamConn) RemoteAddr() net.Addr { return c.remote }
func (c *verifStreamConn) SetDeadline(t time.Time) error {
	c.deadlines++
	c.writeDeadlinePast = !t.IsZero() && time.Until(t) < time.Second
	return nil
}
func (c *verifStreamConn) SetReadDeadline(t time.Time) error { c.deadlines++; return nil }
func (c *verifStreamConn) SetWriteDeadline(t time.Time) error {
	c.deadlines++
	// "now or earlier" (what an abort sets) fails later writes; a deadline seconds
	// ahead (what Close sets to flush) or none does not
	c.writeDeadlinePast = !t.IsZero() && time.Until(t) < time.Second
	return nil
}

// verifNopLogger implements logging.LeveledLogger with empty bodies.
type verifNopLogger struct{}

func (verifNopLogger) Trace(string)          {}
func (verifNopLogger) Tracef(string, ...any) {}
func (verifNopLogger) Debug(string)          {}
func (verifNopLogger) Debugf(string, ...any) {}
func (verifNopLogger) Info(string)           {}
func (verifNopLogger) Infof(string, ...any)  {}
func (verifNopLogger) Warn(string)           {}
func (verifNopLogger) Warnf(string, ...any)  {}
func (verifNopLogger) Error(string)          {}
func (verifNopLogger) Errorf(string, ...any) {}
