package ice

// C16 — candidate and attribute wire formats round-trip; equality is lawful.

import (
	"github.com/pion/stun/v3"
	"net/netip"
)

func init() {
	verifRegister("verifC16Attrs", verifC16Attrs)
	verifRegister("verifC16AttrSizes", verifC16AttrSizes)
	verifRegister("verifC16Equality", verifC16Equality)
	verifRegister("verifC16ExtensionEquality", verifC16ExtensionEquality)
	verifRegister("verifC16Tokenizers", verifC16Tokenizers)
	verifRegister("verifC16Extensions", verifC16Extensions)
	verifRegister("verifC16RoundTrip", verifC16RoundTrip)
	verifRegister("verifC16FoundationRoundTrip", verifC16FoundationRoundTrip)
	verifRegister("verifC16ParseAny", verifC16ParseAny)
}

// (a) ICE STUN attributes decode to the value that was encoded.
func verifC16Attrs() {
	m := &stun.Message{}
	p := PriorityAttr(verifU32())
	verifAssert(p.AddTo(m) == nil, "priority-encode")
	c1, c2 := AttrControlling(verifU64()), AttrControlled(verifU64())
	which := verifChoice(2)
	if which == 0 {
		verifAssert(c1.AddTo(m) == nil, "controlling-encode")
	} else {
		verifAssert(c2.AddTo(m) == nil, "controlled-encode")
	}
	use := verifChoice(2) == 1
	if use {
		verifAssert(UseCandidate().AddTo(m) == nil, "use-candidate-encode")
	}
	nAck := verifChoice(6)
	acks := make(DtlsInStunAckAttribute, nAck)
	for i := range acks {
		acks[i] = verifU32()
	}
	ackErr := acks.AddTo(m)
	payload := DtlsInStunAttribute(verifBytes(verifChoice(4)))
	verifAssert(payload.AddTo(m) == nil, "dtls-encode")

	var p2 PriorityAttr
	verifAssert(p2.GetFrom(m) == nil && p2 == p, "PRIORITY-round-trips")
	var ctl AttrControl
	verifAssert(ctl.GetFrom(m) == nil, "role-attribute-decodes")
	if which == 0 {
		var d AttrControlling
		verifAssert(d.GetFrom(m) == nil && d == c1, "ICE-CONTROLLING-round-trips")
		verifAssert(ctl.Role == Controlling && ctl.Tiebreaker == uint64(c1), "AttrControl=controlling+tiebreaker")
		var o AttrControlled
		verifAssert(o.GetFrom(m) != nil, "absent-ICE-CONTROLLED-not-decoded")
	} else {
		var d AttrControlled
		verifAssert(d.GetFrom(m) == nil && d == c2, "ICE-CONTROLLED-round-trips")
		verifAssert(ctl.Role == Controlled && ctl.Tiebreaker == uint64(c2), "AttrControl=controlled+tiebreaker")
	}
	verifAssert(UseCandidate().IsSet(m) == use, "USE-CANDIDATE-presence-round-trips")
	if nAck <= 4 {
		verifReach("acks-ok")
		verifAssert(ackErr == nil, "up-to-four-acks-encode")
		// decoding yields the message's values whatever the receiver held
		// before (a receiver kept from the previous message)
		var a2 DtlsInStunAckAttribute
		if verifChoice(2) == 1 {
			verifReach("used-receiver")
			a2 = make(DtlsInStunAckAttribute, 1+verifChoice(2), 4)
			for i := range a2 {
				a2[i] = verifU32()
			}
		}
		ok := a2.GetFrom(m) == nil && len(a2) == nAck
		verifAssert(ok, "ACK-count-round-trips")
		if ok {
			for i := range acks {
				verifAssert(a2[i] == acks[i], "ACK-values-round-trip")
			}
		}
	} else {
		verifReach("acks-too-many")
		verifAssert(ackErr != nil, "more-than-four-acks-rejected")
	}
	var pl DtlsInStunAttribute
	if verifChoice(2) == 1 {
		pl = DtlsInStunAttribute(verifBytes(2)) // a used receiver
	}
	verifAssert(pl.GetFrom(m) == nil && verifBytesEq(pl, payload), "DTLS-in-STUN-payload-round-trips")
	verifReach("done")
}

// (a') decoders reject exactly the sizes they document as invalid.
func verifC16AttrSizes() {
	n := verifChoice(21)
	raw := verifBytes(n)
	m := &stun.Message{}
	m.Add(stun.AttrPriority, raw)
	m.Add(stun.AttrICEControlling, raw)
	m.Add(stun.AttrDtlsInStunAck, raw)
	m.Add(DefaultNominationAttribute, raw)
	var p PriorityAttr
	verifAssert((p.GetFrom(m) == nil) == (n == 4), "PRIORITY-accepts-exactly-4-bytes")
	var c AttrControlling
	verifAssert((c.GetFrom(m) == nil) == (n == 8), "ICE-CONTROLLING-accepts-exactly-8-bytes")
	var ctl AttrControl
	verifAssert((ctl.GetFrom(m) == nil) == (n == 8), "AttrControl-accepts-exactly-8-bytes")
	var a DtlsInStunAckAttribute
	verifAssert((a.GetFrom(m) == nil) == (n <= 16 && n%4 == 0), "ACK-accepts-multiples-of-4-up-to-16")
	var nom NominationAttribute
	e := nom.GetFromWithType(m, DefaultNominationAttribute)
	verifAssert(verifImplies(n < 4, e != nil), "nomination-rejects-short-values")
	verifAssertKnown((e == nil) == (n == 4), "nomination-accepts-exactly-4-bytes", "C16-nomination-accepts-oversized-values", n > 4)
	verifReach("done")
}

var verifAddrPool = []string{"10.0.0.1", "10.0.0.2", "2001:db8::1", "::ffff:10.0.0.1", "abcd.local"}

type verifCandCfg struct {
	typ        int
	addr       int
	network    int
	port       int
	component  uint16
	priority   uint32
	tcpType    TCPType
	relKind    int
	relPort    int
	nExt       int
	extK, extV []string
}

func verifCandCfgSym(maxExt int) verifCandCfg {
	return verifCandCfgSymK(maxExt, true)
}

// structure (type, address, transport, related-address form) is case-split
// only when `split`; the scalar fields are always symbolic.
// verifCandCfgDec: as verifCandCfgSym but the numeric fields are given by
// their decimal digits (so that Marshal's %d is modelled exactly).
var verifDecCombos = []verifCandCfg{
	{typ: 0, network: 0, addr: 0, relKind: 0},
	{typ: 0, network: 1, addr: 2, relKind: 0},
	{typ: 0, network: 0, addr: 4, relKind: 0},
	{typ: 1, network: 0, addr: 0, relKind: 2},
	{typ: 1, network: 0, addr: 2, relKind: 1},
	{typ: 2, network: 0, addr: 3, relKind: 0},
	{typ: 3, network: 0, addr: 0, relKind: 2},
	{typ: 3, network: 1, addr: 1, relKind: 1},
}

func verifCandCfgDec(maxExt int) verifCandCfg {
	c := verifDecCombos[verifChoice(len(verifDecCombos))]
	// one numeric field at a time ranges over all its digit counts; the others
	// are one symbolic digit (no cross product of digit counts)
	focus := verifChoice(4)
	dec := func(f, maxDigits int, max uint64) uint64 {
		if focus == f {
			if verifTier() == 0 { // quick: shortest and longest renderings
				if verifChoice(2) == 0 {
					return verifDecimal(1, 1, 9)
				}
				return verifDecimal(maxDigits, maxDigits, max)
			}
			return verifDecimal(1, maxDigits, max)
		}
		return verifDecimal(1, 1, 9)
	}
	c.port = int(dec(0, 5, 65535))
	c.component = uint16(dec(1, 5, 65535))
	c.priority = uint32(dec(2, 10, 0xFFFFFFFF))
	c.tcpType = TCPType(verifInt(0, 3))
	c.relPort = int(dec(3, 5, 65535))
	c.nExt = verifChoice(maxExt + 1)
	for i := 0; i < c.nExt; i++ {
		c.extK = append(c.extK, verifString(1))
		c.extV = append(c.extV, verifString(1))
	}
	return c
}

func verifCandCfgSymK(maxExt int, split bool) verifCandCfg {
	c := verifCandCfg{}
	if split {
		c = verifCandCfg{typ: verifChoice(4), network: verifChoice(2)}
		if verifTier() == 0 {
			c.addr = 2 * verifChoice(3) // IPv4, IPv6, mDNS
		} else {
			c.addr = verifChoice(len(verifAddrPool))
		}
	}
	c.port = verifInt(0, 65535)
	c.component = verifU16()
	c.priority = verifU32()
	c.tcpType = TCPType(verifInt(0, 3))
	if split {
		c.relKind = verifChoice(2+verifTier()) * (2 - verifTier()) // quick: none / 192.168.1.1; thorough: also 0.0.0.0
	}
	c.relPort = verifInt(0, 65535)
	c.nExt = verifChoice(maxExt + 1)
	for i := 0; i < c.nExt; i++ {
		c.extK = append(c.extK, verifString(1))
		c.extV = append(c.extV, verifString(1))
	}
	return c
}

func verifBuildCand(c verifCandCfg) Candidate {
	network := []string{udp, tcp}[c.network]
	addr := verifAddrPool[c.addr]
	relAddr := []string{"", "0.0.0.0", "192.168.1.1"}[c.relKind]
	var cand Candidate
	var err error
	switch c.typ {
	case 0:
		cand, err = NewCandidateHost(&CandidateHostConfig{Network: network, Address: addr, Port: c.port, Component: c.component, Priority: c.priority, TCPType: c.tcpType})
	case 1:
		if c.addr == 4 {
			addr = "10.0.0.3" // only host candidates carry mDNS names
		}
		cand, err = NewCandidateServerReflexive(&CandidateServerReflexiveConfig{Network: network, Address: addr, Port: c.port, Component: c.component, Priority: c.priority, RelAddr: relAddr, RelPort: c.relPort})
	case 2:
		if c.addr == 4 {
			addr = "10.0.0.3"
		}
		cand, err = NewCandidatePeerReflexive(&CandidatePeerReflexiveConfig{Network: network, Address: addr, Port: c.port, Component: c.component, Priority: c.priority, RelAddr: relAddr, RelPort: c.relPort})
	default:
		if c.addr == 4 {
			addr = "10.0.0.3"
		}
		cand, err = NewCandidateRelay(&CandidateRelayConfig{Network: network, Address: addr, Port: c.port, Component: c.component, Priority: c.priority, RelAddr: relAddr, RelPort: c.relPort})
	}
	if err != nil {
		panic("verif: constructor: " + err.Error())
	}
	b := verifBaseOf(cand) // TCP types exist on host candidates only (public constructors)
	for i := 0; i < c.nExt; i++ {
		b.extensions = append(b.extensions, CandidateExtension{Key: c.extK[i], Value: c.extV[i]})
	}
	return cand
}

// (b) Equal and DeepEqual are reflexive and symmetric, DeepEqual implies Equal.
func verifC16Equality() {
	maxExt := 1 + verifTier()
	cfg1 := verifCandCfgSym(maxExt)
	// the second candidate differs from the first field by field (same or an
	// alternative), so that equal and unequal pairs are both explored
	cfg2 := verifCandCfgSymK(maxExt, false)
	if verifChoice(2) == 0 {
		cfg2.typ = cfg1.typ
	} else {
		cfg2.typ = (cfg1.typ + 1) % 4
	}
	if verifChoice(2) == 0 {
		cfg2.addr = cfg1.addr
	} else {
		cfg2.addr = (cfg1.addr + 1) % len(verifAddrPool)
	}
	if verifChoice(2) == 0 {
		cfg2.network = cfg1.network
	} else {
		cfg2.network = 1 - cfg1.network
	}
	if verifChoice(2) == 0 {
		cfg2.relKind = cfg1.relKind
	} else {
		cfg2.relKind = (cfg1.relKind + 1) % 3
	}
	c1 := verifBuildCand(cfg1)
	c2 := verifBuildCand(cfg2)
	// an mDNS host candidate may have been resolved in the meantime (the agent
	// does that for remote mDNS candidates): either side, both or none
	for _, c := range []Candidate{c1, c2} {
		if h, ok := c.(*CandidateHost); ok && h.Address() == "abcd.local" && verifChoice(2) == 1 {
			verifAssert(h.setIPAddr(netip.AddrFrom4([4]byte{10, 9, 8, 7})) == nil, "resolve")
			verifReach("mdns-resolved")
		}
	}
	hasTCP := verifBaseOf(c1).tcpType != TCPTypeUnspecified
	verifAssert(c1.Equal(c1), "Equal-reflexive")
	verifAssertKnown(c1.DeepEqual(c1), "DeepEqual-reflexive", "C16-deepequal-tcptype", hasTCP)
	e12, e21 := c1.Equal(c2), c2.Equal(c1)
	verifAssert(e12 == e21, "Equal-symmetric")
	d12, d21 := c1.DeepEqual(c2), c2.DeepEqual(c1)
	verifAssertKnown(d12 == d21, "DeepEqual-symmetric", "C16-deepequal-tcptype", verifOr(hasTCP, verifBaseOf(c2).tcpType != TCPTypeUnspecified))
	verifAssert(verifImplies(d12, e12), "DeepEqual-implies-Equal")
	if d12 {
		verifReach("deep-equal")
	}
	if e12 {
		verifReach("equal")
	}
	verifReach("done")
}

// (c) tokenizers on arbitrary text: no panic, positions in range, digit value = Horner value.
func verifC16Tokenizers() {
	n := verifChoice(5 + 2*verifTier())
	raw := verifString(n)
	start := verifChoice(n + 1)
	which := verifChoice(5)
	switch which {
	case 0:
		tok, pos, err := readCandidateCharToken(raw, start, 3)
		if err == nil {
			verifAssert(pos >= start && pos <= len(raw) && len(tok) <= 3+0 && len(tok) <= len(raw)-start, "char-token:positions-in-range")
			for i := 0; i < len(tok); i++ {
				ch := tok[i]
				verifAssert(verifOr(verifOr(verifAnd(ch >= 'A', ch <= 'Z'), verifAnd(ch >= 'a', ch <= 'z')), verifOr(verifAnd(ch >= '0', ch <= '9'), verifOr(ch == '+', ch == '/'))), "char-token:only-ice-chars")
			}
		}
	case 1:
		tok, pos := readCandidateStringToken(raw, start)
		verifAssert(pos >= start && pos <= len(raw) && len(tok) <= len(raw)-start, "string-token:positions-in-range")
		for i := 0; i < len(tok); i++ {
			verifAssert(tok[i] != ' ', "string-token:no-space-inside")
		}
	case 2:
		val, pos, err := readCandidateDigitToken(raw, start, 5)
		if err == nil {
			verifReach("digits")
			verifAssert(pos >= start && pos <= len(raw), "digit-token:positions-in-range")
			verifAssert(val >= 0 && val <= 99999, "digit-token:at-most-5-digits")
			// Horner value of the digits read
			want, k := 0, start
			for k < len(raw) && raw[k] != ' ' {
				want = want*10 + int(raw[k]-'0')
				k++
			}
			verifAssert(val == want, "digit-token:value=decimal-value-of-the-digits")
		}
	case 3:
		port, pos, err := readCandidatePort(raw, start)
		if err == nil {
			verifAssert(port >= 0 && port <= 65535 && pos >= start && pos <= len(raw), "port:0..65535,positions-in-range")
		}
	default:
		tok, pos, err := readCandidateByteString(raw, start)
		if err == nil {
			verifAssert(pos >= start && pos <= len(raw) && len(tok) <= len(raw)-start, "byte-string:positions-in-range")
			for i := 0; i < len(tok); i++ {
				verifAssert(verifAnd(tok[i] != 0, verifAnd(tok[i] != '\n', tok[i] != '\r')), "byte-string:no-NUL-CR-LF")
			}
		}
	}
	verifReach("done")
}

func verifExtASCIIOK(b byte) bool {
	return verifAnd(verifAnd(b > 0x20, b < 0x7F), verifAnd(b != '\n', b != '\r'))
}

func verifExtByteOK(b byte) bool {
	// RFC 5245 byte-string: any byte except NUL, LF, CR — and SP, the separator
	// (1*(%x01-09/%x0B-0C/%x0E-FF)); bytes above 0x7F included, whatever UTF-8
	// sequence they may or may not form
	return verifAnd(verifAnd(b != 0, b != ' '), verifAnd(b != '\n', b != '\r'))
}

// (c') unmarshalCandidateExtensions(marshalExtensions(x)) = x.
func verifC16Extensions() {
	n := verifChoice(3 + verifTier())
	c := &candidateBase{}
	for i := 0; i < n; i++ {
		k, v := verifString(1+verifChoice(2)), verifString(1+verifChoice(2))
		// the first byte of the first key and value ranges over the whole
		// byte-string alphabet (bytes above 0x7F included), the others over its
		// printable ASCII part (keeps the case split over UTF-8 sequences small)
		for j := 0; j < len(k); j++ {
			verifAssume(verifIteBool(i == 0 && j == 0, verifExtByteOK(k[j]), verifExtASCIIOK(k[j])))
		}
		for j := 0; j < len(v); j++ {
			verifAssume(verifIteBool(i == 0 && j == 0, verifExtByteOK(v[j]), verifExtASCIIOK(v[j])))
		}
		verifAssume(!verifStrEq(k, "tcptype"))
		c.extensions = append(c.extensions, CandidateExtension{k, v})
	}
	c.tcpType = TCPType(verifInt(0, 3))
	text := c.marshalExtensions()
	exts, tcpRaw, err := unmarshalCandidateExtensions(text)
	verifAssert(err == nil, "marshalled-extensions-parse")
	verifAssert(len(exts) == n, "same-number-of-extensions")
	if len(exts) == n {
		for i := range exts {
			verifAssert(verifAnd(verifStrEq(exts[i].Key, c.extensions[i].Key), verifStrEq(exts[i].Value, c.extensions[i].Value)), "extension-keys-and-values-round-trip")
		}
	}
	verifAssert(NewTCPType(tcpRaw) == c.tcpType, "tcptype-round-trips")
	verifReach("done")
}

// (d) Marshal then UnmarshalCandidate yields an equal candidate with the same fields.
func verifC16RoundTrip() {
	cfg := verifCandCfgDec(1)
	verifAssume(cfg.priority != 0) // 0 means "compute": explicit priorities only here
	for i := 0; i < cfg.nExt; i++ {
		verifAssume(verifAnd(verifExtByteOK(cfg.extK[i][0]), verifExtByteOK(cfg.extV[i][0])))
	}
	if cfg.relKind == 0 {
		cfg.relPort = 0 // "no related address" is ("", 0)
	}
	c := verifBuildCand(cfg)
	text := c.Marshal()
	p, err := UnmarshalCandidate(text)
	verifAssert(err == nil, "marshalled-candidate-parses")
	if err != nil {
		return
	}
	verifAssert(p.Component() == c.Component(), "component-round-trips")
	verifAssert(p.Priority() == c.Priority(), "priority-round-trips")
	verifAssert(p.Port() == c.Port(), "port-round-trips")
	verifAssert(p.Type() == c.Type(), "type-round-trips")
	verifAssert(p.NetworkType() == c.NetworkType(), "transport-round-trips")
	verifAssert(p.Address() == c.Address(), "address-round-trips")
	verifAssert(p.TCPType() == c.TCPType(), "tcp-type-round-trips")
	verifAssert(p.Foundation() == c.Foundation(), "foundation-round-trips")
	ra, rb := c.RelatedAddress(), p.RelatedAddress()
	if ra != nil && ra.Address != "" && ra.Port != 0 {
		verifReach("related")
		verifAssert(rb != nil && rb.Address == ra.Address && rb.Port == ra.Port, "related-address-round-trips")
	}
	verifAssertKnown(c.Equal(p) && p.Equal(c), "parsed-candidate-Equal-to-original", "C16-roundtrip-related-address-zero", verifAnd(cfg.typ != 0, verifAnd(cfg.relKind != 0, cfg.relPort == 0)))
	verifReach("done")
}

// (d') parsing arbitrary text never panics; whatever it accepts re-marshals to
// text that parses to an equal candidate.
func verifC16ParseAny() {
	prefixes := []string{"1 1 udp 5 10.0.0.1 7 typ host", "f 2 tcp 9 10.0.0.2 65535 typ srflx raddr 1.1.1.1 rport 9", ""}
	pre := prefixes[verifChoice(len(prefixes))]
	tail := verifString(verifChoice(4 + 2*verifTier()))
	raw := pre + tail
	c, err := UnmarshalCandidate(raw)
	if err != nil {
		return
	}
	verifReach("accepted")
	again, err2 := UnmarshalCandidate(c.Marshal())
	verifAssert(err2 == nil, "accepted-text-re-marshals-to-parseable-text")
	if err2 == nil {
		verifAssertKnown(again.Equal(c), "re-parsed-candidate-equal", "C16-roundtrip-related-address-zero", true)
	}
	verifReach("done")
}

// (b') DeepEqual on candidates that differ only in their extension lists is
// multiset equality of (key, value) pairs: extension names need not be unique
// (RFC 5245 §15.1), order does not matter.
func verifC16ExtensionEquality() {
	n := 2 + verifChoice(1+verifTier())
	mk := func() (Candidate, []CandidateExtension) {
		c, err := NewCandidateHost(&CandidateHostConfig{Network: udp, Address: "10.0.0.1", Port: 53987, Component: 1, Priority: 500})
		if err != nil {
			panic("verif: constructor: " + err.Error())
		}
		b := verifBaseOf(c)
		for i := 0; i < n; i++ {
			b.extensions = append(b.extensions, CandidateExtension{Key: verifString(1), Value: verifString(1)})
		}
		return c, b.extensions
	}
	c1, x1 := mk()
	c2, x2 := mk()
	same := func(a, b CandidateExtension) bool {
		return verifAnd(verifStrEq(a.Key, b.Key), verifStrEq(a.Value, b.Value))
	}
	count := func(x CandidateExtension, in []CandidateExtension) int {
		k := 0
		for i := range in {
			k += verifIteInt(same(x, in[i]), 1, 0)
		}
		return k
	}
	multisetEq := true
	for i := range x1 {
		multisetEq = verifAnd(multisetEq, count(x1[i], x1) == count(x1[i], x2))
	}
	verifAssert(c1.DeepEqual(c1), "DeepEqual-reflexive(repeated-extension-names)")
	d12, d21 := c1.DeepEqual(c2), c2.DeepEqual(c1)
	verifAssert(d12 == d21, "DeepEqual-symmetric(repeated-extension-names)")
	verifAssert(d12 == multisetEq, "DeepEqual=multiset-equality-of-extensions")
	verifAssert(c1.Equal(c2), "Equal-ignores-extensions")
	if d12 {
		verifReach("deep-equal")
	} else {
		verifReach("not-deep-equal")
	}
	verifReach("done")
}

// (d') a candidate with an explicit foundation (what a parsed remote candidate
// has, and what CandidateXConfig.Foundation sets): the foundation is any
// string of ice-chars, and Marshal/UnmarshalCandidate keep it byte for byte —
// with and without the optional "candidate:" prefix (seed C16-7 stripped
// leading letters of the foundation that occur in the word "candidate").
func verifIceChar(b byte) bool {
	alpha := verifOr(verifAnd(b >= 'a', b <= 'z'), verifAnd(b >= 'A', b <= 'Z'))
	return verifOr(verifOr(alpha, verifAnd(b >= '0', b <= '9')), verifOr(b == '+', b == '/'))
}

func verifC16FoundationRoundTrip() {
	f := verifString(1 + verifChoice(2+verifTier()))
	for i := 0; i < len(f); i++ {
		verifAssume(verifIceChar(f[i]))
	}
	cand, err := NewCandidateHost(&CandidateHostConfig{Network: udp, Address: "10.0.0.1", Port: 4000, Component: 1, Priority: 7, Foundation: f})
	if err != nil {
		panic("verif: constructor: " + err.Error())
	}
	verifAssert(verifStrEq(cand.Foundation(), f), "explicit-foundation-is-reported")
	text := cand.Marshal()
	if verifChoice(2) == 1 {
		verifReach("prefixed")
		text = "candidate:" + text
	}
	p, err := UnmarshalCandidate(text)
	verifAssert(err == nil, "marshalled-candidate-parses")
	if err != nil {
		return
	}
	verifAssert(verifStrEq(p.Foundation(), f), "foundation-round-trips-byte-for-byte")
	verifAssert(verifStrEq(p.Marshal(), cand.Marshal()), "re-marshalled-text-identical")
	verifAssert(cand.Equal(p), "parsed-candidate-Equal-to-original")
	verifReach("done")
}
