package ice

// C20 — renomination: the latest nomination wins.

import (
	"github.com/pion/stun/v3"
)

func init() {
	verifRegister("verifC20AcceptSequence", verifC20AcceptSequence)
	verifRegister("verifC20Controlled", verifC20Controlled)
	verifRegister("verifC20Controlling", verifC20Controlling)
	verifRegister("verifC20Deferred", verifC20Deferred)
	verifRegister("verifC20Renominate", verifC20Renominate)
	verifRegister("verifC20Codec", verifC20Codec)
}

// (1) for any sequence of nominations the i-th is accepted iff it has no value
// or its value exceeds every value accepted before.
func verifC20AcceptSequence() {
	s := &controlledSelector{agent: &Agent{}, log: verifNopLogger{}}
	s.Start()
	n := 3 + verifTier()
	haveMax := false
	var maxAccepted uint32
	for i := 0; i < n; i++ {
		if verifChoice(2) == 0 {
			verifAssert(s.shouldAcceptNomination(nil), "plain-nomination-always-accepted")
			continue
		}
		v := verifU32()
		got := s.shouldAcceptNomination(&v)
		want := verifOr(!haveMax, v > maxAccepted)
		verifAssert(got == want, "accepted-iff-greater-than-every-accepted-value")
		if got {
			maxAccepted = v
			haveMax = true
		}
		verifAssert(haveMax && s.lastNomination != nil && *s.lastNomination == maxAccepted, "stored-maximum=last-accepted")
	}
	verifReach("done")
}

// (2)(3)(5) one authenticated message with a nomination value.
func verifC20Controlled() {
	verifC20Inbound(verifStepCfg{nLocal: 2, nRemote: 1, renomination: true, classes: []stun.MessageClass{stun.ClassRequest}, onlyAuth: true, role: 2, maxPend: 1})
}

func verifC20Controlling() {
	verifC20Inbound(verifStepCfg{nLocal: 1 + verifTier(), nRemote: 1, renomination: true, classes: []stun.MessageClass{stun.ClassSuccessResponse}, onlyAuth: true, role: 1})
}

func verifC20Inbound(cfg verifStepCfg) {
	s := verifInboundStep(cfg)
	w := s.w
	local := Candidate(w.locals[s.localIdx])
	known, isKnown := s.knownRemote()
	if !isKnown {
		return
	}
	idx := -1
	for i, ps := range s.before.pairs {
		if ps.p.Local == local && ps.p.Remote == known {
			idx = i
		}
	}
	if idx < 0 {
		return
	}
	pair := s.before.pairs[idx].p

	if !s.controlling && s.class == stun.ClassRequest && s.nomKind == 1 {
		var last *uint32 = s.before.lastNom
		accepted := last == nil || s.nomValue > *last
		if accepted {
			verifReach("nomination-accepted")
			verifAssert(s.after.lastNom != nil && *s.after.lastNom == s.nomValue, "accepted-value-is-remembered")
			if s.before.pairs[idx].state == CandidatePairStateSucceeded {
				verifReach("accepted-on-valid-pair")
				verifAssert(s.after.selected == pair, "accepted-nomination-on-a-valid-pair=>selected-whatever-the-priorities")
			} else {
				verifAssert(s.after.pairs[idx].nomOnSucc, "accepted-nomination-on-a-not-yet-valid-pair=>deferred")
				verifAssert(s.after.selected == s.before.selected, "not-yet-valid-pair-is-not-selected")
			}
		} else {
			verifReach("nomination-rejected")
			verifAssert(s.after.selected == s.before.selected, "stale-nomination=>selection-unchanged")
			verifAssert(s.after.lastNom == s.before.lastNom, "stale-nomination=>stored-maximum-unchanged")
			verifAssert(s.after.pairs[idx].nominated == s.before.pairs[idx].nominated && s.after.pairs[idx].nomOnSucc == s.before.pairs[idx].nomOnSucc,
				"stale-nomination=>flags-unchanged")
		}
		// a success response is sent either way
		n := 0
		for _, m := range s.newDatagrams() {
			if m != nil && m.Type.Class == stun.ClassSuccessResponse && m.TransactionID == s.id {
				n++
			}
		}
		verifAssert(n == 1, "nomination-request-is-answered-with-success")
	}

	if s.controlling && s.class == stun.ClassSuccessResponse {
		ok, p := s.matchingPendingSurely()
		if ok && p.use {
			verifReach("controlling-nomination-response")
			if p.nom != nil {
				verifReach("valued")
				verifAssert(s.after.selected == pair, "response-to-a-valued-nomination-always-switches")
			} else {
				verifAssert(s.after.selected == pair || (s.before.selected != nil && s.after.selected == s.before.selected), "response-to-a-plain-nomination-selects-only-when-nothing-was-selected")
				if s.before.selected != nil {
					verifAssert(s.after.selected == s.before.selected, "plain-nomination-response-keeps-an-existing-selection")
				}
			}
		}
	}
	verifReach("done")
}

// (4) two steps: an accepted nomination on a not-yet-valid pair, then that
// pair's matched success response => the pair is selected whatever the
// priorities.
func verifC20Deferred() {
	w := verifNewWorld(false, false, 2, 1)
	a := w.a
	a.enableRenomination = true
	w.pairAll()
	for _, l := range w.locals {
		l.priorityOverride = verifU32()
		verifAssume(l.priorityOverride != 0)
	}
	first, second := a.checklist[0], a.checklist[1]
	// nomination 1 already selected the first pair
	first.state, first.nominated = CandidatePairStateSucceeded, true
	a.selectedPair.Store(first)
	a.connectionState = ConnectionStateConnected
	v1 := verifU32() & 0xFFFFFF
	a.selector.(*controlledSelector).lastNomination = &v1
	second.state = CandidatePairState(verifInt(1, 2)) // waiting or in progress: not yet valid

	// step 1: nomination 2 (greater value) arrives on the second pair
	v2 := verifU32() & 0xFFFFFF
	verifAssume(v2 > v1)
	id := verifTxID()
	req, err := stun.Build(stun.BindingRequest, stun.NewTransactionIDSetter(id), stun.NewUsername(verifExpectedUsername), UseCandidate(),
		NominationSetter{Value: v2, AttrType: DefaultNominationAttribute}, AttrControlling(1), PriorityAttr(5),
		stun.NewShortTermIntegrity(verifLocalPwd), stun.Fingerprint)
	verifAssert(err == nil, "build")
	src := w.remotes[0].addrPort()
	a.handleInbound(req, w.locals[1], src)
	verifAssert(second.nominateOnBindingSuccess, "nomination-deferred-until-valid")
	verifAssert(a.getSelectedPair() == first, "selection-kept-until-valid")
	// the triggered check that went out
	verifAssert(len(w.conns[1].sent) == 2, "success-response-and-triggered-check-sent")
	var check *stun.Message
	for i := range w.conns[1].sent {
		if m := verifParseSent(w.conns[1], i); m != nil && m.Type.Class == stun.ClassRequest {
			check = m
		}
	}
	verifAssert(check != nil, "triggered-check-sent")
	if check == nil {
		return
	}
	// step 2: its matched, authenticated success response
	resp, err := stun.Build(stun.BindingSuccess, stun.NewTransactionIDSetter(check.TransactionID), stun.NewShortTermIntegrity(verifRemotePwd), stun.Fingerprint)
	verifAssert(err == nil, "build")
	a.handleInbound(resp, w.locals[1], src)
	verifAssert(second.state == CandidatePairStateSucceeded, "second-pair-valid")
	lower := second.priority() < first.priority()
	verifAssertKnown(a.getSelectedPair() == second, "latest-nomination-wins-once-the-pair-is-valid", "C20-deferred-nomination-compares-priority", lower)
	verifReach("done")
}

// (5) only a controlling agent with the feature enabled can renominate.
func verifC20Renominate() {
	controlling := verifChoice(2) == 1
	enabled := verifChoice(2) == 1
	w := verifNewWorld(controlling, false, 1, 1)
	a := w.a
	a.enableRenomination = enabled
	w.pairAll()
	value := verifU32()
	a.nominationValueGenerator = func() uint32 { return value }
	err := a.RenominateCandidate(w.locals[0], w.remotes[0])
	switch {
	case !controlling:
		verifAssert(err == ErrOnlyControllingAgentCanRenominate && w.sentCount() == 0, "controlled-agent-cannot-renominate")
	case !enabled:
		verifAssert(err == ErrRenominationNotEnabled && w.sentCount() == 0, "feature-disabled=>error,nothing-sent")
	default:
		verifReach("renominated")
		verifAssert(err == nil && w.sentCount() == 1, "one-request-sent")
		m := verifParseSent(w.conns[0], 0)
		verifAssert(m != nil && m.Type.Class == stun.ClassRequest && m.Contains(stun.AttrUseCandidate), "request-carries-USE-CANDIDATE")
		if m != nil && value&0xFFFFFF != 0 && value <= 0xFFFFFF {
			verifReach("valued")
			var n NominationAttribute
			e := n.GetFromWithType(m, a.nominationAttribute)
			verifAssert(e == nil && n.Value == value, "request-carries-the-generator-value")
			pr := a.pendingBindingRequests[len(a.pendingBindingRequests)-1]
			verifAssert(pr.isUseCandidate && pr.nominationValue != nil && *pr.nominationValue == value, "transaction-recorded-with-its-value")
		}
	}
	err = a.RenominateCandidate(w.locals[0], &CandidateHost{})
	if controlling && enabled {
		verifAssert(err == ErrCandidatePairNotFound, "unknown-pair=>error")
	}
	verifReach("done")
}

// (6) nomination values below 2^24 survive the attribute encoding.
func verifC20Codec() {
	v := verifU32()
	m := &stun.Message{}
	verifAssert(NominationSetter{Value: v, AttrType: DefaultNominationAttribute}.AddTo(m) == nil, "encode")
	var n NominationAttribute
	verifAssert(n.GetFromWithType(m, DefaultNominationAttribute) == nil, "decode")
	verifAssert(verifImplies(v < 1<<24, n.Value == v), "values-below-2^24-round-trip")
	verifAssert(n.Value == v&0xFFFFFF, "decoded=low-24-bits")
	verifReach("done")
}
