package ice

// C20 — renomination: the latest nomination wins.

import (
	"github.com/pion/stun/v3"
)

func init() {
	verifRegister("verifC20AcceptSequence", verifC20AcceptSequence)
	verifRegister("verifC20Controlled", verifC20Controlled)
	verifRegister("verifC20Controlling", verifC20Controlling)
	verifRegister("verifC20Deferred", verifC20Deferred)
	verifRegister("verifC20DeferredSuperseded", verifC20DeferredSuperseded)
	verifRegister("verifC20DeferredRearmed", verifC20DeferredRearmed)
	verifRegister("verifC20ControllingReorder", verifC20ControllingReorder)
	verifRegister("verifC20DeferredConsumedOnce", verifC20DeferredConsumedOnce)
	verifRegister("verifC20Renominate", verifC20Renominate)
	verifRegister("verifC20Codec", verifC20Codec)
}

// (1) for any sequence of nominations the i-th is accepted iff it has no value
// or its value exceeds every value accepted before.
func verifC20AcceptSequence() {
	s := &controlledSelector{agent: &Agent{}, log: verifNopLogger{}}
	s.Start()
	n := 3 + verifTier()
	haveMax := false
	var maxAccepted uint32
	for i := 0; i < n; i++ {
		if verifChoice(2) == 0 {
			verifAssert(s.shouldAcceptNomination(nil), "plain-nomination-always-accepted")
			continue
		}
		v := verifU32()
		got := s.shouldAcceptNomination(&v)
		want := verifOr(!haveMax, v > maxAccepted)
		verifAssert(got == want, "accepted-iff-greater-than-every-accepted-value")
		if got {
			maxAccepted = v
			haveMax = true
		}
		verifAssert(haveMax && s.lastNomination != nil && *s.lastNomination == maxAccepted, "stored-maximum=last-accepted")
	}
	verifReach("done")
}

// (2)(3)(5) one authenticated message with a nomination value.
func verifC20Controlled() {
	verifC20Inbound(verifStepCfg{nLocal: 2, nRemote: 1, renomination: true, classes: []stun.MessageClass{stun.ClassRequest}, onlyAuth: true, role: 2, maxPend: 1})
}

func verifC20Controlling() {
	verifC20Inbound(verifStepCfg{nLocal: 1 + verifTier(), nRemote: 1, renomination: true, classes: []stun.MessageClass{stun.ClassSuccessResponse}, onlyAuth: true, role: 1})
}

func verifC20Inbound(cfg verifStepCfg) {
	s := verifInboundStep(cfg)
	w := s.w
	local := Candidate(w.locals[s.localIdx])
	known, isKnown := s.knownRemote()
	if !isKnown {
		return
	}
	idx := -1
	for i, ps := range s.before.pairs {
		if ps.p.Local == local && ps.p.Remote == known {
			idx = i
		}
	}
	if idx < 0 {
		return
	}
	pair := s.before.pairs[idx].p

	if !s.controlling && s.class == stun.ClassRequest && s.nomKind == 1 {
		var last *uint32 = s.before.lastNom
		accepted := last == nil || s.nomValue > *last
		if accepted {
			verifReach("nomination-accepted")
			verifAssert(s.after.lastNom != nil && *s.after.lastNom == s.nomValue, "accepted-value-is-remembered")
			if s.before.pairs[idx].state == CandidatePairStateSucceeded {
				verifReach("accepted-on-valid-pair")
				verifAssert(s.after.selected == pair, "accepted-nomination-on-a-valid-pair=>selected-whatever-the-priorities")
			} else {
				verifAssert(s.after.pairs[idx].nomOnSucc, "accepted-nomination-on-a-not-yet-valid-pair=>deferred")
				verifAssert(s.after.selected == s.before.selected, "not-yet-valid-pair-is-not-selected")
			}
		} else {
			verifReach("nomination-rejected")
			verifAssert(s.after.selected == s.before.selected, "stale-nomination=>selection-unchanged")
			verifAssert(s.after.lastNom == s.before.lastNom, "stale-nomination=>stored-maximum-unchanged")
			verifAssert(s.after.pairs[idx].nominated == s.before.pairs[idx].nominated && s.after.pairs[idx].nomOnSucc == s.before.pairs[idx].nomOnSucc,
				"stale-nomination=>flags-unchanged")
		}
		// a success response is sent either way
		n := 0
		for _, m := range s.newDatagrams() {
			if m != nil && m.Type.Class == stun.ClassSuccessResponse && m.TransactionID == s.id {
				n++
			}
		}
		verifAssert(n == 1, "nomination-request-is-answered-with-success")
	}

	if s.controlling && s.class == stun.ClassSuccessResponse {
		ok, p := s.matchingPendingSurely()
		if ok && p.use {
			verifReach("controlling-nomination-response")
			if p.nom != nil {
				verifReach("valued")
				// latest nomination wins on the controlling side too: the response
				// switches iff its value exceeds every value confirmed before
				newer := s.confirmedBefore == nil || *p.nom > *s.confirmedBefore
				if newer { // forks
					verifReach("valued-newer")
					verifAssert(s.after.selected == pair, "response-to-the-newest-renomination-switches-whatever-the-priorities")
				} else {
					verifReach("valued-late")
					verifAssert(s.after.selected == s.before.selected, "late-response-to-an-older-renomination-does-not-move-the-selection-back")
				}
			} else {
				verifAssert(s.after.selected == pair || (s.before.selected != nil && s.after.selected == s.before.selected), "response-to-a-plain-nomination-selects-only-when-nothing-was-selected")
				if s.before.selected != nil {
					verifAssert(s.after.selected == s.before.selected, "plain-nomination-response-keeps-an-existing-selection")
				}
			}
		}
	}
	verifReach("done")
}

// (4) two steps: an accepted nomination on a not-yet-valid pair, then that
// pair's matched success response => the pair is selected whatever the
// priorities.
func verifC20Deferred() {
	w := verifNewWorld(false, false, 2, 1)
	a := w.a
	a.enableRenomination = true
	w.pairAll()
	for _, l := range w.locals {
		l.priorityOverride = verifU32()
		verifAssume(l.priorityOverride != 0)
	}
	first, second := a.checklist[0], a.checklist[1]
	// nomination 1 already selected the first pair
	first.state, first.nominated = CandidatePairStateSucceeded, true
	a.selectedPair.Store(first)
	a.connectionState = ConnectionStateConnected
	v1 := verifU32() & 0xFFFFFF
	a.selector.(*controlledSelector).lastNomination = &v1
	second.state = CandidatePairState(verifInt(1, 2)) // waiting or in progress: not yet valid

	// step 1: nomination 2 (greater value) arrives on the second pair
	v2 := verifU32() & 0xFFFFFF
	verifAssume(v2 > v1)
	id := verifTxID()
	req, err := stun.Build(stun.BindingRequest, stun.NewTransactionIDSetter(id), stun.NewUsername(verifExpectedUsername), UseCandidate(),
		NominationSetter{Value: v2, AttrType: DefaultNominationAttribute}, AttrControlling(1), PriorityAttr(5),
		stun.NewShortTermIntegrity(verifLocalPwd), stun.Fingerprint)
	verifAssert(err == nil, "build")
	src := w.remotes[0].addrPort()
	a.handleInbound(req, w.locals[1], src)
	verifAssert(second.nominateOnBindingSuccess, "nomination-deferred-until-valid")
	verifAssert(a.getSelectedPair() == first, "selection-kept-until-valid")
	// the triggered check that went out
	verifAssert(len(w.conns[1].sent) == 2, "success-response-and-triggered-check-sent")
	var check *stun.Message
	for i := range w.conns[1].sent {
		if m := verifParseSent(w.conns[1], i); m != nil && m.Type.Class == stun.ClassRequest {
			check = m
		}
	}
	verifAssert(check != nil, "triggered-check-sent")
	if check == nil {
		return
	}
	// step 2: its matched, authenticated success response
	resp, err := stun.Build(stun.BindingSuccess, stun.NewTransactionIDSetter(check.TransactionID), stun.NewShortTermIntegrity(verifRemotePwd), stun.Fingerprint)
	verifAssert(err == nil, "build")
	a.handleInbound(resp, w.locals[1], src)
	verifAssert(second.state == CandidatePairStateSucceeded, "second-pair-valid")
	lower := second.priority() < first.priority()
	verifAssertKnown(a.getSelectedPair() == second, "latest-nomination-wins-once-the-pair-is-valid", "C20-deferred-nomination-compares-priority", lower)
	verifReach("done")
}

// (5) only a controlling agent with the feature enabled can renominate.
func verifC20Renominate() {
	controlling := verifChoice(2) == 1
	enabled := verifChoice(2) == 1
	w := verifNewWorld(controlling, false, 1, 1)
	a := w.a
	a.loop = verifLoop() // public API calls go through the agent loop
	a.enableRenomination = enabled
	w.pairAll()
	value := verifU32()
	a.nominationValueGenerator = func() uint32 { return value }
	err := a.RenominateCandidate(w.locals[0], w.remotes[0])
	switch {
	case !controlling:
		verifAssert(err == ErrOnlyControllingAgentCanRenominate && w.sentCount() == 0, "controlled-agent-cannot-renominate")
	case !enabled:
		verifAssert(err == ErrRenominationNotEnabled && w.sentCount() == 0, "feature-disabled=>error,nothing-sent")
	default:
		verifReach("renominated")
		verifAssert(err == nil && w.sentCount() == 1, "one-request-sent")
		m := verifParseSent(w.conns[0], 0)
		verifAssert(m != nil && m.Type.Class == stun.ClassRequest && m.Contains(stun.AttrUseCandidate), "request-carries-USE-CANDIDATE")
		if m != nil && value&0xFFFFFF != 0 && value <= 0xFFFFFF {
			verifReach("valued")
			var n NominationAttribute
			e := n.GetFromWithType(m, a.nominationAttribute)
			verifAssert(e == nil && n.Value == value, "request-carries-the-generator-value")
			pr := a.pendingBindingRequests[len(a.pendingBindingRequests)-1]
			verifAssert(pr.isUseCandidate && pr.nominationValue != nil && *pr.nominationValue == value, "transaction-recorded-with-its-value")
		}
	}
	err = a.RenominateCandidate(w.locals[0], &CandidateHost{})
	if controlling && enabled {
		verifAssert(err == ErrCandidatePairNotFound, "unknown-pair=>error")
	}
	verifReach("done")
}

// (6) nomination values below 2^24 survive the attribute encoding.
func verifC20Codec() {
	v := verifU32()
	m := &stun.Message{}
	verifAssert(NominationSetter{Value: v, AttrType: DefaultNominationAttribute}.AddTo(m) == nil, "encode")
	var n NominationAttribute
	verifAssert(n.GetFromWithType(m, DefaultNominationAttribute) == nil, "decode")
	verifAssert(verifImplies(v < 1<<24, n.Value == v), "values-below-2^24-round-trip")
	verifAssert(n.Value == v&0xFFFFFF, "decoded=low-24-bits")
	verifReach("done")
}

// (3') the latest nomination wins also when an EARLIER one is still waiting
// for its pair to become valid: value v1 arrives on a not-yet-valid pair B
// (deferred), then value v2 arrives on the valid pair A, then B's own check
// succeeds. Whatever the priorities: the final selection is the pair of the
// greater value — A if v2 > v1 (the stale deferred nomination must not take
// the selection back), B if v2 <= v1 (v2 was rejected on arrival).
func verifC20DeferredSuperseded() {
	w := verifNewWorld(false, false, 2, 1)
	a := w.a
	a.enableRenomination = true
	w.pairAll()
	for _, l := range w.locals {
		l.priorityOverride = 1 + uint32(verifU8())
	}
	pa, pb := a.checklist[0], a.checklist[1]
	pa.state = CandidatePairStateSucceeded // A is valid, B is still being checked
	pb.state = CandidatePairState(verifInt(1, 2))
	src := w.remotes[0].addrPort()
	nominate := func(li int, v uint32) {
		req, err := stun.Build(stun.BindingRequest, stun.NewTransactionIDSetter(verifTxID()), stun.NewUsername(verifExpectedUsername), UseCandidate(),
			NominationSetter{Value: v, AttrType: DefaultNominationAttribute}, AttrControlling(1), PriorityAttr(5),
			stun.NewShortTermIntegrity(verifLocalPwd), stun.Fingerprint)
		verifAssert(err == nil, "build")
		a.handleInbound(req, w.locals[li], src)
	}
	v1, v2 := verifU32()&0xFFFFFF, verifU32()&0xFFFFFF
	// step 1: v1 on B (not valid yet): accepted, deferred
	nominate(1, v1)
	verifAssert(pb.nominateOnBindingSuccess && a.getSelectedPair() == nil, "first-nomination-deferred-until-its-pair-is-valid")
	var check *stun.Message
	for i := range w.conns[1].sent {
		if m := verifParseSent(w.conns[1], i); m != nil && m.Type.Class == stun.ClassRequest {
			check = m
		}
	}
	verifAssert(check != nil, "triggered-check-sent")
	if check == nil {
		return
	}
	// step 2: v2 on the valid pair A
	nominate(0, v2)
	newer := v2 > v1
	if newer {
		verifReach("superseded")
		verifAssert(a.getSelectedPair() == pa, "greater-value-on-a-valid-pair-selects-it-at-once")
	} else {
		verifReach("stale-second")
		verifAssert(a.getSelectedPair() == nil, "smaller-or-equal-value-changes-nothing")
	}
	// step 3: B's own check succeeds
	resp, err := stun.Build(stun.BindingSuccess, stun.NewTransactionIDSetter(check.TransactionID), stun.NewShortTermIntegrity(verifRemotePwd), stun.Fingerprint)
	verifAssert(err == nil, "build")
	a.handleInbound(resp, w.locals[1], src)
	verifAssert(pb.state == CandidatePairStateSucceeded, "second-pair-valid")
	if newer {
		verifAssertKnown(a.getSelectedPair() == pa, "a-superseded-deferred-nomination-does-not-take-the-selection-back", "C20-stale-deferred-nomination-fires", true)
	} else {
		verifAssert(a.getSelectedPair() == pb, "the-highest-accepted-value's-pair-is-selected-once-valid")
	}
	verifReach("done")
}

// (2') the controlling side and reordered responses: it renominates pair A
// (value v) and then pair B (a greater value); the two success responses may
// arrive in either order, the older one possibly after the newer. When the
// exchange has quiesced it must sit on B — the pair carrying the highest
// value it issued, which is where the controlled side ends.
func verifC20ControllingReorder() {
	w := verifNewWorld(true, false, 2, 1)
	a := w.a
	a.loop = verifLoop() // public API calls go through the agent loop
	a.enableRenomination = true
	w.pairAll()
	for _, l := range w.locals {
		l.priorityOverride = 1 + uint32(verifU8())
	}
	pa, pb := a.checklist[0], a.checklist[1]
	pa.state, pb.state = CandidatePairStateSucceeded, CandidatePairStateSucceeded
	v := verifU32() & 0xFFFFFF
	verifAssume(verifAnd(v >= 1, v < 0xFFFFFF))
	next := v
	a.nominationValueGenerator = func() uint32 { r := next; next++; return r }
	verifAssert(a.RenominateCandidate(pa.Local, pa.Remote) == nil, "renominate-A")
	verifAssert(a.RenominateCandidate(pb.Local, pb.Remote) == nil, "renominate-B")
	reqOf := func(ci int) *stun.Message {
		var m *stun.Message
		for i := range w.conns[ci].sent {
			if x := verifParseSent(w.conns[ci], i); x != nil && x.Type.Class == stun.ClassRequest {
				m = x
			}
		}
		return m
	}
	ra, rb := reqOf(0), reqOf(1)
	verifAssert(ra != nil && rb != nil, "both-nominations-sent")
	if ra == nil || rb == nil {
		return
	}
	src := w.remotes[0].addrPort()
	answer := func(req *stun.Message, li int) {
		resp, err := stun.Build(stun.BindingSuccess, stun.NewTransactionIDSetter(req.TransactionID), stun.NewShortTermIntegrity(verifRemotePwd), stun.Fingerprint)
		verifAssert(err == nil, "build")
		a.handleInbound(resp, w.locals[li], src)
	}
	if verifChoice(2) == 0 {
		verifReach("in-order")
		answer(ra, 0)
		answer(rb, 1)
	} else {
		verifReach("reordered")
		answer(rb, 1)
		verifAssert(a.getSelectedPair() == pb, "response-to-the-latest-renomination-selects-its-pair")
		answer(ra, 0) // the older nomination's response arrives late
	}
	verifAssertKnown(a.getSelectedPair() == pb, "controlling-side-ends-on-the-pair-of-the-highest-value-it-issued", "C20-controlling-late-response-switches-back", true)
	verifReach("done")
}

// (3”) a deferred nomination is consumed when its pair becomes valid: a later
// success response on that pair (the answer to a keepalive) must not apply it
// a second time. Plain USE-CANDIDATE on not-yet-valid P (deferred), P's check
// succeeds (P selected), a tick sends a keepalive on P, the peer renominates
// the valid pair Q (selected), then the keepalive's response arrives: the
// selection stays on Q whatever the priorities.
func verifC20DeferredConsumedOnce() {
	w := verifNewWorld(false, false, 2, 1)
	a := w.a
	a.enableRenomination = true
	w.pairAll()
	for _, l := range w.locals {
		l.priorityOverride = 1 + uint32(verifU8())
	}
	pp, pq := a.checklist[0], a.checklist[1]
	pp.state = CandidatePairState(verifInt(1, 2))
	pq.state = CandidatePairStateSucceeded
	src := w.remotes[0].addrPort()
	lastReq := func(ci int) *stun.Message {
		var m *stun.Message
		for i := range w.conns[ci].sent {
			if x := verifParseSent(w.conns[ci], i); x != nil && x.Type.Class == stun.ClassRequest {
				m = x
			}
		}
		return m
	}
	answer := func(req *stun.Message, li int) {
		resp, err := stun.Build(stun.BindingSuccess, stun.NewTransactionIDSetter(req.TransactionID), stun.NewShortTermIntegrity(verifRemotePwd), stun.Fingerprint)
		verifAssert(err == nil, "build")
		a.handleInbound(resp, w.locals[li], src)
	}
	// 1. plain nomination of P before P is valid
	req, err := stun.Build(stun.BindingRequest, stun.NewTransactionIDSetter(verifTxID()), stun.NewUsername(verifExpectedUsername), UseCandidate(),
		AttrControlling(1), PriorityAttr(5), stun.NewShortTermIntegrity(verifLocalPwd), stun.Fingerprint)
	verifAssert(err == nil, "build")
	a.handleInbound(req, w.locals[0], src)
	check := lastReq(0)
	verifAssert(pp.nominateOnBindingSuccess && check != nil, "plain-nomination-deferred,triggered-check-sent")
	if check == nil {
		return
	}
	// 2. P validates: the deferred nomination is applied
	answer(check, 0)
	verifAssert(a.getSelectedPair() == pp, "deferred-nomination-applied-once-the-pair-is-valid")
	// 3. a tick: keepalive on the selected pair
	verifBaseOf(pp.Remote).setLastReceived(verifNow())
	a.getSelector().ContactCandidates()
	keepalive := lastReq(0)
	verifAssert(keepalive != nil && keepalive.TransactionID != check.TransactionID, "keepalive-sent-on-the-selected-pair")
	if keepalive == nil || keepalive.TransactionID == check.TransactionID {
		return
	}
	// 4. the peer renominates Q (valid): the agent follows
	v := 1 + verifU32()&0xFFFF
	reqQ, err := stun.Build(stun.BindingRequest, stun.NewTransactionIDSetter(verifTxID()), stun.NewUsername(verifExpectedUsername), UseCandidate(),
		NominationSetter{Value: v, AttrType: DefaultNominationAttribute}, AttrControlling(1), PriorityAttr(5),
		stun.NewShortTermIntegrity(verifLocalPwd), stun.Fingerprint)
	verifAssert(err == nil, "build")
	a.handleInbound(reqQ, w.locals[1], src)
	verifAssert(a.getSelectedPair() == pq, "renomination-of-a-valid-pair-selects-it")
	// 5. the keepalive's response arrives late
	answer(keepalive, 0)
	verifAssertKnown(a.getSelectedPair() == pq, "a-consumed-deferred-nomination-is-not-applied-again-by-a-later-response", "C20-deferred-nomination-applied-twice", true)
	verifReach("done")
}

// (3'') the same not-yet-valid pair B is nominated twice, with another
// nomination (on the valid pair A) possibly in between: v1 on B (deferred),
// optionally v2 on A, then v3 > max(v1, v2) on B again. The deferred
// nomination B carries is now v3 — the latest accepted one — so that when B's
// check succeeds the agent selects B, the pair of the highest value issued
// (seed C20-7 armed the deferred nomination once and kept the stale v1, which
// the success handler then dropped as superseded).
func verifC20DeferredRearmed() {
	w := verifNewWorld(false, false, 2, 1)
	a := w.a
	a.enableRenomination = true
	w.pairAll()
	for _, l := range w.locals {
		l.priorityOverride = 1 + uint32(verifU8())
	}
	pa, pb := a.checklist[0], a.checklist[1]
	pa.state = CandidatePairStateSucceeded
	pb.state = CandidatePairState(verifInt(1, 2))
	src := w.remotes[0].addrPort()
	nominate := func(li int, v uint32) {
		req, err := stun.Build(stun.BindingRequest, stun.NewTransactionIDSetter(verifTxID()), stun.NewUsername(verifExpectedUsername), UseCandidate(),
			NominationSetter{Value: v, AttrType: DefaultNominationAttribute}, AttrControlling(1), PriorityAttr(5),
			stun.NewShortTermIntegrity(verifLocalPwd), stun.Fingerprint)
		verifAssert(err == nil, "build")
		a.handleInbound(req, w.locals[li], src)
	}
	v1, v2, v3 := verifU32()&0xFFFFFF, verifU32()&0xFFFFFF, verifU32()&0xFFFFFF
	verifAssume(v3 > v1)
	nominate(1, v1)
	verifAssert(pb.nominateOnBindingSuccess && a.getSelectedPair() == nil, "first-nomination-deferred-until-its-pair-is-valid")
	if verifChoice(2) == 1 {
		verifReach("other-pair-in-between")
		verifAssume(v3 > v2)
		nominate(0, v2)
	}
	nominate(1, v3)
	verifAssert(pb.nominateOnBindingSuccess && pb.renominateOnBindingSuccess, "second-nomination-of-the-same-pair-still-deferred")
	verifAssert(pb.deferredNominationValue == v3, "the-deferred-nomination-carries-the-latest-accepted-value")
	var check *stun.Message
	for i := range w.conns[1].sent {
		if m := verifParseSent(w.conns[1], i); m != nil && m.Type.Class == stun.ClassRequest {
			check = m
		}
	}
	verifAssert(check != nil, "triggered-check-sent")
	if check == nil {
		return
	}
	resp, err := stun.Build(stun.BindingSuccess, stun.NewTransactionIDSetter(check.TransactionID), stun.NewShortTermIntegrity(verifRemotePwd), stun.Fingerprint)
	verifAssert(err == nil, "build")
	a.handleInbound(resp, w.locals[1], src)
	verifAssert(pb.state == CandidatePairStateSucceeded, "second-pair-valid")
	verifAssert(a.getSelectedPair() == pb, "the-highest-accepted-value's-pair-is-selected-once-valid")
	verifReach("done")
}
