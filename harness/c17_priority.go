package ice

// C17 — candidate and pair priorities follow the RFC formulas for every
// configuration. Oracles are written independently of the implementation.

func init() {
	verifRegister("verifC17CandidatePriority", verifC17CandidatePriority)
	verifRegister("verifC17PairPriority", verifC17PairPriority)
	verifRegister("verifC17PairMonotone", verifC17PairMonotone)
	verifRegister("verifC17Foundation", verifC17Foundation)
}

var verifRelayProtocols = []string{udp, tcp, relayProtocolDTLS, relayProtocolTLS, "other"}

// oracle tables (RFC 8445 §5.1.2.2, RFC 6544 §4.2)
func verifOracleTypePref(ct CandidateType) uint64 {
	r := uint64(0)
	r = verifIteU64(ct == CandidateTypeHost, 126, r)
	r = verifIteU64(ct == CandidateTypePeerReflexive, 110, r)
	r = verifIteU64(ct == CandidateTypeServerReflexive, 100, r)
	return r
}

func verifOracleDirectionPref(ct CandidateType, tt TCPType) uint64 {
	hostLike := verifOr(ct == CandidateTypeHost, ct == CandidateTypeRelay)
	reflLike := verifOr(ct == CandidateTypePeerReflexive, ct == CandidateTypeServerReflexive)
	h := uint64(0)
	h = verifIteU64(tt == TCPTypeActive, 6, h)
	h = verifIteU64(tt == TCPTypePassive, 4, h)
	h = verifIteU64(tt == TCPTypeSimultaneousOpen, 2, h)
	r := uint64(0)
	r = verifIteU64(tt == TCPTypeSimultaneousOpen, 6, r)
	r = verifIteU64(tt == TCPTypeActive, 4, r)
	r = verifIteU64(tt == TCPTypePassive, 2, r)
	return verifIteU64(hostLike, h, verifIteU64(reflLike, r, 0))
}

func verifC17CandidatePriority() {
	ct := CandidateType(verifU8())
	verifAssume(verifAnd(ct >= CandidateTypeHost, ct <= CandidateTypeRelay))
	nt := NetworkType(verifInt(1, 4))
	tt := TCPType(verifInt(0, 3))
	comp := verifU16()
	verifAssume(verifAnd(comp >= 1, comp <= 256)) // RFC 8445: component IDs 1..256
	offset := verifU16()
	proto := verifRelayProtocols[verifChoice(len(verifRelayProtocols))]
	relayPref := relayProtocolPreference(proto)

	c := &candidateBase{candidateType: ct, networkType: nt, tcpType: tt, component: comp, relayLocalPreference: relayPref}
	effOffset := uint64(defaultTCPPriorityOffset)
	if verifChoice(2) == 1 {
		c.currAgent = &Agent{tcpPriorityOffset: offset}
		effOffset = uint64(offset)
		verifReach("with-agent")
	}

	tp := uint64(c.TypePreference())
	lp := uint64(c.LocalPreference())
	prio := uint64(c.Priority())

	isTCP := verifOr(nt == NetworkTypeTCP4, nt == NetworkTypeTCP6)
	base := verifOracleTypePref(ct)
	// "reduced by the configured TCP offset", staying inside 0..126
	reduced := verifIteU64(effOffset > base, 0, base-effOffset)
	wantTP := verifIteU64(verifAnd(isTCP, base != 0), reduced, base)

	relayWant := uint64(0)
	switch proto {
	case relayProtocolTLS:
		relayWant = 0
	case tcp:
		relayWant = 1
	case relayProtocolDTLS:
		relayWant = 2
	default:
		relayWant = 3
	}
	wantLP := verifIteU64(ct == CandidateTypeRelay, relayWant,
		verifIteU64(isTCP, (1<<13)*verifOracleDirectionPref(ct, tt)+8191, 65535))

	verifObserve("tp", tp)
	verifObserve("lp", lp)
	verifObserve("prio", prio)

	verifAssertKnown(tp <= 126, "type-preference-in-0..126", "C17-typepref-wrap", verifAnd(isTCP, effOffset > base))
	verifAssertKnown(tp == wantTP, "type-preference=table-minus-tcp-offset", "C17-typepref-wrap", verifAnd(isTCP, effOffset > base))
	verifAssert(lp == wantLP, "local-preference=rfc6544-table")
	want := (1<<24)*wantTP + (1<<8)*wantLP + (256 - uint64(comp))
	verifAssertKnown(prio == want, "priority=2^24*tp+2^8*lp+(256-component)", "C17-typepref-wrap", verifAnd(isTCP, effOffset > base))
	verifAssertKnown(prio <= (1<<31)-1, "priority<=2^31-1", "C17-typepref-wrap", verifAnd(isTCP, effOffset > base))
	verifAssertKnown(verifImplies(comp <= 255, prio >= 1), "priority>=1-for-components-1..255", "C17-typepref-wrap", verifAnd(isTCP, effOffset > base))
	verifReach("done")
}

func verifPrioCand(p uint32) Candidate {
	return &CandidateHost{candidateBase: candidateBase{candidateType: CandidateTypeHost, networkType: NetworkTypeUDP4, component: 1, priorityOverride: p}}
}

func verifOraclePairPrio(g, d uint32) (uint64, bool) {
	mn := verifIteU64(g < d, uint64(g), uint64(d))
	mx := verifIteU64(g > d, uint64(g), uint64(d))
	a := (mn << 32) - mn // (2^32-1)*min, no wrap since min < 2^32
	b := a + 2*mx
	c := b + verifB2U(g > d)
	noWrap := verifAnd(b >= a, c >= b)
	return c, noWrap
}

func verifC17PairPriority() {
	g, d := verifU32(), verifU32()
	verifAssume(verifAnd(g >= 1, d >= 1))
	controlling := verifBool()
	var local, remote uint32
	if controlling {
		local, remote = g, d
	} else {
		local, remote = d, g
	}
	p := &CandidatePair{iceRoleControlling: controlling, Local: verifPrioCand(local), Remote: verifPrioCand(remote)}
	got := p.priority()
	want, noWrap := verifOraclePairPrio(g, d)
	verifObserve("pairprio", got)
	verifAssert(noWrap, "pair-priority-no-overflow")
	verifAssert(got == want, "pair-priority=(2^32-1)*min+2*max+(g>d)")

	// the mirrored pair on the other agent yields the same number
	q := &CandidatePair{iceRoleControlling: !controlling, Local: verifPrioCand(remote), Remote: verifPrioCand(local)}
	verifAssert(q.priority() == got, "mirrored-pair-same-priority")
	verifReach("done")
}

func verifC17PairMonotone() {
	g1, d1, g2, d2 := verifU32(), verifU32(), verifU32(), verifU32()
	verifAssume(verifAnd(verifAnd(g1 >= 1, d1 >= 1), verifAnd(g2 >= 1, d2 >= 1)))
	verifAssume(verifAnd(g1 <= g2, d1 <= d2))
	p1 := &CandidatePair{iceRoleControlling: true, Local: verifPrioCand(g1), Remote: verifPrioCand(d1)}
	p2 := &CandidatePair{iceRoleControlling: true, Local: verifPrioCand(g2), Remote: verifPrioCand(d2)}
	a, b := p1.priority(), p2.priority()
	verifAssert(a <= b, "pair-priority-monotone-in-each-argument")
	// strictly: a higher min always wins whatever the max
	mn1 := verifIteU32(g1 < d1, g1, d1)
	mn2 := verifIteU32(g2 < d2, g2, d2)
	verifAssert(verifImplies(mn1 < mn2, a < b), "higher-min-dominates")
	verifReach("done")
}

// Foundation: equal exactly when (type, address, network type) are equal, up to
// CRC-32 collisions (crc32 is an uninterpreted injective-by-assumption function
// in the engine).
func verifC17Foundation() {
	mk := func() *candidateBase {
		ct := CandidateType(verifInt(1, 4))
		nt := NetworkType(verifInt(1, 4))
		n := verifChoice(3 + 2*verifTier())
		addr := verifString(n)
		// everything else about the candidate is arbitrary and must not matter
		return &candidateBase{candidateType: ct, networkType: nt, address: addr,
			tcpType: TCPType(verifInt(0, 3)), port: verifInt(0, 65535), component: verifU16(), priorityOverride: verifU32()}
	}
	c1, c2 := mk(), mk()
	f1, f2 := c1.Foundation(), c2.Foundation()
	same := verifAnd(verifAnd(c1.candidateType == c2.candidateType, c1.networkType == c2.networkType), verifStrEq(c1.address, c2.address))
	eq := verifStrEq(f1, f2)
	verifAssert(verifImplies(same, eq), "same-triple-same-foundation")
	verifAssert(verifImplies(eq, same), "same-foundation-same-triple-up-to-crc-collision")
	verifReach("done")
}
