package ice

// C01 — two agents converge on the same, working candidate pair (bounded).
// Two real (bare) agents are joined by a harness network: every datagram a
// fake socket records is in flight until the explorer delivers, drops or
// duplicates it. An adversarial prefix of k explorer-chosen steps is followed
// by a fair, loss-free suffix.

import (
	"net"
	"net/netip"

	"github.com/pion/stun/v3"
)

func init() {
	verifRegister("verifC01TwoAgents", verifC01TwoAgents)
}

type verifNetPeer struct {
	w     *verifWorld
	taken []int // per local conn: datagrams already moved to the wire
	inbox []verifWire
	name  string
}

type verifWire struct {
	data []byte
	from net.Addr // sender's local address
	to   net.Addr
}

func (p *verifNetPeer) flush(other *verifNetPeer, reachable bool) {
	for i, c := range p.w.conns {
		for ; p.taken[i] < len(c.sent); p.taken[i]++ {
			d := c.sent[p.taken[i]]
			if reachable {
				other.inbox = append(other.inbox, verifWire{d.data, c.local, d.to})
			}
		}
	}
}

// deliver hands wire datagram i of p's inbox to the candidate it is addressed to.
func (p *verifNetPeer) deliver(i int, remove bool) {
	d := p.inbox[i]
	if remove {
		p.inbox = append(append([]verifWire{}, p.inbox[:i]...), p.inbox[i+1:]...)
	}
	for _, l := range p.w.locals {
		if l.addr().String() != d.to.String() {
			continue
		}
		m := &stun.Message{Raw: append([]byte{}, d.data...)}
		if err := m.Decode(); err != nil {
			return
		}
		src, _ := netip.ParseAddrPort(d.from.String())
		p.w.a.handleInbound(m, l, src)
	}
}

func (p *verifNetPeer) tick() {
	a := p.w.a
	if a.connectionState == ConnectionStateFailed {
		return
	}
	a.getSelector().ContactCandidates()
}

func verifC01TwoAgents() {
	// quick: 1 candidate per side, 3 adversarial steps; thorough: either 2 per
	// side (4 pairs) with 2 steps or 1 per side with 4 steps
	nCand, k := 1, 3
	if verifTier() > 0 {
		if verifChoice(2) == 0 {
			nCand, k = 2, 2
		} else {
			nCand, k = 1, 4
		}
	}
	wa := verifNewWorldCreds(true, false, "Aufr", "apassword", "Bufr", "bpassword")
	wb := verifNewWorldCreds(false, false, "Bufr", "bpassword", "Aufr", "apassword")
	for i := 0; i < nCand; i++ {
		wa.addLocal(verifLocalIPs[i], 1000+i)
		wb.addLocal(verifRemoteIPs[i], 2000+i)
	}
	for i := 0; i < nCand; i++ {
		wa.addRemote(verifRemoteIPs[i], 2000+i, CandidateTypeHost)
		wb.addRemote(verifLocalIPs[i], 1000+i, CandidateTypeHost)
	}
	wa.pairAll()
	wb.pairAll()
	A := &verifNetPeer{w: wa, taken: make([]int, nCand), name: "A"}
	B := &verifNetPeer{w: wb, taken: make([]int, nCand), name: "B"}
	// reachability of the (single) path per direction
	ab, ba := verifChoice(2) == 1, verifChoice(2) == 1
	bothWays := ab && ba

	safety := func() {
		for _, w := range []*verifWorld{wa, wb} {
			verifAssert(w.invSel(), "selected=>listed,succeeded,nominated")
			sel := w.a.getSelectedPair()
			connected := w.a.connectionState == ConnectionStateConnected
			verifAssert((sel != nil) == connected, "Connected-exactly-while-a-pair-is-selected")
			if !bothWays {
				verifAssert(sel == nil && !connected, "no-pair-reachable-both-ways=>never-connected,never-selected")
			}
		}
	}

	// adversarial prefix
	for step := 0; step < k; step++ {
		A.flush(B, ab)
		B.flush(A, ba)
		switch verifChoice(7) {
		case 0:
			A.tick()
		case 1:
			B.tick()
		case 2:
			if len(B.inbox) > 0 {
				B.deliver(0, true)
			}
		case 3:
			if len(A.inbox) > 0 {
				A.deliver(0, true)
			}
		case 4: // loss
			if len(B.inbox) > 0 {
				B.inbox = B.inbox[1:]
			}
		case 5:
			if len(A.inbox) > 0 {
				A.inbox = A.inbox[1:]
			}
		case 6: // duplication / reordering: deliver the newest datagram, keep it queued
			if len(B.inbox) > 0 {
				B.deliver(len(B.inbox)-1, false)
			} else if len(A.inbox) > 0 {
				A.deliver(len(A.inbox)-1, false)
			}
		}
		safety()
	}
	// fair, loss-free suffix
	for round := 0; round < 6; round++ {
		A.tick()
		A.flush(B, ab)
		for len(B.inbox) > 0 {
			B.deliver(0, true)
		}
		B.tick()
		B.flush(A, ba)
		for len(A.inbox) > 0 {
			A.deliver(0, true)
		}
		A.flush(B, ab)
		for len(B.inbox) > 0 {
			B.deliver(0, true)
		}
		safety()
	}
	sa, sb := wa.a.getSelectedPair(), wb.a.getSelectedPair()
	if bothWays {
		verifReach("reachable")
		verifAssert(sa != nil && sb != nil, "both-agents-select-a-pair")
		verifAssert(wa.a.connectionState == ConnectionStateConnected && wb.a.connectionState == ConnectionStateConnected, "both-agents-reach-Connected")
		if sa != nil && sb != nil {
			verifAssert(sa.Local.addr().String() == sb.Remote.addr().String() && sa.Remote.addr().String() == sb.Local.addr().String(), "selected-pairs-are-mirror-images")
		}
	} else {
		verifReach("unreachable")
	}
	verifReach("done")
}
