package ice

// C11 — callbacks are delivered in order, one at a time, exactly once.
// Decided by schedule exploration over the REAL handlerNotifier (its drainer
// goroutines included) and over GatherCandidates racing with Restart.

import (
	"context"
	"net"
	"runtime"
	"sync"
	"sync/atomic"

	"github.com/pion/transport/v4"
)

func init() {
	verifRegister("verifC11Notifier", verifC11Notifier)
	verifRegister("verifC11Reselect", verifC11Reselect)
	verifRegister("verifC11NilIsLast", verifC11NilIsLast)
	verifRegister("verifC11GatherVsRestart", verifC11GatherVsRestart)
	verifRegister("verifC11RestartDuringCycle", verifC11RestartDuringCycle)
	verifRegister("verifC11RestartDuringCycleWithCandidate", verifC11RestartDuringCycleWithCandidate)
}

const verifC11MaxDelay = 8 // thorough: 12

func verifC11Notifier() {
	stream := verifChoice(3)
	var inHandler, overlap atomic.Int32
	var mu sync.Mutex
	var got []int
	handle := func(v int) {
		if inHandler.Add(1) > 1 {
			overlap.Add(1)
		}
		verifYield() // a slow handler: others may run while it is inside
		mu.Lock()
		got = append(got, v)
		mu.Unlock()
		inHandler.Add(-1)
	}
	cands := []Candidate{&CandidateHost{}, &CandidateHost{}, &CandidateHost{}}
	pairs := []*CandidatePair{{id: 0}, {id: 1}, {id: 2}}
	h := &handlerNotifier{done: make(chan struct{})}
	h.connectionStateFunc = func(s ConnectionState) { handle(int(s) - 1) }
	h.candidateFunc = func(c Candidate) {
		for i := range cands {
			if cands[i] == c {
				handle(i)
			}
		}
	}
	h.candidatePairFunc = func(p *CandidatePair) { handle(int(p.id)) }
	enqueue := func(i int) {
		switch stream {
		case 0:
			h.EnqueueConnectionState(ConnectionState(i + 1))
		case 1:
			h.EnqueueCandidate(cands[i])
		default:
			h.EnqueueSelectedCandidatePair(pairs[i])
		}
	}
	var wg sync.WaitGroup
	wg.Add(2)
	go func() { defer wg.Done(); enqueue(0); enqueue(1) }() // producer A: events 0 then 1
	go func() { defer wg.Done(); enqueue(2) }()             // producer B: event 2
	wg.Wait()
	h.Close(true) // graceful: returns only when no handler is running
	verifAssert(inHandler.Load() == 0, "after-GracefulClose-no-handler-is-running")
	mu.Lock()
	n := len(got)
	seen := [3]int{}
	posA0, posA1 := -1, -1
	for i, v := range got {
		seen[v]++
		if v == 0 {
			posA0 = i
		}
		if v == 1 {
			posA1 = i
		}
	}
	mu.Unlock()
	verifAssert(overlap.Load() == 0, "handler-never-runs-concurrently-with-itself")
	verifAssert(n == 3 && seen[0] == 1 && seen[1] == 1 && seen[2] == 1, "every-event-delivered-exactly-once")
	verifAssert(posA0 < posA1, "events-delivered-in-the-order-they-occurred")
	// nothing is delivered after a close
	enqueue(1)
	h.Close(true)
	mu.Lock()
	verifAssert(len(got) == n, "nothing-is-invoked-after-GracefulClose-returned")
	mu.Unlock()
	verifReach("done")
}

// A gather cycle racing with Restart on the real task loop: at most one nil
// candidate per cycle, exactly one if the cycle completed, none from a cycle
// that Restart cancelled, and the state machine ends in New or Complete.
func verifC11GatherVsRestart() {
	w := verifNewWorld(true, false, 0, 0)
	a := w.a
	a.loop = verifLoop()
	a.net = &verifNet{} // no interfaces: the cycle produces no candidates
	a.candidateTypes = []CandidateType{CandidateTypeHost}
	a.gatheringState = GatheringStateNew
	var nils, others atomic.Int32
	verifAssert(a.OnCandidate(func(Candidate) {}) == nil, "handler")
	a.candidateNotifier.candidateFunc = func(c Candidate) {
		if c == nil {
			nils.Add(1)
		} else {
			others.Add(1)
		}
	}
	var wg sync.WaitGroup
	var gerr, rerr error
	wg.Add(2)
	go func() { defer wg.Done(); gerr = a.GatherCandidates() }()
	go func() {
		defer wg.Done()
		// Restart lands after 0..k fair hand-overs to the other goroutines, so
		// it meets the cycle at its start, in the middle and at its very end
		for n := verifChoice(verifC11MaxDelay + 4*verifTier() + 1); n > 0; n-- {
			runtime.Gosched()
		}
		rerr = a.Restart("freshufrag", "freshpasswordfreshpasswd")
	}()
	wg.Wait()
	// let the cycle (if it was started) wind down, then wait for the drainer
	if done := a.gatherCandidateDone; done != nil {
		<-done
	}
	a.candidateNotifier.Close(true)
	st, serr := a.GetGatheringState()
	verifAssert(serr == nil && rerr == nil, "no-error")
	verifAssert(others.Load() == 0, "no-candidate-without-interfaces")
	verifAssert(nils.Load() <= 1, "at-most-one-nil-candidate-per-cycle")
	verifAssert(st == GatheringStateNew || st == GatheringStateComplete, "ends-in-New(restarted)-or-Complete")
	if st == GatheringStateComplete {
		verifReach("completed")
		verifAssert(gerr == nil && nils.Load() == 1, "completed-cycle-emits-exactly-one-nil-candidate")
	}
	if gerr != nil {
		verifReach("refused")
		verifAssert(nils.Load() == 0, "refused-gather-emits-nothing")
	}
	if st == GatheringStateNew && nils.Load() == 1 {
		verifReach("completed-then-restarted")
	}
	if st == GatheringStateNew && nils.Load() == 0 {
		verifReach("cancelled-by-restart")
	}
	a.loop.Close()
	verifReach("done")
}

// Restart issued after GatherCandidates has returned, at any explored moment of
// the running cycle (start, middle, the instant before it reports completion):
// whatever the interleaving, once Restart has returned and the old cycle has
// wound down the gathering state is New (a cancelled cycle cannot overwrite
// it), the old cycle delivered its nil candidate at most once and only if it
// had completed before Restart took effect, and a fresh cycle can be started.
func verifC11RestartDuringCycle() {
	w := verifNewWorld(true, false, 0, 0)
	a := w.a
	a.loop = verifLoop()
	a.net = &verifNet{}
	a.candidateTypes = []CandidateType{CandidateTypeHost}
	a.gatheringState = GatheringStateNew
	var nils, others atomic.Int32
	verifAssert(a.OnCandidate(func(Candidate) {}) == nil, "handler")
	a.candidateNotifier.candidateFunc = func(c Candidate) {
		if c == nil {
			nils.Add(1)
		} else {
			others.Add(1)
		}
	}
	verifAssert(a.GatherCandidates() == nil, "first-gather-accepted")
	done := a.gatherCandidateDone
	for n := verifChoice(verifC11MaxDelay + 4*verifTier() + 1); n > 0; n-- {
		runtime.Gosched()
	}
	nilsBefore := nils.Load() // delivered before Restart was even called: the cycle had completed
	verifAssert(a.Restart("freshufrag", "freshpasswordfreshpasswd") == nil, "restart-ok")
	if done != nil {
		<-done // the superseded cycle has wound down
	}
	a.candidateNotifier.notifiers.Wait() // every event enqueued so far has been delivered
	st, err := a.GetGatheringState()
	verifAssert(err == nil, "no-error")
	verifAssert(st == GatheringStateNew, "after-Restart-the-state-is-New(a-superseded-cycle-cannot-overwrite-it)")
	verifAssert(nils.Load() <= 1 && others.Load() == 0, "at-most-one-nil-candidate-from-the-old-cycle")
	if nilsBefore == 1 {
		verifReach("completed-before-restart")
	}
	if nils.Load() == 0 {
		verifReach("cancelled-by-restart")
	}
	// a fresh cycle runs to completion and reports exactly once more
	n0 := nils.Load()
	verifAssert(a.GatherCandidates() == nil, "fresh-cycle-accepted-after-Restart")
	if d2 := a.gatherCandidateDone; d2 != nil {
		<-d2
	}
	a.candidateNotifier.Close(true)
	st, _ = a.GetGatheringState()
	verifAssert(st == GatheringStateComplete && nils.Load() == n0+1, "fresh-cycle-completes-with-exactly-one-nil-candidate")
	a.loop.Close()
	verifReach("done")
}

// The same with one interface, so the cycle opens a socket and publishes a
// host candidate through addCandidate: a cycle superseded by Restart must not
// add its candidate to the new generation — after Restart has returned and the
// old cycle wound down no candidate is on record, none was announced with the
// new generation's ufrag, and the socket the old cycle opened is closed.
func verifC11RestartDuringCycleWithCandidate() {
	w := verifNewWorld(true, false, 0, 0)
	a := w.a
	a.loop = verifLoop()
	n := &verifNet{}
	ifc := transport.NewInterface(net.Interface{Index: 1, Name: "eth0", Flags: net.FlagUp})
	ifc.AddAddress(&net.IPNet{IP: net.ParseIP("10.0.0.1").To4(), Mask: net.CIDRMask(24, 32)})
	n.ifaces = append(n.ifaces, ifc)
	a.net = n
	a.candidateTypes = []CandidateType{CandidateTypeHost}
	a.gatheringState = GatheringStateNew
	var mu sync.Mutex
	var ufrags []string
	verifAssert(a.OnCandidate(func(Candidate) {}) == nil, "handler")
	var nilsSeen atomic.Int32
	a.candidateNotifier.candidateFunc = func(c Candidate) {
		if c == nil {
			nilsSeen.Add(1)
			return
		}
		u, _ := c.GetExtension("ufrag")
		mu.Lock()
		ufrags = append(ufrags, u.Value)
		mu.Unlock()
	}
	verifAssert(a.GatherCandidates() == nil, "first-gather-accepted")
	done := a.gatherCandidateDone
	for k := verifChoice(verifC11MaxDelay + 4*verifTier() + 1); k > 0; k-- {
		runtime.Gosched()
	}
	// what has happened so far (events occur on the loop: a candidate on record
	// was enqueued for the handler, Complete enqueued the nil candidate)
	var addedBefore int
	var completeBefore bool
	verifAssert(a.loop.Run(a.loop, func(context.Context) {
		for _, cs := range a.localCandidates {
			addedBefore += len(cs)
		}
		completeBefore = a.gatheringState == GatheringStateComplete
	}) == nil, "loop-open")
	verifAssert(a.Restart("freshufrag", "freshpasswordfreshpasswd") == nil, "restart-ok")
	if done != nil {
		<-done
	}
	a.candidateNotifier.notifiers.Wait()
	// exactly once means not zero times either: an event that occurred before
	// the Restart is still delivered, however late its handler gets to run
	mu.Lock()
	verifAssert(len(ufrags) >= addedBefore, "a-candidate-event-that-occurred-before-Restart-is-still-delivered")
	mu.Unlock()
	if completeBefore {
		verifReach("completed-before-restart")
		verifAssert(nilsSeen.Load() == 1, "the-nil-candidate-of-a-cycle-completed-before-Restart-is-still-delivered")
	}
	var nLocal int
	verifAssert(a.loop.Run(a.loop, func(context.Context) {
		for _, cs := range a.localCandidates {
			nLocal += len(cs)
		}
	}) == nil, "loop-open")
	verifAssertKnown(nLocal == 0, "a-cycle-superseded-by-Restart-adds-no-candidate-to-the-new-generation", "C11-cancelled-cycle-adds-candidate", true)
	mu.Lock()
	for _, u := range ufrags {
		verifAssertKnown(u == verifLocalUfrag, "every-announced-candidate-carries-its-own-cycle's-ufrag", "C11-cancelled-cycle-adds-candidate", true)
	}
	if len(ufrags) > 0 {
		verifReach("announced-before-restart")
	} else {
		verifReach("cancelled-before-announcing")
	}
	mu.Unlock()
	if nLocal == 0 {
		for _, c := range n.conns {
			verifAssert(c.closed >= 1, "the-superseded-cycle's-socket-is-closed")
		}
	}
	a.loop.Close()
	verifReach("done")
}

// The same value may be notified again after another one (a pair re-selected
// after a switch, a state re-entered): every enqueued event is delivered, in
// order, also when the handler is slow and the repeated value arrives while
// earlier events are still queued; and a GracefulClose that follows a plain
// Close still waits for the running handler.
func verifC11Reselect() {
	stream := verifChoice(2) // 0: connection states, 1: selected pairs
	var inHandler atomic.Int32
	var mu sync.Mutex
	var got []int
	handle := func(v int) {
		inHandler.Add(1)
		verifYield()
		mu.Lock()
		got = append(got, v)
		mu.Unlock()
		inHandler.Add(-1)
	}
	pairs := []*CandidatePair{{id: 0}, {id: 1}}
	h := &handlerNotifier{done: make(chan struct{})}
	h.connectionStateFunc = func(s ConnectionState) { handle(int(s) - 1) }
	h.candidatePairFunc = func(p *CandidatePair) { handle(int(p.id)) }
	enqueue := func(i int) {
		if stream == 0 {
			h.EnqueueConnectionState(ConnectionState(i + 1))
		} else {
			h.EnqueueSelectedCandidatePair(pairs[i])
		}
	}
	var wg sync.WaitGroup
	wg.Add(1)
	go func() { defer wg.Done(); enqueue(0); enqueue(1); enqueue(0) }() // A, B, A
	wg.Wait()
	h.Close(false) // a plain close first ...
	h.Close(true)  // ... the graceful one must still wait for the drainer
	verifAssert(inHandler.Load() == 0, "GracefulClose-after-Close-still-waits-for-the-running-handler")
	mu.Lock()
	verifAssert(len(got) == 3 && got[0] == 0 && got[1] == 1 && got[2] == 0, "a-value-notified-again-after-another-one-is-delivered-again,in-order")
	mu.Unlock()
	verifReach("done")
}

// The nil candidate is the LAST event of its cycle: a gatherer that is slow
// (its socket opening is gated and released only when nothing else can move)
// still announces its candidate before the cycle completes, whatever timers
// are pending — the cycle waits for its gatherers. One candidate, one nil, in
// that order.
func verifC11NilIsLast() {
	w := verifC08New(true)
	a := w.a
	gate := make(chan struct{})
	w.net.gate = gate
	go func() {
		verifLetOthersRun()
		close(gate)
	}()
	var mu sync.Mutex
	var events []bool // true: a candidate, false: the nil candidate
	verifAssert(a.OnCandidate(func(c Candidate) {
		mu.Lock()
		events = append(events, c != nil)
		mu.Unlock()
	}) == nil, "handler")
	verifTimerTicks(2) // any timer of the gathering path may fire
	verifAssert(a.GatherCandidates() == nil, "GatherCandidates")
	var done chan struct{}
	verifAssert(a.loop.Run(a.loop, func(context.Context) { done = a.gatherCandidateDone }) == nil, "loop-open")
	<-done
	verifLetOthersRun() // late gatherers, if any, have finished too
	a.candidateNotifier.notifiers.Wait()
	mu.Lock()
	verifAssert(len(events) == 2 && events[0] && !events[1], "one-candidate-then-one-nil:the-nil-candidate-is-the-last-event-of-its-cycle")
	mu.Unlock()
	verifAssert(a.Close() == nil, "Close")
	verifReach("done")
}
