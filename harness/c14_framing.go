package ice

// C14 — ICE-TCP framing preserves packet boundaries (RFC 4571).

import (
	"context"
	"io"
)

func init() {
	verifRegister("verifC14Read", verifC14Read)
	verifRegister("verifC14Write", verifC14Write)
	verifRegister("verifC14WriteLarge", verifC14WriteLarge)
	verifRegister("verifC14RoundTrip", verifC14RoundTrip)
	verifRegister("verifC14StartReading", verifC14StartReading)
	verifRegister("verifC14BufferedWrite", verifC14BufferedWrite)
}

func verifBE16(b []byte) int { return int(b[0])<<8 | int(b[1]) }

// One readStreamingPacket call on an arbitrary byte stream under every chunking,
// with an optional injected error at any read.
func verifC14Read() {
	maxBody := 4 + 2*verifTier()
	streamLen := verifChoice(2 + maxBody + 2) // 0 .. 2+maxBody+1 bytes available
	stream := verifBytes(streamLen)
	bufCap := verifChoice(maxBody + 2)
	bufLen := verifChoice(bufCap + 1)
	buf := make([]byte, bufLen, bufCap)
	maxReads := 2 + maxBody + 1
	failAt := verifChoice(maxReads+1) - 1
	conn := &verifStreamConn{data: stream, failAt: failAt, maxReads: maxReads + 1, partial: -1}

	n, err := readStreamingPacket(conn, buf)

	verifAssert(!conn.zeroLen, "no-read-with-empty-buffer")
	if streamLen >= 2 {
		length := verifBE16(stream)
		if err == nil {
			verifReach("packet-read")
			verifAssert(n == length, "returned-length=be16(header)")
			verifAssert(conn.pos == 2+length, "consumed-exactly-header+body")
			verifAssert(length <= bufCap, "accepted-only-when-it-fits")
			ok := true
			full := buf[:cap(buf)]
			for i := 0; i < n && i < len(full); i++ {
				ok = verifAnd(ok, full[i] == stream[2+i])
			}
			verifAssert(ok, "body-bytes-identical")
			verifAssert(conn.maxReach <= 2+length, "bounded-read:never-asks-beyond-the-frame")
		}
		if conn.pos >= 2 && failAt < 0 || (failAt >= 0 && conn.reads > failAt+1) {
			// header fully read without an injected failure so far
		}
		if conn.pos >= 2 && length > bufCap && (failAt < 0 || failAt >= conn.reads) {
			verifReach("short-buffer")
			verifAssert(err == io.ErrShortBuffer, "oversized-frame=>ErrShortBuffer")
			verifAssert(conn.pos == 2, "oversized-frame=>no-body-read")
		}
	}
	if err != nil {
		verifReach("error")
		verifAssert(verifOr(n == 0, err == io.ErrShortBuffer), "error=>no-packet")
	}
	if failAt >= 0 && conn.reads > failAt {
		verifReach("injected-error-hit")
		verifAssert(err != nil, "read-error-propagates")
	}
	if err == nil {
		verifAssert(streamLen >= 2, "no-packet-fabricated-from-truncated-header")
	}
	verifAssert(conn.maxReach <= 2 || streamLen >= 2, "bounded-read:header-phase")
	verifReach("done")
}

func verifC14Write() {
	n := verifChoice(5 + 2*verifTier())
	b := verifBytes(n)
	conn := &verifStreamConn{failAt: -1}
	if verifChoice(2) == 1 {
		conn.writeErr = true
	}
	got, err := writeStreamingPacket(conn, b)
	verifAssert(len(conn.written) == 1, "exactly-one-write-per-packet")
	w := conn.written[0]
	verifAssert(len(w) == 2+n, "frame-length=2+len")
	verifAssert(verifBE16(w) == n, "header=be16(len)")
	verifAssert(verifBytesEq(w[2:], b), "body-identical")
	if conn.writeErr {
		verifReach("write-error")
		verifAssert(verifAnd(err != nil, got == 0), "write-error-propagates")
	} else {
		verifAssert(verifAnd(err == nil, got == n), "returns-len")
	}
	verifReach("done")
}

var verifLargeSizes = []int{255, 256, 8192, 65535, 65536, 65537, 70000, 131072}

// Packets too long for the 16-bit length field must be refused, never framed
// with a truncated (wrapped) header.
func verifC14WriteLarge() {
	n := verifLargeSizes[verifChoice(len(verifLargeSizes))]
	b := make([]byte, n)
	b[0], b[n-1] = verifU8(), verifU8()
	conn := &verifStreamConn{failAt: -1}
	got, err := writeStreamingPacket(conn, b)
	if n <= 65535 {
		verifReach("fits")
		verifAssert(verifAnd(err == nil, got == n), "returns-len")
		w := conn.written[0]
		verifAssert(verifBE16(w) == n, "header=be16(len)")
		verifAssert(verifAnd(w[2] == b[0], w[len(w)-1] == b[n-1]), "body-ends-identical")
	} else {
		verifReach("too-long")
		verifAssertKnown(err != nil, "too-long-for-16-bit-length=>error", "C14-write-header-truncation", true)
		for _, w := range conn.written {
			verifAssertKnown(verifBE16(w) == len(w)-2, "never-a-truncated-length-header", "C14-write-header-truncation", true)
		}
	}
	verifReach("done")
}

// k packets written through the real writer, the resulting stream read back by
// the real reader under every chunking: same sequence, same contents.
func verifC14RoundTrip() {
	k := 1 + verifChoice(2)
	maxLen := 2 + verifTier()
	w := &verifStreamConn{failAt: -1}
	var pkts [][]byte
	for i := 0; i < k; i++ {
		p := verifBytes(verifChoice(maxLen + 1))
		pkts = append(pkts, p)
		_, err := writeStreamingPacket(w, p)
		verifAssert(err == nil, "write-ok")
	}
	var stream []byte
	for _, f := range w.written {
		stream = append(stream, f...)
	}
	r := &verifStreamConn{data: stream, failAt: -1, partial: -1}
	buf := make([]byte, 8)
	for i := 0; i < k; i++ {
		n, err := readStreamingPacket(r, buf)
		verifAssert(err == nil, "read-ok")
		verifAssert(n == len(pkts[i]), "same-length")
		verifAssert(verifBytesEq(buf[:n], pkts[i]), "same-contents")
	}
	verifAssert(r.pos == len(stream), "stream-fully-consumed")
	_, err := readStreamingPacket(r, buf)
	verifAssert(err == io.EOF, "then-EOF,no-fabricated-packet")
	verifReach("done")
}

// The reading loop of tcpPacketConn: frames become packets in order, with the
// peer address; a truncated stream ends with an error packet, not with data.
func verifC14StartReading() {
	nFrames := verifChoice(3)
	var stream []byte
	var want [][]byte
	for i := 0; i < nFrames; i++ {
		l := verifChoice(3)
		p := verifBytes(l)
		want = append(want, p)
		stream = append(stream, byte(l>>8), byte(l))
		stream = append(stream, p...)
	}
	// optional truncated tail: a header announcing more than what follows
	tail := verifChoice(4)
	switch tail {
	case 1:
		stream = append(stream, 0)
	case 2:
		stream = append(stream, 0, 2, verifU8())
	case 3:
		// a frame larger than the receive buffer (8193 > 8192): a framing error;
		// what follows must never be parsed as further frames
		stream = append(stream, 0x20, 0x01, 0, 1, verifU8(), 0, 1, verifU8())
		verifReach("oversized-frame")
	}
	conn := &verifStreamConn{data: stream, failAt: -1, remote: verifAddr{"10.0.0.2:7"}, partial: -1}
	t := newTCPPacketConn(tcpPacketParams{ReadBuffer: 8, Logger: verifNopLogger{}, LocalAddr: verifAddr{"10.0.0.1:1"}})
	t.conns[conn.remote.String()] = conn
	t.startReading(conn)

	b := make([]byte, 8)
	if verifChoice(2) == 1 {
		// a read buffer whose length is smaller than its capacity: what counts
		// for a reader is len(b) (net.PacketConn: n <= len(p))
		b = b[:1]
		verifReach("short-len-buffer")
	}
	for i := 0; i < nFrames; i++ {
		if len(t.recvChan) == 0 {
			verifAssert(false, "frame-delivered") // reading would block: a frame is missing
			return
		}
		n, addr, err := t.readFromContext(context.Background(), b)
		if len(want[i]) > len(b) {
			verifReach("frame-longer-than-the-read-buffer")
			verifAssertKnown(err != nil && n == 0, "a-frame-longer-than-len(b)-is-an-error,never-a-partial-copy-reported-as-complete", "C14-read-copies-len-reports-cap", true)
			continue
		}
		verifAssert(err == nil, "frame-delivered")
		verifAssert(n == len(want[i]), "frame-length")
		verifAssert(verifBytesEq(b[:n], want[i]), "frame-contents")
		verifAssert(addr == conn.remote, "peer-address")
	}
	if len(t.recvChan) == 0 {
		verifAssert(false, "stream-end-is-reported")
		return
	}
	n, _, err := t.readFromContext(context.Background(), b)
	verifAssert(verifAnd(err != nil, n == 0), "stream-end=>error-not-data")
	verifAssert(conn.closed == 1, "stream-closed-on-error")
	verifAssert(len(t.conns) == 0, "conn-removed")
	verifAssert(len(t.recvChan) == 0, "nothing-else-queued")
	verifReach("done")
}

// With a write buffer between the packet conn and the TCP connection
// (TCPMuxParams.WriteBufferSize > 0) every packet the framing layer accepts is
// forwarded to the connection, once, as the same frame — also packets at the
// receive MTU, whose frame is two bytes longer than the payload.
func verifC14BufferedWrite() {
	sizes := []int{5, 8190, 8191, 8192}
	n := sizes[verifChoice(len(sizes))]
	conn := &verifStreamConn{failAt: -1, remote: verifAddr{"10.0.0.2:7"}}
	bc := newBufferedConn(conn, 1<<22, verifNopLogger{})
	verifRunGoroutines()
	b := make([]byte, n)
	b[0], b[n-1] = verifU8(), verifU8()
	got, err := writeStreamingPacket(bc, b)
	verifAssert(err == nil && got == n, "the-write-is-accepted")
	small := []byte{verifU8(), 2, 3, 4}
	got, err = writeStreamingPacket(bc, small)
	verifAssert(err == nil && got == 4, "a-later-write-is-accepted")
	verifRunGoroutines()
	verifAssert(len(conn.written) == 2, "every-accepted-packet-reaches-the-connection-exactly-once")
	if len(conn.written) == 2 {
		w := conn.written[0]
		verifAssert(len(w) == 2+n && verifBE16(w) == n && verifAnd(w[2] == b[0], w[len(w)-1] == b[n-1]), "forwarded-as-the-same-frame")
		verifAssert(verifBytesEq(conn.written[1], verifFrame(small)), "order-and-content-of-later-packets-kept")
	}
	if n >= 8191 {
		verifReach("mtu-sized")
	}
	verifAssert(bc.Close() == nil, "close-ok")
	verifRunGoroutines()
	verifReach("done")
}
