package ice

// Bounded agent pre-state builder for the single-step lemmas (C02–C07, C20):
// a bare Agent (struct literal, as the repo's own selection tests do), real
// candidates from the real constructors, recording fake sockets, and snapshot
// helpers for frame conditions.

import (
	"io"
	"net"
	"net/netip"
	"time"

	"github.com/pion/ice/v4/internal/taskloop"
	"github.com/pion/stun/v3"
	"github.com/pion/transport/v4/packetio"
)

type verifDatagram struct {
	data []byte
	to   net.Addr
}

// verifPacketConn: recording net.PacketConn. mode: 0 ok, 1 generic error,
// 2 io.ErrClosedPipe.
type verifPacketConn struct {
	sent       []verifDatagram
	closed     int
	mode       int
	short      int
	local      net.Addr
	closeFails bool // Close reports an error (it still closes)
}

var errVerifWrite = io.ErrNoProgress

func (c *verifPacketConn) ReadFrom(p []byte) (int, net.Addr, error) { return 0, nil, io.EOF }
func (c *verifPacketConn) WriteTo(p []byte, addr net.Addr) (int, error) {
	switch c.mode {
	case 1:
		return 0, errVerifWrite
	case 2:
		return 0, io.ErrClosedPipe
	}
	cp := make([]byte, len(p))
	copy(cp, p)
	c.sent = append(c.sent, verifDatagram{cp, addr})
	return len(p) - c.short, nil
}
func (c *verifPacketConn) Close() error {
	c.closed++
	if c.closeFails {
		return errVerifWrite
	}
	return nil
}
func (c *verifPacketConn) LocalAddr() net.Addr                { return c.local }
func (c *verifPacketConn) SetDeadline(t time.Time) error      { return nil }
func (c *verifPacketConn) SetReadDeadline(t time.Time) error  { return nil }
func (c *verifPacketConn) SetWriteDeadline(t time.Time) error { return nil }

const (
	verifLocalUfrag  = "LUfr"
	verifLocalPwd    = "localpw"
	verifRemoteUfrag = "RUfr"
	verifRemotePwd   = "remotepw"
	verifOtherPwd    = "otherpw"
)

type verifWorld struct {
	a       *Agent
	locals  []*CandidateHost
	conns   []*verifPacketConn
	remotes []Candidate

	states   []ConnectionState
	selPairs []*CandidatePair
	cands    []Candidate
}

var (
	verifLocalIPs  = []string{"10.0.0.1", "10.0.0.2"}
	verifRemoteIPs = []string{"20.0.0.1", "20.0.0.2", "20.0.0.3"}
)

func verifNewWorld(controlling, lite bool, nLocal, nRemote int) *verifWorld {
	w := verifNewWorldCreds(controlling, lite, verifLocalUfrag, verifLocalPwd, verifRemoteUfrag, verifRemotePwd)
	for i := 0; i < nLocal; i++ {
		w.addLocal(verifLocalIPs[i], 1000+i)
	}
	for i := 0; i < nRemote; i++ {
		w.addRemote(verifRemoteIPs[i], 2000+i, CandidateTypeHost)
	}
	return w
}

// verifNewWorldCreds: a bare agent with the given credentials and no candidates.
func verifNewWorldCreds(controlling, lite bool, lu, lp, ru, rp string) *verifWorld {
	w := &verifWorld{}
	a := &Agent{
		lite:                   lite,
		connectionState:        ConnectionStateChecking,
		gatheringState:         GatheringStateComplete,
		startedCandidates:      make(map[*candidateBase]struct{}),
		localCandidates:        make(map[NetworkType][]Candidate),
		remoteCandidates:       make(map[NetworkType][]Candidate),
		checklist:              []*CandidatePair{},
		pairsByID:              make(map[uint64]*CandidatePair),
		localUfrag:             lu,
		localPwd:               lp,
		remoteUfrag:            ru,
		remotePwd:              rp,
		log:                    verifNopLogger{},
		buf:                    packetio.NewBuffer(),
		nominationAttribute:    DefaultNominationAttribute,
		maxBindingRequests:     7,
		keepaliveInterval:      2 * time.Second,
		checkInterval:          200 * time.Millisecond,
		disconnectedTimeout:    5 * time.Second,
		failedTimeout:          25 * time.Second,
		onConnected:            make(chan struct{}),
		forceCandidateContact:  make(chan bool, 1),
		gatherCandidateCancel:  func() {},
		networkTypes:           []NetworkType{NetworkTypeUDP4},
		candidateTypes:         []CandidateType{CandidateTypeHost},
		mDNSMode:               MulticastDNSModeDisabled,
		pendingBindingRequests: []bindingRequest{},
	}
	a.connectionStateNotifier = &handlerNotifier{done: make(chan struct{}), connectionStateFunc: func(s ConnectionState) { w.states = append(w.states, s) }}
	a.candidateNotifier = &handlerNotifier{done: make(chan struct{}), candidateFunc: func(c Candidate) { w.cands = append(w.cands, c) }}
	a.selectedCandidatePairNotifier = &handlerNotifier{done: make(chan struct{}), candidatePairFunc: func(p *CandidatePair) { w.selPairs = append(w.selPairs, p) }}
	a.isControlling.Store(controlling)
	a.setSelector()
	w.a = a
	return w
}

func (w *verifWorld) addLocal(ip string, port int) *CandidateHost {
	c, err := NewCandidateHost(&CandidateHostConfig{Network: udp, Address: ip, Port: port, Component: ComponentRTP})
	if err != nil {
		panic("verif: local candidate: " + err.Error())
	}
	conn := &verifPacketConn{local: &net.UDPAddr{IP: net.ParseIP(ip), Port: port}}
	c.conn = conn
	c.currAgent = w.a
	w.locals = append(w.locals, c)
	w.conns = append(w.conns, conn)
	w.a.localCandidates[c.NetworkType()] = append(w.a.localCandidates[c.NetworkType()], c)
	return c
}

func (w *verifWorld) addRemote(ip string, port int, typ CandidateType) Candidate {
	var c Candidate
	var err error
	switch typ {
	case CandidateTypePeerReflexive:
		c, err = NewCandidatePeerReflexive(&CandidatePeerReflexiveConfig{Network: udp, Address: ip, Port: port, Component: ComponentRTP})
	default:
		c, err = NewCandidateHost(&CandidateHostConfig{Network: udp, Address: ip, Port: port, Component: ComponentRTP})
	}
	if err != nil {
		panic("verif: remote candidate: " + err.Error())
	}
	w.remotes = append(w.remotes, c)
	w.a.remoteCandidates[c.NetworkType()] = append(w.a.remoteCandidates[c.NetworkType()], c)
	return c
}

// pairAll adds a pair for every (local, remote) through the real addPair.
func (w *verifWorld) pairAll() {
	for _, l := range w.locals {
		for _, r := range w.remotes {
			w.a.addPair(l, r)
		}
	}
}

// notified returns the connection states handed to the notifier so far (queued
// under the engine, where drainer goroutines do not run; delivered natively).
func (w *verifWorld) notifiedStates() []ConnectionState {
	w.a.connectionStateNotifier.notifiers.Wait()
	out := append([]ConnectionState{}, w.states...)
	w.a.connectionStateNotifier.Lock()
	out = append(out, w.a.connectionStateNotifier.connectionStates...)
	w.a.connectionStateNotifier.Unlock()
	return out
}

func (w *verifWorld) notifiedPairs() []*CandidatePair {
	w.a.selectedCandidatePairNotifier.notifiers.Wait()
	out := append([]*CandidatePair{}, w.selPairs...)
	out = append(out, w.a.selectedCandidatePairNotifier.selectedCandidatePairs...)
	return out
}

func (w *verifWorld) notifiedCands() []Candidate {
	w.a.candidateNotifier.notifiers.Wait()
	out := append([]Candidate{}, w.cands...)
	out = append(out, w.a.candidateNotifier.candidates...)
	return out
}

func (w *verifWorld) sentCount() int {
	n := 0
	for _, c := range w.conns {
		n += len(c.sent)
	}
	return n
}

// verifLoop: a real task loop (natively); under the engine taskloop.Run is the
// contract "ErrClosed if closed, else run the task synchronously" (C10 is
// assumed, not checked).
func verifLoop() *taskloop.Loop { return taskloop.New(func() {}) }

func verifNow() time.Time { return time.Now() }

// ---------- snapshots for frame conditions ----------

type verifPairSnap struct {
	p                    *CandidatePair
	state                CandidatePairState
	nominated, nomOnSucc bool
	renomOnSucc          bool
	reqCount             uint16
	reqRecv, reqSent     uint64
	respRecv, respSent   uint64
	remote               Candidate
}

type verifSnap struct {
	sent        int
	nRemotes    int
	nLocals     int
	pairs       []verifPairSnap
	selected    *CandidatePair
	state       ConnectionState
	controlling bool
	selector    pairCandidateSelector
	lastRecv    []int64
	lastSent    []int64
	nStates     int
	nSelPairs   int
	nCands      int
	nPending    int
	nextPairID  uint64
	lastNom     *uint32
}

func (w *verifWorld) remoteCount() int {
	n := 0
	for _, s := range w.a.remoteCandidates {
		n += len(s)
	}
	return n
}

func (w *verifWorld) allCands() []Candidate {
	var out []Candidate
	for _, l := range w.locals {
		out = append(out, l)
	}
	out = append(out, w.remotes...)
	return out
}

func (w *verifWorld) snap() verifSnap {
	a := w.a
	s := verifSnap{
		sent: w.sentCount(), nRemotes: w.remoteCount(), selected: a.getSelectedPair(), state: a.connectionState,
		controlling: a.isControlling.Load(), selector: a.selector, nStates: len(w.notifiedStates()), nSelPairs: len(w.notifiedPairs()),
		nCands: len(w.notifiedCands()), nPending: len(a.pendingBindingRequests), nextPairID: a.nextPairID,
	}
	for _, l := range a.localCandidates {
		s.nLocals += len(l)
	}
	for _, p := range a.checklist {
		s.pairs = append(s.pairs, verifPairSnap{p: p, state: p.state, nominated: p.nominated, nomOnSucc: p.nominateOnBindingSuccess, renomOnSucc: p.renominateOnBindingSuccess,
			reqCount: p.bindingRequestCount, reqRecv: p.requestsReceived, reqSent: p.requestsSent, respRecv: p.responsesReceived,
			respSent: p.responsesSent, remote: p.Remote})
	}
	for _, c := range w.allCands() {
		b := verifBaseOf(c)
		s.lastRecv = append(s.lastRecv, b.lastReceived.Load())
		s.lastSent = append(s.lastSent, b.lastSent.Load())
	}
	if cs, ok := a.selector.(*controlledSelector); ok {
		s.lastNom = cs.lastNomination
	}
	return s
}

func verifBaseOf(c Candidate) *candidateBase {
	switch x := c.(type) {
	case *CandidateHost:
		return &x.candidateBase
	case *CandidatePeerReflexive:
		return &x.candidateBase
	case *CandidateServerReflexive:
		return &x.candidateBase
	case *CandidateRelay:
		return &x.candidateBase
	}
	panic("verif: unknown candidate type")
}

func verifPairSnapEq(x, y verifPairSnap) bool {
	r := x.p == y.p && x.remote == y.remote
	r = verifAnd(r, x.state == y.state)
	r = verifAnd(r, x.nominated == y.nominated)
	r = verifAnd(r, x.nomOnSucc == y.nomOnSucc)
	r = verifAnd(r, x.renomOnSucc == y.renomOnSucc)
	r = verifAnd(r, x.reqCount == y.reqCount)
	r = verifAnd(r, x.reqRecv == y.reqRecv)
	r = verifAnd(r, x.reqSent == y.reqSent)
	r = verifAnd(r, x.respRecv == y.respRecv)
	r = verifAnd(r, x.respSent == y.respSent)
	return r
}

// pairsUnchanged: same pairs, same state/flags/counters.
func verifPairsUnchanged(x, y verifSnap) bool {
	if len(x.pairs) != len(y.pairs) {
		return false
	}
	r := true
	for i := range x.pairs {
		r = verifAnd(r, verifPairSnapEq(x.pairs[i], y.pairs[i]))
	}
	return r
}

func verifI64sEq(x, y []int64) bool {
	if len(x) != len(y) {
		return false
	}
	r := true
	for i := range x {
		r = verifAnd(r, x[i] == y[i])
	}
	return r
}

// nothingChanged: the full observable frame (property C02 "no observable effect").
func verifNothingChanged(x, y verifSnap) bool {
	r := x.sent == y.sent && x.nRemotes == y.nRemotes && x.nLocals == y.nLocals && x.selected == y.selected &&
		x.selector == y.selector && x.nStates == y.nStates && x.nSelPairs == y.nSelPairs && x.nCands == y.nCands &&
		x.nPending == y.nPending && x.nextPairID == y.nextPairID && x.lastNom == y.lastNom
	r = verifAnd(r, x.state == y.state)
	r = verifAnd(r, x.controlling == y.controlling)
	r = verifAnd(r, verifPairsUnchanged(x, y))
	r = verifAnd(r, verifI64sEq(x.lastRecv, y.lastRecv))
	r = verifAnd(r, verifI64sEq(x.lastSent, y.lastSent))
	return r
}

// ---------- inbound message construction ----------

// verifSrcV4: a symbolic IPv4 source address and port.
func verifSrcV4() netip.AddrPort {
	var b [4]byte
	b[0], b[1], b[2], b[3] = verifU8(), verifU8(), verifU8(), verifU8()
	return netip.AddrPortFrom(netip.AddrFrom4(b), verifU16())
}

func verifAddrPortOf(c Candidate) netip.AddrPort { return c.addrPort() }

func verifTxID() [stun.TransactionIDSize]byte {
	var id [stun.TransactionIDSize]byte
	for i := range id {
		id[i] = verifU8()
	}
	return id
}

// verifParseSent decodes datagram i sent through conn c.
func verifParseSent(c *verifPacketConn, i int) *stun.Message {
	m := &stun.Message{Raw: append([]byte{}, c.sent[i].data...)}
	if err := m.Decode(); err != nil {
		return nil
	}
	return m
}

func verifMustAddrPort(s string) netip.AddrPort {
	ap, err := netip.ParseAddrPort(s)
	if err != nil {
		panic("verif: " + err.Error())
	}
	return ap
}
